#!/bin/sh
# Build the framework from files on disk only (offline): regenerate Gen from /repo, build every Lean module.
here=$(cd "$(dirname "$0")" && pwd)
cd "$here" || exit 2
mkdir -p .scratch replays evidence
/venv/bin/python tools/translate.py "${BIOCANTOR_REPO:-/repo}" lean/BioCantor/Gen || exit 1
/venv/bin/python tools/gen_root.py
cd lean && lake build BioCantor.Base BioCantor.Driver.Main || exit 1
# every other module: build what builds (each check rebuilds and reports its own modules)
lake build $(cat modules.txt) || echo "setup: some modules did not build (see above); the checks of those properties will report it"
exit 0
