"""Implementation side of the collection-query operations (C09): builds REAL AnnotationCollections from the
compact description on the op line, runs the real query and renders the result canonically.

line grammar (all tokens space separated)
  SRC   := N | P | W <seq> | K <cs> <seq>          parent: none / sequence-less chromosome Parent /
                                                   seq_to_parent(seq, seq_id="chr") / seq_chunk_to_parent(seq,"chr",cs,cs+len)
           <bs|-> <be|->                           explicit start=/end= of the AnnotationCollection constructor
  COLL  := coll <n> ( <g|f|v> <start> <end> <coding 0|1> <idents|-> <k> ( <gs> <ge> <+|-> )* )*
           child i (0-based) gets guid UUID(int=i+1); its grand-child j gets UUID(int=1000+100*i+j)
           idents: comma separated, first / second identifier attribute in `_identifiers` order
           strand token of a transcript: `+` / `-` [`c` = carries a CDS] [`p` = is_primary_tx]; a coding gene without
           any `c` has a CDS on every non-empty transcript
  ops   := qpos SRC COLL <s|N> <e|N> <coding_only> <completely_within> <expand>
           qguid|qig|qtg|qfg SRC COLL <m> <guid number>*
           qfid SRC COLL <m> <identifier>*
           cqg SRC COLL <child index> <m> <guid number>*        (GeneInterval/FeatureIntervalCollection/... .query_by_guids)
answer  := ok <start> <end> <n> ( <guid> <g|f|v> <start> <end> <idents|-> <k> ( <guid> <gs> <ge> <+|-> <=|!> <mseq> )* )* PAR
           children sorted by guid number (set iteration order of the interval-guid queries is not canonical)
           PAR := N | P | W <seq> | K <cs> <ce> <seq>;   mseq := - (no sequence) | ~ (EmptyLocation) | .<spliced sequence>
           `=`: the grand-child's to_dict() equals the source grand-child's to_dict()
           cqg: `ok none` | `ok <one child rendering>`
"""
import functools
from uuid import UUID

from harness import shims
shims.install()
from harness.common import guarded

from inscripta.biocantor.gene.collections import AnnotationCollection
from inscripta.biocantor.gene.gene import GeneInterval
from inscripta.biocantor.gene.transcript import TranscriptInterval
from inscripta.biocantor.gene.feature import FeatureInterval, FeatureIntervalCollection
from inscripta.biocantor.gene.variants import VariantInterval, VariantIntervalCollection
from inscripta.biocantor.gene.cds_frame import CDSFrame
from inscripta.biocantor.location.strand import Strand
from inscripta.biocantor.io.parser import seq_chunk_to_parent, seq_to_parent
from inscripta.biocantor.parent.parent import Parent, SequenceType

KINDCH = {"transcript": "g", "feature": "f", "variant": "v"}
SYM = {Strand.PLUS: "+", Strand.MINUS: "-", Strand.UNSTRANDED: "."}
UNKNOWN = 999


class BadDesc(Exception):
    pass


def U(i):
    return UUID(int=i)


def parse_src(t, i):
    pk = t[i]
    i += 1
    if pk == "N":
        par = ("N",)
    elif pk == "P":
        par = ("P",)
    elif pk == "W":
        par = ("W", t[i])
        i += 1
    elif pk == "K":
        par = ("K", int(t[i]), t[i + 1])
        i += 2
    else:
        raise BadDesc(pk)
    bs = None if t[i] == "-" else int(t[i])
    be = None if t[i + 1] == "-" else int(t[i + 1])
    return par, (bs, be), i + 2


def parse_coll(t, i):
    if t[i] != "coll":
        raise BadDesc(t[i])
    n = int(t[i + 1])
    i += 2
    kids = []
    for _ in range(n):
        kind, start, end, coding, idents, k = t[i], int(t[i + 1]), int(t[i + 2]), t[i + 3] == "1", t[i + 4], int(t[i + 5])
        i += 6
        gcs = []
        for _ in range(k):
            gcs.append((int(t[i]), int(t[i + 1]), t[i + 2]))
            i += 3
        kids.append((kind, start, end, coding, [] if idents == "-" else idents.split(","), gcs))
    return kids, i


def mk_parent(par):
    if par[0] == "N":
        return None
    if par[0] == "P":
        return Parent(id="chr", sequence_type=SequenceType.CHROMOSOME)
    if par[0] == "W":
        return seq_to_parent(par[1], seq_id="chr")
    return seq_chunk_to_parent(par[2], "chr", par[1], par[1] + len(par[2]))


@functools.lru_cache(maxsize=32)
def build(desc):
    """desc = the `SRC COLL` part of the line; returns (collection, {guid number: source object})"""
    t = desc.split()
    par, (bs, be), i = parse_src(t, 0)
    kids, i = parse_coll(t, i)
    parent = mk_parent(par)
    genes, fcs, vcs = [], [], []
    for ci, (kind, start, end, coding, idents, gcs) in enumerate(kids):
        id1 = idents[0] if len(idents) > 0 else None
        id2 = idents[1] if len(idents) > 1 else None
        objs = []
        # strand token: `+` / `-`, optionally followed by `c` (this transcript carries a CDS) and / or `p`
        # (is_primary_tx=True); a coding gene without any `c` has a CDS on every non-empty transcript
        any_c = any("c" in st[1:] for _, _, st in gcs)
        for j, (gs, ge, st) in enumerate(gcs):
            strand = Strand.PLUS if st[0] == "+" else Strand.MINUS
            g = U(1000 + 100 * ci + j)
            if kind == "g":
                tx_coding = ("c" in st[1:]) if any_c else (coding and ge > gs)
                primary = True if "p" in st[1:] else None
                if tx_coding:
                    objs.append(TranscriptInterval([gs], [ge], strand, cds_starts=[gs], cds_ends=[ge],
                                                   cds_frames=[CDSFrame.ZERO], guid=g, is_primary_tx=primary,
                                                   parent_or_seq_chunk_parent=parent))
                else:
                    objs.append(TranscriptInterval([gs], [ge], strand, guid=g, is_primary_tx=primary,
                                                   parent_or_seq_chunk_parent=parent))
            elif kind == "f":
                objs.append(FeatureInterval([gs], [ge], strand, guid=g, parent_or_seq_chunk_parent=parent))
            else:
                objs.append(VariantInterval(gs, ge, "A" * (ge - gs), "SNV", guid=g, parent_or_seq_chunk_parent=parent))
        if kind == "g":
            c = GeneInterval(objs, guid=U(ci + 1), gene_id=id1, gene_symbol=id2, parent_or_seq_chunk_parent=parent)
            genes.append(c)
        elif kind == "f":
            c = FeatureIntervalCollection(objs, guid=U(ci + 1), feature_collection_id=id1, feature_collection_name=id2,
                                          parent_or_seq_chunk_parent=parent)
            fcs.append(c)
        else:
            c = VariantIntervalCollection(objs, guid=U(ci + 1), variant_collection_name=id1, variant_collection_id=id2,
                                          parent_or_seq_chunk_parent=parent)
            vcs.append(c)
        if (c.start, c.end) != (start, end):
            raise BadDesc(f"child {ci}: span {c.start}-{c.end} described as {start}-{end}")
        # the description's coding flag = "has a coding transcript" (asked of the transcripts, not of the gene)
        if kind == "g" and any(t.is_coding for t in objs) != coding:
            raise BadDesc(f"child {ci}: coding")
    ac = AnnotationCollection(feature_collections=fcs, genes=genes, variant_collections=vcs, start=bs, end=be,
                              parent_or_seq_chunk_parent=parent)
    return ac


def src_dicts(ac):
    out = {}
    for c in ac.iter_children():
        for g in c:
            out[g.guid.int] = g.to_dict()
    return out


def mseq(g):
    loc = g.chunk_relative_location
    if loc.is_empty:
        return "~"
    if not g.has_sequence:
        return "-"
    return "." + str(g.get_spliced_sequence())


def show_child(c, dicts):
    # the identifier attributes in declaration order (`c.identifiers` is the set of these values)
    vals = [getattr(c, a) for a in c._identifiers if getattr(c, a) is not None]
    if set(vals) != set(c.identifiers):
        raise BadDesc("identifiers")
    ids = ",".join(str(x) for x in vals) or "-"
    gcs = list(c)
    out = f"{c.guid.int} {KINDCH[c.interval_type.value]} {c.start} {c.end} {ids} {len(gcs)}"
    for g in gcs:
        same = "=" if dicts.get(g.guid.int) == g.to_dict() else "!"
        out += f" {g.guid.int} {g.start} {g.end} {SYM[g.strand]} {same} {mseq(g)}"
    return out


def show_par(p):
    if p is None:
        return "N"
    if p.sequence is None:
        return "P"
    if p.sequence.sequence_type == SequenceType.SEQUENCE_CHUNK:
        loc = p.sequence.parent.location
        return f"K {loc.start} {loc.end} {p.sequence}"
    return f"W {p.sequence}"


def show_result(r, dicts):
    kids = sorted(r.iter_children(), key=lambda c: c.guid.int)
    return (f"ok {r.start} {r.end} {len(kids)} " + "".join(show_child(c, dicts) + " " for c in kids)
            + show_par(r._parent_or_seq_chunk_parent)).rstrip()


def impl_query_op(line):
    t = line.split()
    op = t[0]

    def go():
        par, bounds, i = parse_src(t, 1)
        _, j = parse_coll(t, i)
        ac = build(" ".join(t[1:j]))
        dicts = src_dicts(ac)
        a = t[j:]
        if op == "qpos":
            s = None if a[0] == "N" else int(a[0])
            e = None if a[1] == "N" else int(a[1])
            r = ac.query_by_position(s, e, coding_only=a[2] == "1", completely_within=a[3] == "1",
                                     expand_location_to_children=a[4] == "1")
            return show_result(r, dicts)
        if op == "cqg":
            idx = int(a[0])
            ids = [U(int(x)) for x in a[2:2 + int(a[1])]]
            child = [c for c in ac.iter_children() if c.guid.int == idx + 1][0]
            r = child.query_by_guids(ids)
            return "ok none" if r is None else "ok " + show_child(r, dicts)
        m = int(a[0])
        if op == "qfid":
            return show_result(ac.query_by_feature_identifiers(a[1:1 + m]), dicts)
        ids = [U(int(x)) for x in a[1:1 + m]]
        fn = {"qguid": ac.query_by_guids, "qig": ac.query_by_interval_guids,
              "qtg": ac.query_by_transcript_interval_guids, "qfg": ac.query_by_feature_interval_guids}[op]
        return show_result(fn(ids), dicts)

    return guarded(go)
