"""Implementation side of the C15 operations: tokens -> real BioCantor (or Biopython) call -> canonical answer."""
from harness.common import guarded

import inscripta.biocantor  # noqa
from inscripta.biocantor import constants
from inscripta.biocantor.exc import AlphabetError
from inscripta.biocantor.gene.biotype import Biotype
from inscripta.biocantor.gene.cds_frame import CDSFrame, CDSPhase
from inscripta.biocantor.gene.codon import Codon, TranslationTable
from inscripta.biocantor.location.strand import Strand
from inscripta.biocantor.sequence.alphabet import Alphabet
from inscripta.biocantor.sequence.sequence import Sequence


def b2s(b):
    if b is True:
        return "true"
    if b is False:
        return "false"
    raise TypeError(f"type: not a bool: {b!r}")


def codons(cs):
    cs = [str(c) for c in cs]
    return " ".join([str(len(cs))] + cs)


def _complement(name, c, times):
    try:
        s = Sequence(c, Alphabet[name], validate_alphabet=False)
        for _ in range(times):
            s = s.reverse_complement()
    except (AlphabetError, KeyError):
        return "none"
    out = str(s)
    if len(out) != 1:
        raise AssertionError(out)
    return "ok " + out


def _bio(op, t):
    from Bio.Data import CodonTable
    from Bio.Seq import Seq, complement
    if op == "bio.std":
        tab = CodonTable.unambiguous_dna_by_id[1]
        c = t[1]
        return "ok " + ("*" if c in tab.stop_codons else tab.forward_table[c])
    if op == "bio.consensus":
        aa = str(Seq(t[1].replace("U", "T")).translate(table=1))
        return "ok " + (aa if aa in "ACDEFGHIKLMNPQRSTVWY*" else "X")
    if op == "bio.complement":
        return "ok " + complement(t[1])
    if op == "bio.starts":
        cs = sorted(CodonTable.unambiguous_dna_by_id[int(t[1])].start_codons)
        return "ok " + codons(cs)
    if op == "bio.stops":
        a = sorted(CodonTable.unambiguous_dna_by_id[1].stop_codons)
        b = sorted(CodonTable.unambiguous_dna_by_id[11].stop_codons)
        if a != b:
            raise AssertionError("tables 1 and 11 differ in stops")
        return "ok " + codons(a)
    raise KeyError(op)


def _codon_arg(tok):
    """`seq:TEXT` = a Sequence-typed constructor argument"""
    if tok.startswith("seq:"):
        return Sequence(tok[4:], Alphabet.NT_EXTENDED)
    return tok


def _ask(f, show):
    try:
        return show(f())
    except Exception:  # noqa  (a question that raises is reported as `!`; the spec then fails the line)
        return "!"


def _answers(obj):
    ob = lambda b: "T" if b is True else "F" if b is False else "!"   # noqa
    ch = lambda c: c if isinstance(c, str) and len(c) == 1 else "!"   # noqa
    syn = lambda cs: f"{len(cs)}:" + ",".join(str(c) for c in cs)      # noqa
    out = [_ask(lambda: str(obj), lambda s: s if s and " " not in s else "!"),
           _ask(lambda: obj.translate(strict=True), ch), _ask(lambda: obj.translate(strict=False), ch),
           _ask(lambda: obj.is_stop_codon, ob), _ask(lambda: obj.is_strict_codon, ob),
           _ask(lambda: obj.is_canonical_start_codon, ob)]
    for tab in (TranslationTable.DEFAULT, TranslationTable.STANDARD, TranslationTable.PROKARYOTE):
        out.append(_ask(lambda: obj.is_start_codon_in_specific_translation_table(tab), ob))
    out.append(_ask(lambda: obj.synonymous_codons(include_self=False), syn))
    out.append(_ask(lambda: obj.synonymous_codons(include_self=True), syn))
    return " ".join(out)


def _hist(t):
    """hold Codon(held); answers; construct every other spelling (accepted or refused); answers again; identity."""
    held_tok, n = t[1], int(t[2])
    sps = t[3:3 + n]
    held = Codon(_codon_arg(held_tok))          # refusal of the held text itself propagates (err ValueError)
    a0 = _answers(held)
    outs = []
    for sp in sps:
        first = None
        for attempt in (0, 1):       # every construction is made twice: a refusal (or an acceptance) must be repeatable
            try:
                other = Codon(_codon_arg(sp))
                o = "OY" if other is held else "ON"
            except (ValueError, AlphabetError):
                o = "X-"
            if attempt == 0:
                first = o
            elif o != first:
                raise AssertionError(f"Codon({sp!r}): first construction {first}, second {o}")
        outs.append(first)
    a1 = _answers(held)
    ob = lambda b: "T" if b is True else "F"   # noqa
    text = held_tok[4:] if held_tok.startswith("seq:") else held_tok
    hsh = ob(hash(held) == hash(text.upper()))
    again = Codon(_codon_arg(held_tok))
    same, eq = ob(again is held), ob((held == again) is True)
    return f"ok {a0} | {len(outs)} {' '.join(outs)} | {a1} | {same} {eq} {hsh}"


_FLOOD = None


def _flood():
    """Registry saturation: construct every triplet over the 16 IUPAC letters (T and U spellings, upper and lower
    case) and a few hundred refused texts - more distinct constructor arguments than any bounded registry / cache of
    codons would plausibly hold - before the history of the line is played."""
    global _FLOOD
    if _FLOOD is None:
        import itertools
        L = "ACGTURYSWKMBDHVN"
        _FLOOD = ["".join(p) for p in itertools.product(L, repeat=3)]
        _FLOOD += [x.lower() for x in _FLOOD[::3]]
        _FLOOD += ["".join(p) for p in itertools.product("XZE*-.0", repeat=3)] + ["AT", "ATGA", "", "A-G"]
    n = 0
    for x in _FLOOD:
        try:
            Codon(x)
            n += 1
        except (ValueError, AlphabetError):
            pass
    return n


def _revcomp(name, text):
    text = "" if text == "_" else text
    try:
        s = Sequence(text, Alphabet[name], validate_alphabet=False).reverse_complement()
    except (AlphabetError, KeyError):
        return "none"
    out = str(s)
    if " " in out:
        raise AssertionError(out)
    return "ok " + (out if out else "_")


def impl_tab_op(line):
    t = [x for x in line.split(" ") if x != ""]
    op = t[0]

    def go():
        if op.startswith("bio."):
            return _bio(op, t)
        if op == "hist":
            return _hist(t)
        if op == "fhist":
            _flood()
            return _hist(t)
        if op == "revcomp":
            return _revcomp(t[1], t[2])
        if op == "translate":
            r = Codon(t[1]).translate(strict=(t[2] == "1"))
            if not (isinstance(r, str) and len(r) == 1):
                raise TypeError(f"type: translate returned {r!r}")
            return "ok " + r
        if op == "syn":
            return "ok " + codons(Codon(t[1]).synonymous_codons(include_self=(t[2] == "1")))
        if op == "is_stop":
            return "ok " + b2s(Codon(t[1]).is_stop_codon)
        if op == "is_strict":
            return "ok " + b2s(Codon(t[1]).is_strict_codon)
        if op == "is_canon":
            return "ok " + b2s(Codon(t[1]).is_canonical_start_codon)
        if op == "is_start":
            c = Codon(t[1])
            return "ok " + b2s(c.is_start_codon_in_specific_translation_table(TranslationTable(int(t[2]))))
        if op == "aacodons":
            if t[1] not in constants.aacodons:
                return "err KeyError"
            return "ok " + codons(constants.aacodons[t[1]])
        if op == "complement":
            return _complement(t[1], t[2], 1)
        if op == "complement2":
            return _complement(t[1], t[2], 2)
        if op == "alphabet":
            if t[1] not in Alphabet.__members__:
                return "err KeyError"
            a = Alphabet[t[1]]
            return f"ok {a.value} {b2s(a.is_nucleotide_alphabet())}"
        if op == "shift":
            return "ok " + CDSFrame[t[1]].shift(int(t[2])).name
        if op == "to_phase":
            r = CDSFrame[t[1]].to_phase()
            if type(r) is not CDSPhase:
                raise TypeError("type: not a CDSPhase")
            return "ok " + r.name
        if op == "to_frame":
            r = CDSPhase[t[1]].to_frame()
            if type(r) is not CDSFrame:
                raise TypeError("type: not a CDSFrame")
            return "ok " + r.name
        if op == "frame_int":
            return "ok " + CDSFrame.from_int(int(t[1])).name
        if op == "phase_int":
            return "ok " + CDSPhase.from_int(int(t[1])).name
        if op == "frame_val":
            return f"ok {CDSFrame[t[1]].value}"
        if op == "phase_val":
            return f"ok {CDSPhase[t[1]].value}"
        if op == "strand_rev":
            return "ok " + Strand[t[1]].reverse().name
        if op == "strand_rel":
            return "ok " + Strand[t[1]].relative_to(Strand[t[2]]).name
        if op == "strand_sym":
            return "ok " + Strand.from_symbol(t[1]).name
        if op == "strand_tosym":
            return "ok " + Strand[t[1]].to_symbol()
        if op == "strand_int":
            return "ok " + Strand.from_int(int(t[1])).name
        if op == "strand_val":
            return f"ok {Strand[t[1]].value}"
        if op == "strand_lt":
            return "ok " + b2s(Strand[t[1]] < Strand[t[2]])
        if op == "biotype":
            if not (Biotype.has_name(t[1]) and Biotype.has_name(t[2])):
                return "err KeyError"
            return f"ok {Biotype[t[1]].value} {Biotype[t[2]].value}"
        if op == "enum":
            if t[1] == "StrandOrder":
                return "ok " + ",".join(f"{k.name}={v}" for k, v in Strand._order().items())
            cls = {"Strand": Strand, "CDSFrame": CDSFrame, "CDSPhase": CDSPhase, "TranslationTable": TranslationTable}[t[1]]
            return "ok " + ",".join(f"{n}={m.value}" for n, m in cls.__members__.items())
        raise KeyError(op)

    return guarded(go)
