"""Real-library side of C18 (qualifier / identifier extraction, locus-tag grouping).

Token codec (shared with lean/BioCantor/Driver/SpecQualifiers.lean): a string is `s:` followed by its characters,
everything outside [A-Za-z0-9_] as %XX (ASCII only).  A dict is `<n> (key <m> val*)*`, a list `<m> item*`.
"""
import json
import warnings

from harness.common import guarded


def enc(s):
    return "s:" + "".join(c if (c.isascii() and c.isalnum()) or c == "_" else "%%%02X" % ord(c) for c in s)


def dec(tok):
    assert tok.startswith("s:"), tok
    s, out, i = tok[2:], [], 0
    while i < len(s):
        if s[i] == "%":
            out.append(chr(int(s[i + 1:i + 3], 16)))
            i += 3
        else:
            out.append(s[i])
            i += 1
    return "".join(out)


def enc_list(xs):
    return " ".join([str(len(xs))] + [enc(x) for x in xs])


def enc_dict(items):
    """items: iterable of (key, [values]) in insertion order"""
    items = list(items)
    return " ".join([str(len(items))] + [enc(k) + " " + enc_list(v) for k, v in items])


def enc_opt(s):
    return "None" if s is None else enc(s)


class Toks:
    def __init__(self, toks):
        self.t, self.i = toks, 0

    def next(self):
        x = self.t[self.i]
        self.i += 1
        return x

    def str_(self):
        return dec(self.next())

    def list_(self):
        return [self.str_() for _ in range(int(self.next()))]

    def dict_(self):
        d = {}
        for _ in range(int(self.next())):
            k = self.str_()
            d[k] = self.list_()
        return d


_LIB = {}


def lib():
    if not _LIB:
        from harness import shims
        shims.install()
        from inscripta.biocantor.io import features as F
        from inscripta.biocantor.io.gff3 import parser as G
        from inscripta.biocantor.io.genbank import parser as GB
        _LIB.update(F=F, G=G, GB=GB)
    return _LIB


TYPE_OF_KIND = {"g": "gene", "t": "mRNA", "c": "CDS", "o": "exon"}


def _record(feats):
    """feats: list of (tag, genbank type, start, end, uid)"""
    from Bio.Seq import Seq
    from Bio.SeqFeature import SeqFeature, SimpleLocation
    from Bio.SeqRecord import SeqRecord
    rec = SeqRecord(Seq("ACGT" * 300), id="chr1")  # 1200 nt
    for tag, ty, s, e, uid in feats:
        rec.features.append(SeqFeature(SimpleLocation(s, e, strand=1), type=ty,
                                       qualifiers={"locus_tag": [tag], "uid": [str(uid)]}))
    return rec


def _parser(rec):
    GB = lib()["GB"]
    return GB.LocusTagGenBankParser([rec], {}, GB.GeneFeature.to_gene_model,
                                    GB.FeatureIntervalGenBankCollection.to_feature_model)


def _uid(f):
    return f.qualifiers["uid"][0]


def _ltgroup(t):
    n = int(t.next())
    feats = []
    for _ in range(n):
        tag, kind, uid = t.str_(), t.next(), int(t.next())
        feats.append((tag, TYPE_OF_KIND[kind], 10 + uid, 100 + uid, uid))
    p = _parser(_record(feats))
    with warnings.catch_warnings():
        warnings.simplefilter("ignore")
        p._extract_seqfeatures_from_seqrecords()
        p._group_gene_features_by_locus_tag()
    res = [str(len(p.grouped_gene_features[0]))]
    for g in p.grouped_gene_features[0]:
        members = [g.gene_feature] if g.gene_feature is not None else []
        members += list(g.transcript_features) + list(g.cds_features)
        tags = {m.qualifiers["locus_tag"][0] for m in members}
        # since 48a0909 a tag carried only by ignored ("other") features yields no group at all, so every group
        # has a member to read its tag from; a member-less or mixed-tag group is reported as such
        if len(tags) != 1:
            return "err! GroupWithoutSingleTag"
        res.append(enc(tags.pop()))
        res.append("None" if g.gene_feature is None else _uid(g.gene_feature))
        res.append(" ".join([str(len(g.transcript_features))] + [_uid(x) for x in g.transcript_features]))
        res.append(" ".join([str(len(g.cds_features))] + [_uid(x) for x in g.cds_features]))
    return "ok " + " ".join(res)


def _norm_gene(g):
    """gene model dict with the children in a canonical order and without content-derived identifiers"""
    g = json.loads(json.dumps(g, default=str, sort_keys=True))
    for k in ("gene_guid",):
        g.pop(k, None)
    txs = g.get("transcripts", [])
    for tx in txs:
        for k in ("transcript_guid", "transcript_interval_guid"):
            tx.pop(k, None)
    g["transcripts"] = sorted(txs, key=lambda x: json.dumps(x, sort_keys=True))
    return g


def _parse_genes(feats):
    p = _parser(_record(feats))
    with warnings.catch_warnings():
        warnings.simplefilter("ignore")
        recs = list(p.parse())
    coll = recs[0].annotation.to_annotation_collection()
    genes = [_norm_gene(g.to_dict()) for g in coll.genes]
    return sorted(genes, key=lambda g: (str(g.get("locus_tag")), json.dumps(g, sort_keys=True)))


def _gbperm(t):
    n = int(t.next())
    feats = []
    for i in range(n):
        tag, ty, s, e = t.str_(), t.next(), int(t.next()), int(t.next())
        feats.append((tag, ty, s, e, i))
    perm = [int(t.next()) for _ in range(n)]
    a = _parse_genes(feats)
    b = _parse_genes([feats[i] for i in perm])
    if a == b:
        return "ok same"
    diff = []
    for x, y in zip(a, b):
        for k in sorted(set(x) | set(y)):
            if x.get(k) != y.get(k):
                diff.append(k)
    return "ok differ " + ",".join(sorted(set(diff)) or ["gene-count"])


def _xq(t):
    """export_qualifiers(parent_qualifiers) of a FeatureInterval / TranscriptInterval / CDSInterval"""
    from inscripta.biocantor.gene.feature import FeatureInterval
    from inscripta.biocantor.gene.transcript import TranscriptInterval
    from inscripta.biocantor.gene.cds import CDSInterval
    from inscripta.biocantor.gene.cds_frame import CDSFrame
    from inscripta.biocantor.gene.biotype import Biotype
    from inscripta.biocantor.location.strand import Strand
    kind = t.next()
    own = t.dict_()
    parent = None
    if t.next() == "P":
        parent = {k: set(v) for k, v in t.dict_().items()}      # parents hand their qualifiers over as sets
    attrs = []
    for _ in range(int(t.next())):
        x = t.next()
        attrs.append(None if x == "None" else dec(x))
    own_arg = own if own else None
    if kind == "f":
        iv = FeatureInterval([0], [10], Strand.PLUS, qualifiers=own_arg, feature_name=attrs[0], feature_id=attrs[1])
    elif kind == "t":
        iv = TranscriptInterval([0], [10], Strand.PLUS, qualifiers=own_arg, transcript_id=attrs[0],
                                transcript_symbol=attrs[1], transcript_type=Biotype[attrs[2]] if attrs[2] else None,
                                protein_id=attrs[3])
    else:
        iv = CDSInterval([0], [9], Strand.PLUS, [CDSFrame.ZERO], qualifiers=own_arg, protein_id=attrs[0], product=attrs[1])
    before = {k: set(v) for k, v in iv.qualifiers.items()}
    pbefore = None if parent is None else {k: set(v) for k, v in parent.items()}
    r = iv.export_qualifiers(parent)
    if iv.qualifiers != before or parent != pbefore:
        return "err! OperandMutated"
    return "ok " + enc_dict((k, sorted(v)) for k, v in r.items())


def impl_qual_op(line):
    toks = line.split()
    t = Toks(toks[1:])

    def go():
        L = lib()
        op = toks[0]
        if op == "extract":
            d = t.dict_()
            n, i = L["F"].extract_feature_name_id(d)
            return f"ok {enc_opt(n)} {enc_opt(i)}"
        if op == "types":
            init = set(t.list_())
            d = t.dict_()
            L["F"].extract_feature_types(init, d)
            return "ok " + enc_list(sorted(init))
        if op == "merge":
            a = t.dict_()
            b = t.dict_()
            m = L["F"].merge_qualifiers(a, b)
            return "ok " + enc_dict(m.items())
        if op == "fsq":
            d = t.dict_()
            r = L["G"].filter_and_sort_qualifiers(d)
            return "ok None" if r is None else "ok " + enc_dict(r.items())
        if op == "xq":
            return _xq(t)
        if op == "gbiotype":
            tys = t.list_()
            feats = [("L0", "gene", 5, 40 + 20 * len(tys), 0)] + [("L0", ty, 10 + 20 * i, 25 + 20 * i, i + 1)
                                                                for i, ty in enumerate(tys)]
            p = _parser(_record(feats))
            with warnings.catch_warnings():
                warnings.simplefilter("ignore")
                recs = list(p.parse())
            return "ok " + enc(recs[0].annotation.genes[0].gene_type.name)
        if op == "ltgroup":
            return _ltgroup(t)
        if op == "gbperm":
            return _gbperm(t)
        raise KeyError(op)
    return guarded(go)
