"""Harness-side shims for third-party API drift in this sandbox (marshmallow 4, Biopython 1.88, no PyVCF).

They restore the API BioCantor was written against, in the harness process only; /repo is untouched.
Import this module BEFORE anything from inscripta.biocantor.io.  Part of the trusted base of the legs
that need it (C08 schema leg, C11 parse leg, C12, C13 VCF leg, C17); evidence lists `shims_used`.
"""
import sys
import types

USED = []


def install():
    if USED:
        return USED
    import marshmallow

    _pd = marshmallow.post_dump

    def post_dump(fn=None, **kw):
        kw.pop("pass_many", None)
        return _pd(fn, **kw)

    marshmallow.post_dump = post_dump
    USED.append("marshmallow.post_dump(pass_many=) accepted and dropped")

    if "vcf" not in sys.modules:
        vcf = types.ModuleType("vcf")
        vcf.model = types.ModuleType("vcf.model")

        class _Record:  # only used as an annotation by io.vcf.parser; records are duck typed
            pass

        vcf.model._Record = _Record
        vcf.Reader = None
        sys.modules["vcf"] = vcf
        sys.modules["vcf.model"] = vcf.model
        USED.append("stub module vcf (vcf.model._Record)")

    import Bio.SeqFeature as SF

    if not getattr(SF.SeqFeature, "_verif_shim", False):
        _oi = SF.SeqFeature.__init__

        def _init(self, location=None, type="", id="<unknown id>", qualifiers=None, sub_features=None, strand=None, **kw):
            _oi(self, location=location, type=type, id=id, qualifiers=qualifiers, sub_features=sub_features, **kw)
            if strand is not None and self.location is not None:
                try:
                    self.location.strand = strand
                except Exception:
                    for p in self.location.parts:
                        p.strand = strand

        SF.SeqFeature.__init__ = _init
        SF.SeqFeature.strand = property(lambda self: self.location.strand if self.location is not None else None)
        for cls in (SF.SimpleLocation, SF.CompoundLocation):
            cls.nofuzzy_start = property(lambda self: int(self.start))
            cls.nofuzzy_end = property(lambda self: int(self.end))
        SF.SeqFeature._verif_shim = True
        USED.append("Bio.SeqFeature.SeqFeature(strand=), .strand, Location.nofuzzy_start/end")

    import inscripta.biocantor  # noqa: F401  (must be imported first: circular imports otherwise)
    return USED
