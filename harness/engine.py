"""Generic check flow; property modules (harness/props/cXX.py) plug into it.

A property module defines
  ID, LEAN_MODULE, DESIGN_REF, TRUSTED (list of str), ASSUMPTIONS (list of str)
  cases(run)            -> iterable of operation lines (quick/thorough sized by run.tier; corpus first)
  impl(line)            -> the real library's canonical answer (top-level function; runs in a worker pool)
  nontrivial(line, ans) -> hashable key when the case is non-trivial by RULE, else None
  RULE                  -> str
optional
  ERR_CLASS (bool)      compare exception classes in the correspondence
  MODEL_OPS / SPEC_OPS  op names sent to the model / spec driver (default: all)
  extra_checks(run)     additional direct checks on the real code, may append to run.failures
  EXHAUSTIVE_NOTE
"""
import importlib
import json
import multiprocessing as mp
import os
import sys
import time

from harness import common as C
from harness import warm as W
from harness import decoy as D


def _pool_map(fn, items, procs):
    if len(items) < 400 or procs <= 1:
        return [fn(x) for x in items]
    ctx = mp.get_context("fork")
    with ctx.Pool(procs) as pool:
        return pool.map(fn, items, chunksize=max(1, len(items) // (procs * 8)))


class _ImplCall:
    """picklable wrapper: `mod.impl(line)`, inside `warm.warm_constructors()` for a line carrying the `@w` marker"""

    def __init__(self, impl, decoys=None):
        self.impl = impl
        self.decoys = decoys

    def __call__(self, line):
        if line.endswith(D.MARK):
            # decoy twin (harness/decoy.py): same identifiers, other content, played first in this worker process
            line = D.strip(line)
            D.play(self.impl, self.decoys, W.strip(line))
        return W.call(self.impl, line)


def with_warm_twins(mod, run, lines):
    """`WARM_TWINS = share` in a property module: for that share of the lines the twin `<line> @w` is evaluated too —
    the same operation with every library object asked every argument-less question as soon as it is constructed."""
    share = getattr(mod, "WARM_TWINS", 0)
    if isinstance(share, dict):
        share = share.get(run.tier, 0)
    skip_ops = set(getattr(mod, "WARM_SKIP_OPS", ()))
    for ln in lines:
        yield ln
        if share and run.rng.random() < share and ln.split(" ", 1)[0] not in skip_ops and not ln.endswith(W.MARK):
            run.count("warm-twin")
            yield ln + W.MARK


def with_decoy_twins(mod, run, lines):
    """`DECOY_TWINS = share` in a property module: for that share of the lines the twin `<line> @d` is evaluated too -
    the same operation after a decoy (same identifiers, other bases / another hierarchy) was played in the same process."""
    share = getattr(mod, "DECOY_TWINS", 0)
    if isinstance(share, dict):
        share = share.get(run.tier, 0)
    pick = getattr(mod, "DECOY_PICK", None)       # optional: the lines on which a decoy can matter at all
    for ln in lines:
        # the twin comes BEFORE its plain line: a decoy can only be the first to fill a cache that the plain line has
        # not filled yet (caches the harness does not know about cannot be emptied)
        if share and not ln.endswith((W.MARK, D.MARK)) and (pick is None or pick(ln)) and run.rng.random() < share:
            run.count("decoy-twin")
            yield ln + D.MARK
        yield ln


def corpus_lines(prop_id):
    d = os.path.join(C.ROOT, "corpus", prop_id)
    out = []
    if os.path.isdir(d):
        for f in sorted(os.listdir(d)):
            if f.endswith(".ops"):
                for ln in open(os.path.join(d, f)):
                    ln = ln.strip()
                    if ln and not ln.startswith("#"):
                        out.append(ln)
    return out


def evaluate(mod, run, lines, want_model=True, via=None):
    """impl / model / spec on the given lines; fills run.failures / run.disagreements.
    `mod.lean_line(line)` (optional) rewrites a line that carries a CALL HISTORY on the implementation side (operands
    warmed and derived by identity-like transformations) into the history-free line the Lean drivers answer: the model
    and the specification are functions of the mathematical operands only.
    `via` = id of the property whose operations these are, when they are borrowed by another property's check."""
    procs = int(os.environ.get("VERIF_PROCS", "16"))
    impl_out = _pool_map(_ImplCall(mod.impl, getattr(mod, "decoys", None)), lines, procs)
    impl_lines = lines
    ll = getattr(mod, "lean_line", None)
    lines = [W.strip(D.strip(l)) for l in lines]   # `@w` / `@d` twins (harness/warm.py, decoy.py): the Lean side is history-free
    if ll is not None:
        lines = [ll(l) for l in lines]
    model_ops = getattr(mod, "MODEL_OPS", None)
    model_out = [None] * len(lines)
    if want_model:
        idx = [i for i, l in enumerate(lines) if model_ops is None or l.split(" ", 1)[0] in model_ops]
        try:
            outs = C.run_driver(mod.DRIVER, [lines[i] for i in idx], tag=f"model-{run.prop}")
            for i, o in zip(idx, outs):
                model_out[i] = o
        except C.DriverError as e:
            run.notes.append(f"model driver failed: {str(e)[:500]}")
            run.extra["model_driver_failed"] = True
    skip = getattr(mod, "spec_skip", None)
    sidx = [i for i, l in enumerate(lines) if not (skip and skip(l))]
    spec_out = ["n/a"] * len(lines)
    souts = C.run_driver(mod.SPEC_DRIVER, [f"{lines[i]} => {impl_out[i]}" for i in sidx], tag=f"spec-{run.prop}")
    for i, o in zip(sidx, souts):
        spec_out[i] = o
    err_class = getattr(mod, "ERR_CLASS", False)
    for l, io, mo, so in zip(impl_lines, impl_out, model_out, spec_out):
        run.evaluations += 1
        key = mod.nontrivial(W.strip(D.strip(l)), io)
        if key is not None:
            run.nontrivial.add((key, "@w") if l.endswith(W.MARK) else (key, "@d") if l.endswith(D.MARK) else key)
        run.count("impl:" + ("ok" if io.startswith("ok") else io.split(" ", 2)[0] + " " + (io.split(" ", 2) + ["", ""])[1]))
        run.count("spec:" + so.split(" ", 1)[0])
        if len(run.samples) < 8 and key is not None and run.rng.random() < 0.01 + 8.0 / max(8, len(lines)):
            run.samples.append({"op": l, "impl": io, "model": mo, "spec": so})
        rec = {"line": l, "impl": io, "model": mo, "spec": so}
        if via:
            rec["via"] = via
        if so.startswith("fail") or so.startswith("bad-args"):
            run.failures.append(rec)
        if mo is not None and not mo.startswith("bad-op") and not C.same(io, mo, err_class):
            run.disagreements.append(rec)
    if not run.samples and lines:
        run.samples.append({"op": lines[0], "impl": impl_out[0], "model": model_out[0], "spec": spec_out[0]})


def main(argv):
    import argparse
    ap = argparse.ArgumentParser()
    ap.add_argument("prop")
    ap.add_argument("--tier", default=os.environ.get("VERIF_TIER", "quick"))
    ap.add_argument("--replay")
    ap.add_argument("--skip-build", action="store_true", help="debugging only")
    a = ap.parse_args(argv)
    tier = "thorough" if a.tier.startswith("t") else "quick"
    seed = int(os.environ.get("VERIF_SEED", "0") or 0)
    os.environ[C.GUARD] = "1"
    sys.path.insert(0, C.REPO)
    mod = importlib.import_module(f"harness.props.{a.prop.lower()}")
    run = C.Run(mod.ID, tier, seed)

    if a.replay:
        return replay(mod, run, a.replay)

    # 1 translate ---------------------------------------------------------------------------
    tr = C.translate() if not os.environ.get("VERIF_NO_TRANSLATE") else {"status": "ok", "skipped": True}
    broken = []   # proof obligations / ties that no longer check (not yet violations)
    if tr.get("status") != "ok":
        needed = set(getattr(mod, "GEN_NEEDS", []))
        bad = [e for e in tr.get("errors", []) if not needed or any(n in e for n in needed)] if needed else tr.get("errors", [])
        if tr.get("status") == "crash" or bad:
            broken.append({"what": "translator", "detail": (bad or tr.get("errors"))[:5]})
    # 2 build -------------------------------------------------------------------------------
    lean_modules = [mod.LEAN_MODULE] + list(getattr(mod, "EXTRA_LEAN_MODULES", []))
    theorems_by_module = {}
    for lm in lean_modules:
        pf = os.path.join(C.LEAN, lm.replace(".", "/") + ".lean")
        theorems_by_module[lm] = C.theorems_of(pf) if os.path.exists(pf) else []
    theorems = [t for lm in lean_modules for t in theorems_by_module[lm]]
    spec_ok, spec_out = (True, "") if a.skip_build else C.lake_build(list(mod.SPEC_DRIVER_MODULES))
    if not spec_ok:
        C.log(spec_out[-3000:])
        print(f"[{mod.ID}] infrastructure failure: the spec driver does not build", file=sys.stderr)
        return 2
    build_ok, build_out = (True, "") if a.skip_build else C.lake_build(lean_modules + list(mod.DRIVER_MODULES))
    discharged = len(theorems)
    audit_rep = {}
    if not build_ok:
        decls = C.failing_decls(build_out)
        broken.append({"what": "lake build", "failing": decls, "log_tail": build_out[-1200:]})
        discharged = 0
    else:
        # 3 audit ---------------------------------------------------------------------------
        ok, audit_rep = True, {"audited": 0, "bad_axioms": {}, "axioms_used": []}
        for lm in lean_modules:
            ok1, rep1 = C.audit(mod.ID, lm, theorems_by_module[lm])
            ok = ok and ok1
            audit_rep["audited"] += rep1.get("audited", 0)
            audit_rep["bad_axioms"].update(rep1.get("bad_axioms", {}))
            audit_rep["axioms_used"] = sorted(set(audit_rep["axioms_used"]) | set(rep1.get("axioms_used", [])))
            for k in ("missing", "forbidden_tokens", "audit_output"):
                if rep1.get(k):
                    audit_rep.setdefault(k, [])
                    audit_rep[k] = audit_rep[k] + (rep1[k] if isinstance(rep1[k], list) else [rep1[k]])
        if not ok:
            broken.append({"what": "axiom/keyword audit", "detail": audit_rep})
            discharged = audit_rep.get("audited", 0) - len(audit_rep.get("bad_axioms", {}))
        # thorough tier: independent re-check of the compiled proofs with leanchecker
        if tier == "thorough" and not a.skip_build:
            t1 = time.time()
            try:
                rc_lc, out_lc = C.sh(["lake", "env", "leanchecker"] + lean_modules, cwd=C.LEAN, timeout=1800)
            except Exception as e:  # noqa  (timeout: infrastructure, not a verdict)
                rc_lc, out_lc = None, str(e)
            run.extra["leanchecker"] = {"module": mod.LEAN_MODULE, "rc": rc_lc, "wall_s": round(time.time() - t1, 1),
                                        "output_tail": (out_lc or "")[-300:]}
            if rc_lc not in (0, None):
                broken.append({"what": "leanchecker", "detail": (out_lc or "")[-800:]})
    # 4 correspondence + spec ---------------------------------------------------------------
    lines = corpus_lines(mod.ID) + list(with_decoy_twins(mod, run, with_warm_twins(mod, run, mod.cases(run))))
    model_usable = build_ok or _driver_builds(mod)
    evaluate(mod, run, lines, want_model=model_usable)
    if hasattr(mod, "extra_checks"):
        mod.extra_checks(run)
    borrowed = _borrow(mod, run, tier, seed, a.skip_build)
    if run.extra.get("model_driver_failed"):
        broken.append({"what": "model driver", "detail": run.notes[-1:]})
    if run.disagreements:
        broken.append({"what": "correspondence", "count": len(run.disagreements), "first": run.disagreements[:3]})
    # 4b search: something is broken but no failing input yet -> spend the thorough budget on the real code
    if broken and not run.failures and tier == "quick":
        run2 = C.Run(mod.ID, "thorough", seed)
        C.log(f"[{mod.ID}] obligation/tie broken; searching the real code with the thorough budget")
        lines2 = list(mod.cases(run2))
        evaluate(mod, run2, lines2, want_model=False)
        if hasattr(mod, "extra_checks"):
            mod.extra_checks(run2)
        run.failures.extend(run2.failures)
        run.evaluations += run2.evaluations
        run.nontrivial |= run2.nontrivial
    # 5 decide ------------------------------------------------------------------------------
    findings = C.load_findings(mod.ID)
    own_ids = {f["id"] for f in findings}
    for o in borrowed:
        for f in C.load_findings(o.ID):
            # the sibling's findings apply to the sibling's operations; an id shared with an own finding is kept apart
            findings = findings + [dict(f, id=(f["id"] + "@" + o.ID) if f["id"] in own_ids else f["id"])]
    new_failures = []
    for f in run.failures:
        k = C.match_finding(findings, W.strip(D.strip(f["line"])), f["impl"], f)
        if k:
            run.known_hit[k["id"]] = run.known_hit.get(k["id"], 0) + 1
        else:
            new_failures.append(f)
    for f in findings:
        if f["id"] not in own_ids and not run.known_hit.get(f["id"]):
            continue        # a finding of a property whose operations are borrowed: reported only when seen here
        print(f"KNOWN-FINDING: property={mod.ID} {f['id']} {f['what']}"
              + ("" if run.known_hit.get(f["id"]) or not f.get("op") else " (not exercised in this run)"))
    violations = 0
    rc = 0
    if new_failures:
        violations = len(new_failures)
        first = min(new_failures, key=lambda f: len(f["line"]))
        shr = mod.shrink(first, mod) if hasattr(mod, "shrink") else first
        path = C.write_replay(run, "failing-input", {"failing_input": shr, "more": new_failures[:10],
                                                      "count": len(new_failures), "broken_obligations": broken,
                                                      "how_to_replay": f"./check {mod.ID} --replay <this file>"})
        print(f"VIOLATION property={mod.ID} replay={path}")
        rc = 1
    elif broken:
        violations = 1
        path = C.write_replay(run, "unproved", {"broken_obligations": broken,
                                                 "explanation": "a theorem, tie lemma, audit or model/implementation "
                                                 "correspondence no longer checks and no input on which the real code "
                                                 "violates the property was found",
                                                 "searched_cases": run.evaluations})
        print(f"VIOLATION property={mod.ID} replay={path} no-failing-input-found")
        rc = 1
    cov = {
        "obligations": max(1, len(theorems)),
        "discharged": discharged,
        "checker_cmd": f"cd lean && lake build {mod.LEAN_MODULE} && lake env lean <#print axioms of {len(theorems)} theorems>"
                       + (f" && lake env leanchecker {mod.LEAN_MODULE}" if tier == "thorough" else ""),
        "trusted_base": ["Lean 4.33 kernel", "axioms: " + ", ".join(audit_rep.get("axioms_used", []) or ["none"]),
                         "tools/translate.py", "harness (generators, canonicalisation)"] + list(mod.TRUSTED),
        "theorems": theorems,
        "evaluations": run.evaluations,
        "distinct_nontrivial": len(run.nontrivial),
        "rule": mod.RULE,
        "samples": run.samples[:8],
        "exhaustive": bool(run.exhaustive),
        "exhaustive_scope": getattr(mod, "EXHAUSTIVE_NOTE", ""),
        "input_distribution": dict(sorted(run.dist.items())),
        "translator": {k: tr.get(k) for k in ("status", "kernels", "tables", "errors")},
        "correspondence_disagreements": len(run.disagreements),
        "spec_failures_on_impl": len(run.failures),
        "known_findings_hit": run.known_hit,
        "broken_obligations": broken,
        "notes": run.notes,
    }
    cov.update(run.extra)
    C.write_evidence(run, cov, violations, list(mod.ASSUMPTIONS))
    C.log(f"[{mod.ID}] tier={tier} seed={seed} theorems={len(theorems)} cases={run.evaluations} "
          f"nontrivial={len(run.nontrivial)} disagreements={len(run.disagreements)} failures={len(run.failures)} "
          f"broken={len(broken)} wall={time.time() - run.t0:.1f}s rc={rc}")
    return rc


def _borrow(mod, run, tier, seed, skip_build):
    """`BORROW = [{"prop": "c06", "ops": {...}, "max": n, "why": "..."}]`: operations of ANOTHER property's check that
    observe this property as well (e.g. the interval-class wrappers of the coordinate maps) are evaluated with that
    property's implementation harness, model driver and specification driver; a failing verdict on the real code's
    answer is a failing input of THIS property too (recorded with `via`)."""
    mods = []
    for b in getattr(mod, "BORROW", []):
        other = importlib.import_module(f"harness.props.{b['prop']}")
        if not skip_build:
            okb, _ = C.lake_build(list(other.SPEC_DRIVER_MODULES))
            if not okb:
                run.notes.append(f"borrowed operations of {other.ID} skipped: its spec driver does not build")
                continue
        have_model = skip_build or C.lake_build(list(other.DRIVER_MODULES))[0]
        runb = C.Run(mod.ID, tier, seed)
        ops = set(b["ops"])
        pick = b.get("pick")
        blines = [l for l in with_decoy_twins(other, runb, with_warm_twins(other, runb, other.cases(runb)))
                  if l.split(" ", 1)[0] in ops and (pick is None or pick(l))]
        if b.get("max") and len(blines) > b["max"]:
            blines = runb.rng.sample(blines, b["max"])
        n0 = run.evaluations
        evaluate(other, run, blines, want_model=have_model, via=other.ID)
        run.count(f"borrowed:{other.ID}", run.evaluations - n0)
        run.extra.setdefault("borrowed", []).append({"from": other.ID, "ops": sorted(ops), "lines": len(blines),
                                                     "why": b.get("why", "")})
        mods.append(other)
    return mods


def _driver_builds(mod):
    ok, _ = C.lake_build(list(mod.DRIVER_MODULES))
    return ok


def replay(mod, run, path):
    data = json.load(open(path if os.path.isabs(path) else os.path.join(C.ROOT, path)))
    fi = data.get("failing_input")
    if not fi:
        print(json.dumps(data.get("broken_obligations"), indent=1))
        return 1
    lines = [fi["line"]]
    if fi.get("via"):
        mod_e = importlib.import_module(f"harness.props.{fi['via'].lower()}")
        evaluate(mod_e, run, lines, via=fi["via"])
    else:
        evaluate(mod, run, lines)
    for f in run.failures:
        print("still fails:", json.dumps(f))
    if run.failures:
        print(f"VIOLATION property={mod.ID} replay={path}")
        return 1
    print("no longer fails")
    return 0
