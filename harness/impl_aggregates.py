"""Real-library side of C20 (gene / feature-collection / annotation-collection aggregates).

Child token layout (shared with lean/BioCantor/Driver/SpecAggregates.lean):
    <strand + - .> <primary 0|1> <k>=1> (start end)* <c> (start end)* <nt> s:type*
c = 0 means non-coding (no CDS).  A child list is `<n> child*`.
"""
from uuid import UUID

from harness.common import guarded
from harness.impl_qualifiers import enc, dec

_LIB = {}
SEQ = ("ATGGCATTGACCGGTAAACCCGGGTTTAAATAGCATGCATCGATCGGCTAAGCTTGACCATGAAATTTGGGCCCTAGGATCCATGCAT" * 2)


def lib():
    if not _LIB:
        from harness import shims
        shims.install()
        from inscripta.biocantor.gene.transcript import TranscriptInterval
        from inscripta.biocantor.gene.feature import FeatureInterval, FeatureIntervalCollection
        from inscripta.biocantor.gene.gene import GeneInterval
        from inscripta.biocantor.gene.collections import AnnotationCollection
        from inscripta.biocantor.gene.biotype import Biotype
        from inscripta.biocantor.gene.cds_frame import CDSFrame
        from inscripta.biocantor.location.strand import Strand
        from inscripta.biocantor.location.location_impl import SingleInterval
        from inscripta.biocantor.parent import Parent
        from inscripta.biocantor.sequence import Sequence
        from inscripta.biocantor.sequence.alphabet import Alphabet
        from inscripta.biocantor.parent.parent import SequenceType
        _LIB.update(TranscriptInterval=TranscriptInterval, FeatureInterval=FeatureInterval,
                    FeatureIntervalCollection=FeatureIntervalCollection, GeneInterval=GeneInterval,
                    AnnotationCollection=AnnotationCollection, Biotype=Biotype, CDSFrame=CDSFrame, Strand=Strand,
                    SingleInterval=SingleInterval, Parent=Parent, Sequence=Sequence, Alphabet=Alphabet,
                    SequenceType=SequenceType)
    return _LIB


class Toks:
    def __init__(self, toks):
        self.t, self.i = toks, 0

    def next(self):
        x = self.t[self.i]
        self.i += 1
        return x

    def blocks(self):
        return [(int(self.next()), int(self.next())) for _ in range(int(self.next()))]

    def child(self):
        st = self.next()
        prim = self.next() == "1"
        bl = self.blocks()
        cds = self.blocks()
        types = [dec(self.next()) for _ in range(int(self.next()))]
        return dict(strand=st, primary=prim, blocks=bl, cds=cds, types=types)

    def children(self):
        return [self.child() for _ in range(int(self.next()))]


def enc_child(c):
    return " ".join([c["strand"], "1" if c["primary"] else "0", enc_blocks(c["blocks"]), enc_blocks(c.get("cds") or []),
                     str(len(c.get("types") or []))] + [enc(x) for x in (c.get("types") or [])])


def enc_blocks(bl):
    return " ".join([str(len(bl))] + [f"{s} {e}" for s, e in bl])


def enc_children(cs):
    return " ".join([str(len(cs))] + [enc_child(c) for c in cs])


def _strand(s):
    S = lib()["Strand"]
    return {"+": S.PLUS, "-": S.MINUS, ".": S.UNSTRANDED}[s]


def _parent():
    L = lib()
    return L["Parent"](sequence=L["Sequence"](SEQ, L["Alphabet"].NT_STRICT, type=L["SequenceType"].CHROMOSOME, id="chr"),
                       location=L["SingleInterval"](0, len(SEQ), L["Strand"].PLUS))


def mk_tx(i, c, parent=None):
    L = lib()
    kw = {}
    if c["cds"]:
        kw = dict(cds_starts=[s for s, _ in c["cds"]], cds_ends=[e for _, e in c["cds"]],
                  cds_frames=[L["CDSFrame"].ZERO] * len(c["cds"]))
    return L["TranscriptInterval"]([s for s, _ in c["blocks"]], [e for _, e in c["blocks"]], _strand(c["strand"]),
                                   is_primary_tx=c["primary"], guid=UUID(int=i + 1),
                                   parent_or_seq_chunk_parent=parent, **kw)


def mk_feat(i, c, parent=None):
    L = lib()
    return L["FeatureInterval"]([s for s, _ in c["blocks"]], [e for _, e in c["blocks"]], _strand(c["strand"]),
                                feature_types=list(c["types"]) or None, is_primary_feature=c["primary"],
                                guid=UUID(int=1000 + i), parent_or_seq_chunk_parent=parent)


def _chunk_parent(lo, hi, strand):
    """a sequence chunk [lo, hi) of the chromosome, on either strand of it"""
    L = lib()
    from inscripta.biocantor.util.object_validation import ObjectValidation  # noqa: F401  (import order)
    from inscripta.biocantor.io.parser import seq_chunk_to_parent
    piece = SEQ[lo:hi]
    st = _strand(strand)
    if st == L["Strand"].MINUS:
        piece = str(L["Sequence"](piece, L["Alphabet"].NT_STRICT).reverse_complement())
    return seq_chunk_to_parent(piece, "chr", lo, hi, strand=st, alphabet=L["Alphabet"].NT_STRICT)


def _idx(seq, obj):
    for i, x in enumerate(seq):
        if x is obj:
            return i
    raise LookupError("primary member is not one of the children")


def _loc_blocks(loc):
    return [(b.start, b.end) for b in loc.blocks]


def _merged(m):
    loc = m.chromosome_location
    return f"{loc.strand.to_symbol()} {enc_blocks(_loc_blocks(loc))}"


def _gene(cs, gene_type=True, parent=None):
    L = lib()
    txs = [mk_tx(i, c, parent) for i, c in enumerate(cs)]
    return _checked_members(txs, lambda ms: L["GeneInterval"](
        list(ms), gene_type=L["Biotype"].protein_coding if gene_type else None, gene_id="g",
        parent_or_seq_chunk_parent=parent))


class OperandChanged(Exception):
    """a member object handed to a collection constructor no longer answers as it did before the call"""


_WATCH = []


def _member_view(m):
    return (tuple(sorted(getattr(m, "feature_types", None) or ())), m.start, m.end, m.strand,
            getattr(m, "is_primary_tx", None), getattr(m, "is_primary_feature", None),
            getattr(m, "_is_primary_feature", None),
            tuple((b.start, b.end) for b in m.chromosome_location.blocks), str(m.guid),
            tuple(sorted((k, tuple(sorted(map(str, v)))) for k, v in (m.qualifiers or {}).items())))


def _checked_members(members, build):
    """build(members) with the members' own answers compared before / after (C20: aggregates are FUNCTIONS of the
    children; a constructor that rewrites its children would make the next aggregate built from them wrong)"""
    before = [_member_view(m) for m in members]
    out = build(members)
    _WATCH.append((list(members), before))      # compared again after the aggregate has been asked its questions
    _verify_watch(clear=False)
    return out


def _verify_watch(clear=True):
    try:
        for members, before in _WATCH:
            after = [_member_view(m) for m in members]
            if before != after:
                i = next(k for k in range(len(members)) if before[k] != after[k])
                raise OperandChanged(f"member {i}: {before[i]} -> {after[i]}")
    finally:
        if clear:
            del _WATCH[:]


def _eq(a, b):
    if a is None or b is None:
        return a is None and b is None
    return str(a) == str(b)


QUERY_TWIN = [False]
QUERY_MARK = " @q"


def impl_agg_op(line):
    if line.endswith(QUERY_MARK):
        QUERY_TWIN[0] = True
        try:
            return impl_agg_op(line[:-len(QUERY_MARK)])
        finally:
            QUERY_TWIN[0] = False
    return _impl_agg_op(line)


def _impl_agg_op(line):
    toks = line.split()
    t = Toks(toks[1:])

    def go():
        L = lib()
        op = toks[0]
        if op == "gene":
            if QUERY_TWIN[0]:
                # ` @q` twin: the same children, as the result of `query_by_guids` on a larger gene that lists them in
                # the opposite order and holds one more isoform - the subset must be a gene OF ITS OWN children
                cs = t.children()
                txs = [mk_tx(i, c) for i, c in enumerate(cs)]
                extra = mk_tx(len(cs) + 50, dict(strand="+", primary=False, blocks=[(0, 1)], cds=[], types=[]))
                big = L["GeneInterval"](list(reversed(txs)) + [extra], gene_type=L["Biotype"].protein_coding, gene_id="g")
                g = big.query_by_guids([x.guid for x in txs])
                if g is None:
                    raise AssertionError("query_by_guids returned None")
                if [x.guid for x in g.transcripts] != [x.guid for x in txs]:
                    raise AssertionError("query_by_guids changed the order of the requested members")
            else:
                g = _gene(t.children())
            p = _idx(g.transcripts, g.get_primary_transcript())
            assert g.get_primary_feature() is g.get_primary_transcript()
            cds = g.get_primary_cds()
            pc = "None" if cds is None else enc_blocks(_loc_blocks(cds.chromosome_location))
            return f"ok {g.start} {g.end} {1 if g.is_coding else 0} {p} {pc}"
        if op == "genek":
            parent = _chunk_parent(int(t.next()), int(t.next()), t.next())
            g = _gene(t.children(), parent=parent)
            p = _idx(g.transcripts, g.get_primary_transcript())
            assert g.get_primary_feature() is g.get_primary_transcript()
            cds = g.get_primary_cds()
            pc = "None" if cds is None else enc_blocks(_loc_blocks(cds.chromosome_location))
            return f"ok {g.start} {g.end} {1 if g.is_coding else 0} {p} {pc}"
        if op == "fcollk":
            parent = _chunk_parent(int(t.next()), int(t.next()), t.next())
            cs = t.children()
            fc = L["FeatureIntervalCollection"]([mk_feat(i, c, parent) for i, c in enumerate(cs)],
                                                feature_collection_id="fc", parent_or_seq_chunk_parent=parent)
            p = _idx(fc.feature_intervals, fc.get_primary_feature())
            ts = sorted(fc.feature_types)
            return f"ok {fc.start} {fc.end} {p} " + " ".join([str(len(ts))] + [enc(x) for x in ts])
        if op in ("gmt", "gmc"):
            ht = t.next() == "1"
            g = _gene(t.children(), gene_type=ht)
            return "ok " + _merged(g.get_merged_transcript() if op == "gmt" else g.get_merged_cds())
        if op == "gacc":
            cs = t.children()
            g = _gene(cs, parent=_parent())
            p = _idx(g.transcripts, g.get_primary_transcript())
            m = g.transcripts[p]
            flags = [g.get_primary_feature() is m,
                     _eq(g.get_primary_transcript_sequence(), m.get_spliced_sequence()),
                     _eq(g.get_primary_feature_sequence(), m.get_spliced_sequence()),
                     (g.get_primary_cds() is m.cds)]
            if m.is_coding:
                flags.append(_eq(g.get_primary_cds_sequence(), m.get_cds_sequence()))
                flags.append(_eq(g.get_primary_protein(), m.get_protein_sequence()))
            else:
                flags.append(g.get_primary_protein() is None)
            return f"ok {p} {len(flags)} " + " ".join("1" if f else "0" for f in flags)
        if op in ("fcoll", "fmf"):
            cs = t.children()
            feats = [mk_feat(i, c) for i, c in enumerate(cs)]
            fc = _checked_members(feats, lambda ms: L["FeatureIntervalCollection"](list(ms), feature_collection_id="fc"))
            if feats and op == "fcoll":
                # history: a second collection over the first member alone reports that member's own types
                sub = L["FeatureIntervalCollection"]([feats[0]], feature_collection_id="sub")
                if sorted(sub.feature_types) != sorted(set(cs[0]["types"])):
                    raise OperandChanged(f"sub-collection of member 0 has types {sorted(sub.feature_types)}")
            if op == "fmf":
                return "ok " + _merged(fc.get_merged_feature())
            p = _idx(fc.feature_intervals, fc.get_primary_feature())
            assert fc.is_coding is False
            ts = sorted(fc.feature_types)
            return f"ok {fc.start} {fc.end} {p} " + " ".join([str(len(ts))] + [enc(x) for x in ts])
        if op == "acollk":
            lo, hi = int(t.next()), int(t.next())
            parent = _chunk_parent(lo, hi, "+")
            bs, be = t.next(), t.next()
            gb, fb = t.blocks(), t.blocks()
            genes = [L["GeneInterval"]([mk_tx(100 * i, dict(strand="+", primary=False, blocks=[(s, e)], cds=[], types=[]),
                                              parent)],
                                       gene_type=L["Biotype"].protein_coding, gene_id=f"g{i}",
                                       parent_or_seq_chunk_parent=parent) for i, (s, e) in enumerate(gb)]
            fcs = [L["FeatureIntervalCollection"]([mk_feat(100 * i, dict(strand="+", primary=False, blocks=[(s, e)],
                                                                        types=[]), parent)],
                                                  feature_collection_id=f"f{i}", parent_or_seq_chunk_parent=parent)
                   for i, (s, e) in enumerate(fb)]
            kw = {}
            if bs != "-":
                kw["start"] = int(bs)
            if be != "-":
                kw["end"] = int(be)
            ac = L["AnnotationCollection"](feature_collections=fcs, genes=genes, parent_or_seq_chunk_parent=parent, **kw)
            order = []
            for ch in ac.iter_children():
                if any(ch is g for g in genes):
                    order.append(f"g {_idx(genes, ch)}")
                else:
                    order.append(f"f {_idx(fcs, ch)}")
            bounds = f"{ac.start} {ac.end}" if hasattr(ac, "start") else "None"
            return (f"ok {len(ac)} {1 if ac.is_empty else 0} {bounds} {len(order)} " + " ".join(order)).strip()
        if op == "aciter":
            from inscripta.biocantor.gene.variants import VariantInterval, VariantIntervalCollection
            gb, fb, vb = t.blocks(), t.blocks(), t.blocks()
            genes = [L["GeneInterval"]([mk_tx(100 * i, dict(strand="+", primary=False, blocks=[(s, e)], cds=[], types=[]))],
                                       gene_type=L["Biotype"].protein_coding, gene_id=f"g{i}")
                     for i, (s, e) in enumerate(gb)]
            fcs = [L["FeatureIntervalCollection"]([mk_feat(100 * i, dict(strand="+", primary=False, blocks=[(s, e)], types=[]))],
                                                  feature_collection_id=f"f{i}") for i, (s, e) in enumerate(fb)]
            vcs = [VariantIntervalCollection([VariantInterval(s, e, "A" * (e - s), "mnv", variant_id=f"var{i}")],
                                             variant_collection_id=f"v{i}") for i, (s, e) in enumerate(vb)]
            ac = L["AnnotationCollection"](feature_collections=fcs, genes=genes, variant_collections=vcs)
            order = []
            for ch in ac.iter_children():
                if any(ch is g for g in genes):
                    order.append(f"g {_idx(genes, ch)}")
                elif any(ch is f for f in fcs):
                    order.append(f"f {_idx(fcs, ch)}")
                else:
                    order.append(f"f {1000 + _idx(vcs, ch)}")
            return (f"ok {len(order)} " + " ".join(order) + f" {len(ac.children_guids)} {len(ac.guid_map)}").replace("  ", " ")
        if op in ("acoll", "acollp"):
            parent = None
            if op == "acollp":
                ps, pe = t.next(), t.next()
                if ps != "-":
                    parent = L["Parent"](id="chr", sequence_type=L["SequenceType"].CHROMOSOME,
                                         location=L["SingleInterval"](int(ps), int(pe), L["Strand"].PLUS))
                else:
                    parent = L["Parent"](id="chr", sequence_type=L["SequenceType"].CHROMOSOME)
            bs, be = t.next(), t.next()
            gb, fb = t.blocks(), t.blocks()
            # equal-content members get distinct guids through distinct ids
            genes = [L["GeneInterval"]([mk_tx(100 * i, dict(strand="+", primary=False, blocks=[(s, e)], cds=[], types=[]))],
                                       gene_type=L["Biotype"].protein_coding, gene_id=f"g{i}")
                     for i, (s, e) in enumerate(gb)]
            fcs = [L["FeatureIntervalCollection"]([mk_feat(100 * i, dict(strand="+", primary=False, blocks=[(s, e)], types=[]))],
                                                  feature_collection_id=f"f{i}") for i, (s, e) in enumerate(fb)]
            kw = {}
            if bs != "-":
                kw["start"] = int(bs)
            if be != "-":
                kw["end"] = int(be)
            if parent is not None:
                kw["parent_or_seq_chunk_parent"] = parent
            ac = L["AnnotationCollection"](feature_collections=fcs, genes=genes, **kw)
            order = []
            for ch in ac.iter_children():
                if any(ch is g for g in genes):
                    order.append(f"g {_idx(genes, ch)}")
                else:
                    order.append(f"f {_idx(fcs, ch)}")
            bounds = f"{ac.start} {ac.end}" if hasattr(ac, "start") else "None"
            return (f"ok {len(ac)} {1 if ac.is_empty else 0} {bounds} {len(order)} " + " ".join(order)).strip()
        raise KeyError(op)

    def checked():
        del _WATCH[:]
        ans = go()
        _verify_watch()
        return ans
    return guarded(checked)
