"""Implementation side of C10, second part: operations WITH ARGUMENTS, their operands and their results.

    warm <kind>.<mode>.<e|s>[.<variant>] <objseed> <self|args|both> <op>…
        every operation `op` (the whole call table of `impl_history` + `op_table` below: reset_parent to a parent with the
        same id but other bases / another id, reset_strand, shift_position, extend_*, set operations in both operand
        orders, slicing, liftover / from_dict onto other bases, …) is applied
          (cold)  to a freshly built operand under cold caches, one operand per operation,
          (warm)  to ONE operand that — and/or whose arguments — was first asked every argument-less question
                  (extract_sequence, blocks, is_overlapping, len, hash, str, codon locations, …),
        and the RESULT is asked the full question list (`ask_all`: every public property / argument-less method of the
        result, elements of list results included).
        -> ok <n> (<op> <digest cold> <digest warm>){n} snap <pristine> <after cold ops> <after warm ops> [? <detail>…]
           digest = sha1 of the canonical answer record (10 hex digits); snap = digest of `snapshot` (operand and all
           arguments: canonical form, hash, str, qualifiers of children).

    args <kind>.<mode>.<e|s>[.<variant>] <objseed> <call>
        a call that takes dict / list / set / object arguments (`arg_table`): deep snapshots of the arguments and of the
        receiver before and after, the rendered result of the call, of a second identical call with the SAME argument
        objects, and of a fresh twin called with fresh arguments; mutable containers shared between result and arguments /
        result and receiver.
        -> ok a <before> <after> s <before> <after> r <first> <second> <twin> alias <n> <path>…

    lazy <kind>.<mode>.<e|s>[.<variant>] <objseed> <plain|chunk|pq>
        GFF3 export rendered row by row while iterating (`e1`), rendered after the generator was exhausted (`l2`, second
        export of the same object), eagerly again (`e3`), late on a fresh twin (`lt`), eagerly on another twin (`et`)
        -> ok e1 <rows>:<digest> l2 … e3 … lt … et …

The verdicts are the spec driver's (Spec.Cache.okWarm / okArgs / okLazy): equal digests, no alias.

`inventory()` (bottom of the file) compares the tables with the real classes by introspection: every public method /
classmethod / staticmethod with arguments, the constructor and the library's own dunder methods with arguments of the 13
classes in KIND_CLASS must be called by some token or be listed in EXCLUDED_METHODS; what is neither goes to the evidence
(`uncovered_methods`).  Kinds beyond gen_objects.KINDS: empty (EmptyLocation), variant, varcoll; compound recipes with a
4th name component `deg` / `L<p|m|u><start>-<end>_...` have degenerate block lists (zero-length / nested / duplicate).
"""
import hashlib
import json
import random
import re
import uuid
import warnings

from harness import shims

shims.install()
from harness import gen_objects as G  # noqa: E402
from harness import impl_history as H  # noqa: E402
from harness.impl_history import (canon, ask, Ctx, call_table, introspected, snapshot, cold, make_recipe,  # noqa: E402
                                  PARENT_CLS, _text, LOC_KINDS, FEATURE_LIKE, VARIANT_TARGETS,
                                  variant_probe_locations)

import inscripta.biocantor  # noqa: E402,F401
from inscripta.biocantor.gene.cds import CDSInterval  # noqa: E402
from inscripta.biocantor.gene.cds_frame import CDSFrame  # noqa: E402
from inscripta.biocantor.gene.biotype import Biotype  # noqa: E402
from inscripta.biocantor.gene.collections import AnnotationCollection  # noqa: E402
from inscripta.biocantor.gene.feature import FeatureInterval, FeatureIntervalCollection  # noqa: E402
from inscripta.biocantor.gene.gene import GeneInterval  # noqa: E402
from inscripta.biocantor.gene.interval import AbstractInterval  # noqa: E402
from inscripta.biocantor.gene.transcript import TranscriptInterval  # noqa: E402
from inscripta.biocantor.location.location import Location  # noqa: E402
from inscripta.biocantor.location.location_impl import SingleInterval, CompoundInterval, EmptyLocation, _EmptyLocation  # noqa: E402,E501
from inscripta.biocantor.gene.variants import VariantInterval, VariantIntervalCollection  # noqa: E402
from inscripta.biocantor.location.strand import Strand  # noqa: E402
from inscripta.biocantor.parent import Parent  # noqa: E402
from inscripta.biocantor.sequence import Sequence  # noqa: E402
from inscripta.biocantor.sequence.alphabet import Alphabet  # noqa: E402
from inscripta.biocantor.io.bed.bed import RGB  # noqa: E402

OBJ = (Location, Sequence, PARENT_CLS, AbstractInterval)
INTERVAL_KINDS = ("cds", "transcript", "feature", "gene", "featcoll", "annot")
IV_KINDS = INTERVAL_KINDS + ("variant", "varcoll")                  # every AbstractInterval kind
# variants handed to incorporate_variants: (placement, type) x {VariantInterval, VariantIntervalCollection}
VARIANT_GRID = (("before", "ins"), ("inside", "snv"), ("inside", "del"), ("inside", "ins"), ("aftermin", "ins"),
                ("aftermin", "snv"), ("after", "del"))
HELD_VARIANTS = (("inside", "snv", False), ("aftermin", "ins", True), ("after", "del", True))


def dg(x):
    return hashlib.sha1(json.dumps(x, sort_keys=True, default=repr).encode()).hexdigest()[:10]


def _tok(s):
    return re.sub(r"[^A-Za-z0-9_.:/,<>=+\-\[\]]", "_", str(s)) or "_"


# ----------------------------------------------------------------------------------------------
# (a) operands: other parents, operations, the question list of a result

def _other_bases(g):
    """every base differs"""
    return g.translate(str.maketrans("ACGT", "CGTA"))


class OpCtx(Ctx):
    """operands of the operations with arguments; all of them are snapshotted before / after"""

    def __init__(self, recipe, obj):
        super().__init__(recipe, obj)
        d = recipe.data
        alt = G.Recipe(recipe.kind, recipe.mode, dict(d, genome=_other_bases(d["genome"])))
        oid = G.Recipe(recipe.kind, recipe.mode, dict(d, chrom=d["chrom"] + "_b"))
        seq_modes = ("chrom", "chunk")
        # same id / sequence type / hierarchy, other bases (another haplotype or assembly of the same chromosome)
        self.operands["altbases"] = alt.parent() if recipe.mode in seq_modes else alt.chromosome_parent(True)
        # same bases, another id
        self.operands["altid"] = oid.parent() if recipe.mode in seq_modes else oid.chromosome_parent(True)
        self.operands["chromseq"] = recipe.chromosome_parent(True)
        if recipe.kind in VARIANT_TARGETS:
            # variants are operands too: snapshotted before / after, asked every question during warm-up
            for pl, vt, coll in HELD_VARIANTS:
                self.operands[f"var_{pl}_{vt}_{'vc' if coll else 'v'}"] = recipe.build_variants(pl, vt, coll)


def op_table(recipe, obj):
    """operations that build new objects from the operand and from further arguments: {token: fn(obj, ctx)}"""
    k = recipe.kind
    t = {}
    if k in LOC_KINDS:
        for name in ("altbases", "altid", "chromseq"):
            t[f"reset_parent:{name}"] = (lambda name: lambda o, c: o.reset_parent(c.operands[name]))(name)
        for sym, st in G.STRANDS.items():
            t[f"reset_strand:{sym}"] = (lambda st: lambda o, c: o.reset_strand(st))(st)
        t["shift_position:-1"] = lambda o, c: o.shift_position(-1)
        t["shift_position:0"] = lambda o, c: o.shift_position(0)
        t["extend_absolute:0,0"] = lambda o, c: o.extend_absolute(0, 0)
        t["extend_relative:0,3"] = lambda o, c: o.extend_relative(0, 3)
        t["blocks:first"] = lambda o, c: o.blocks[0]
        t["blocks:last"] = lambda o, c: o.blocks[-1]
        t["relative_interval_to_parent_location:0,len"] = \
            lambda o, c: o.relative_interval_to_parent_location(0, len(o), Strand.MINUS)
        t["scan_windows:4,4"] = lambda o, c: o.scan_windows(4, 4)
        t["reset_parent:altbases>reset_parent:own"] = lambda o, c: o.reset_parent(c.operands["altbases"]).reset_parent(o.parent)
        t["reverse_strand>reset_parent:altbases"] = lambda o, c: o.reverse_strand().reset_parent(c.operands["altbases"])
        for i in range(len(recipe.data.get("others", []))):
            oi = f"o{i}"
            for m in ("union", "intersection", "minus", "union_preserve_overlaps", "location_relative_to",
                      "parent_to_relative_location", "has_overlap", "contains", "distance_to"):
                t[f"{m}:{oi}:swap"] = (lambda m, oi: lambda o, c: getattr(c.operands[oi], m)(o))(m, oi)
            t[f"reset_parent:altbases>union:{oi}"] = (lambda oi: lambda o, c: o.reset_parent(c.operands["altbases"]).union(
                c.operands[oi].reset_parent(c.operands["altbases"])))(oi)
    elif k == "parent":
        t["reset_location:none"] = lambda o, c: o.reset_location(None)
        t["lift_child_location_to_parent"] = lambda o, c: o.lift_child_location_to_parent()
        t["Parent:copy"] = lambda o, c: Parent(id=o.id, sequence_type=o.sequence_type, strand=o.strand, location=o.location,
                                               sequence=o.sequence, parent=o.parent)
        t["Parent:child"] = lambda o, c: Parent(parent=o)
        t["SingleInterval:on"] = lambda o, c: SingleInterval(0, 3, Strand.PLUS, parent=o)
    elif k == "sequence":
        t["__getitem__:full"] = lambda o, c: o[0:len(o)]
        t["__getitem__:1:4>reverse_complement"] = lambda o, c: o[1:4].reverse_complement()
        t["reverse_complement>reverse_complement"] = lambda o, c: o.reverse_complement().reverse_complement()
        t["append:other:swap"] = lambda o, c: c.operands["other"].append(o)
        t["append:self"] = lambda o, c: o.append(o, data_only=True)
        t["Parent:of"] = lambda o, c: Parent(sequence=o)
        t["SingleInterval:on"] = lambda o, c: SingleInterval(1, 4, Strand.MINUS, parent=o)
    else:
        if k in VARIANT_TARGETS:
            for pl, vt, coll in HELD_VARIANTS:
                name = f"var_{pl}_{vt}_{'vc' if coll else 'v'}"
                t[f"incorporate_variants:{pl}:{vt}:{'vc' if coll else 'v'}:held"] = \
                    (lambda name: lambda o, c: o.incorporate_variants(c.operands[name]))(name)
            # ... and the result of one incorporation is the operand of the next
            t["incorporate_variants:inside:snv:v:held>incorporate_variants:after:del:vc:held"] = \
                lambda o, c: o.incorporate_variants(c.operands["var_inside_snv_v"]).incorporate_variants(
                    c.recipe.build_variants("after", "del", True)
                    if not c.operands["var_inside_snv_v"].has_sequence else
                    _variants_on(c.recipe, "after", "del", True, c.operands["var_inside_snv_v"].parent_with_alternative_sequence))
        if k in ("variant", "varcoll"):
            for name in ("before", "over", "after"):
                t[f"lift_over_location:{name}>reset_parent:altbases"] = (lambda name: lambda o, c: o.lift_over_location(
                    variant_probe_locations(c.recipe.data, c.recipe.chromosome_parent(False))[name]).reset_parent(
                        c.operands["altbases"]))(name)
            t["parent_with_alternative_sequence>SingleInterval:on"] = \
                lambda o, c: SingleInterval(0, 3, Strand.PLUS, parent=o.parent_with_alternative_sequence)
        t["liftover:altbases"] = lambda o, c: o.liftover_to_parent_or_seq_chunk_parent(c.operands["altbases"])
        t["liftover:altid"] = lambda o, c: o.liftover_to_parent_or_seq_chunk_parent(c.operands["altid"])
        t["liftover:chromseq"] = lambda o, c: o.liftover_to_parent_or_seq_chunk_parent(c.operands["chromseq"])
        t["from_dict:altbases"] = lambda o, c: type(o).from_dict(o.to_dict(), c.operands["altbases"])
        t["from_dict:chunk2"] = lambda o, c: type(o).from_dict(o.to_dict(), c.chunk2())
        t["chromosome_location>reset_parent:altbases"] = \
            lambda o, c: o.chromosome_location.reset_parent(c.operands["altbases"])
        t["chunk_relative_location>reset_parent:altbases"] = \
            lambda o, c: o.chunk_relative_location.reset_parent(c.operands["altbases"])
        if k in ("cds", "transcript", "feature"):
            t["chunk_relative_blocks:first"] = lambda o, c: o.chunk_relative_blocks[0]
            t["from_location:own"] = lambda o, c: type(o).from_location(o.chunk_relative_location) \
                if k != "cds" else type(o).from_location(o.chunk_relative_location, list(o.frames))
    return t


def _variants_on(recipe, placement, vtype, as_collection, parent):
    """the recipe's placed variant(s) on ANOTHER parent (the alternative genome produced by a first incorporation)"""
    spec = recipe.variant_spec(placement, vtype)
    if not as_collection:
        return recipe._variant(spec, parent)
    return recipe._varcoll({"vars": [spec], "name": "vc2", "id": None, "qualifiers": None}, parent)


def full_table(recipe, obj):
    table = dict(call_table(recipe, obj))
    table.update(op_table(recipe, obj))
    return table


_QCACHE = {}


def questions(x):
    """{name: fn(obj, ctx)}: every public property / data attribute / argument-less method + the dunder questions"""
    out = {}
    for tok, (how, name) in introspected(x).items():
        if how == "prop":
            out[tok] = (lambda name: lambda o, c: getattr(o, name))(name)
        else:
            out[tok] = (lambda name: lambda o, c: getattr(o, name)())(name)
    out["__str__"] = lambda o, c: _text(str(o))
    out["__repr__"] = lambda o, c: _text(repr(o))
    out["__hash__"] = lambda o, c: hash(o)               # cold and warm are asked in the same process
    if not isinstance(x, PARENT_CLS):
        out["__len__"] = lambda o, c: len(o)
    return out


def ask_all(x, counter, depth=0):
    """the answers of a derived object to the full question list (canonical forms)"""
    if isinstance(x, OBJ):
        counter[0] += 1
        rec = {"__obj__": type(x).__name__, "canon": canon(x)}
        for q, fn in sorted(questions(x).items()):
            rec["?" + q] = ask(fn, x, None)
        return rec
    if hasattr(x, "__next__"):
        items = []
        try:
            for v in x:
                items.append(v)
                if len(items) > 200:
                    break
        except Exception as e:  # noqa
            items.append("exc:" + type(e).__name__)
        return ["iterator"] + _ask_items(items, counter, depth)
    if isinstance(x, (list, tuple)):
        return [type(x).__name__] + _ask_items(list(x), counter, depth)
    return canon(x)


def _ask_items(items, counter, depth):
    out = []
    n = 0
    for v in items:
        if isinstance(v, OBJ) and depth < 2 and n < 6:
            n += 1
            out.append(ask_all(v, counter, depth + 1))
        else:
            out.append(canon(v) if not isinstance(v, str) or not v.startswith("exc:") else v)
    return out


def apply_and_ask(fn, obj, ctx, counter):
    try:
        with warnings.catch_warnings():
            warnings.simplefilter("ignore")
            res = fn(obj, ctx)
            return ask_all(res, counter)
    except RecursionError:
        return "exc:RecursionError"
    except Exception as e:  # noqa
        return "exc:" + type(e).__name__


def warm_up(obj, ctx, table, rng, who):
    """ask the operand (and/or the arguments) every argument-less question + hash / str / len / == twin"""
    if who in ("self", "both"):
        toks = [t for t in table if ":" not in t or t in ("__eq__:twin",)]
        toks = [t for t in toks if ">" not in t]
        rng.shuffle(toks)
        for tk in toks:
            ask(table[tk], obj, ctx)
    if who in ("args", "both"):
        for name, o in sorted(ctx.operands.items()):
            if isinstance(o, OBJ):
                for q, fn in sorted(questions(o).items()):
                    ask(fn, o, None)


def _first_diff(a, b):
    ds = H.diff(a, b) if not (isinstance(a, str) or isinstance(b, str)) or type(a) is type(b) else ["/"]
    return _tok(H._short(ds[0])) if ds else "?"


def run_warm(kindmode, seed, who, ops):
    recipe = make_recipe(kindmode, seed)
    rng = random.Random(seed * 104729 + 7)
    cold()
    table = full_table(recipe, recipe.build())
    for op in ops:
        if op not in table:
            return f"err! UnknownCall:{op}"
    counter = [0]
    # pristine reading of operand + arguments
    cold()
    pristine = recipe.build()
    pctx = OpCtx(recipe, pristine)
    pctx.twin                                             # noqa
    snap_p = snapshot(pristine, pctx)
    # cold: one fresh operand per operation
    cold_ans = {}
    snap_c = None
    dp = dg(snap_p)
    for op in ops:
        cold()
        o = recipe.build()
        c = OpCtx(recipe, o)
        cold_ans[op] = apply_and_ask(table[op], o, c, counter)
        c.twin                                            # noqa
        s = snapshot(o, c)
        if snap_c is None or (dg(s) != dp and dg(snap_c) == dp):
            snap_c = s
    # warm: one operand asked everything first, then all the operations
    cold()
    o = recipe.build()
    c = OpCtx(recipe, o)
    warm_up(o, c, table, rng, who)
    warm_ans = {}
    for op in ops:
        warm_ans[op] = apply_and_ask(table[op], o, c, counter)
    c.twin                                                # noqa
    snap_w = snapshot(o, c)
    out = [f"ok {len(ops)}"]
    detail = []
    for op in ops:
        a, b = dg(cold_ans[op]), dg(warm_ans[op])
        out.append(f"{op} {a} {b}")
        if a != b and len(detail) < 4:
            detail.append(f"{op}>{_first_diff(warm_ans[op], cold_ans[op])}")
    dc, dw = dg(snap_c), dg(snap_w)
    out.append(f"snap {dp} {dc} {dw}")
    if dc != dp:
        detail.append("cold-operand:" + _tok(H._short((H.snap_diff(snap_c, snap_p) or ["?"])[0])))
    if dw != dp:
        detail.append("warm-operand:" + _tok(H._short((H.snap_diff(snap_w, snap_p) or ["?"])[0])))
    out.append(f"objs={counter[0]}")
    if detail:
        out.append("? " + " ".join(detail))
    return " ".join(out)


# ----------------------------------------------------------------------------------------------
# (b) calls with dict / list / set / object arguments

def deep(v, d=0):
    """content, container types, key order and (for library objects) hash / str of an argument"""
    if d > 8:
        return "deep:"
    if isinstance(v, dict):
        return {"__type__": type(v).__name__, "__order__": [repr(canon(k)) for k in v],
                "items": {repr(canon(k)): deep(x, d + 1) for k, x in v.items()}}
    if isinstance(v, (list, tuple)):
        return [type(v).__name__] + [deep(x, d + 1) for x in v]
    if isinstance(v, (set, frozenset)):
        return [type(v).__name__] + sorted((deep(x, d + 1) for x in v), key=repr)
    if isinstance(v, OBJ):
        try:
            h = hash(v)
        except Exception as e:  # noqa
            h = "exc:" + type(e).__name__
        rec = {"__obj__": type(v).__name__, "canon": canon(v), "hash": h, "str": _text(str(v))}
        if isinstance(v, AbstractInterval):
            rec["qualifiers"] = canon(getattr(v, "qualifiers", None))
            # the children with where they sit: location + the whole parent chain (ids, types, bases) + dictionary form
            rec["children"] = [[canon(ch.guid), canon(ch.qualifiers), hash(ch), H._child_location(ch), _child_dict(ch)]
                               for ch in H._children(v)]
        return rec
    if type(v).__module__.startswith("inscripta") and hasattr(v, "__dict__") and not isinstance(v, type):
        return {"__obj__": type(v).__name__, "vars": {k: deep(x, d + 1) for k, x in sorted(vars(v).items())}}
    return canon(v)


def _child_dict(ch):
    try:
        return canon(ch.to_dict())
    except Exception as e:  # noqa
        return "exc:" + type(e).__name__


MUT = (dict, list, set, bytearray)


def _is_lib(v):
    return type(v).__module__.startswith("inscripta") and not isinstance(v, type)


def _attrs(v):
    out = {}
    try:
        out.update(vars(v))
    except TypeError:
        pass
    for klass in type(v).__mro__:
        for n in getattr(klass, "__slots__", ()) or ():
            try:
                out[n] = getattr(v, n)
            except Exception:  # noqa  (unset slot; a property of the empty location raises)
                pass
    return out


def containers(v, path, out, seen, into, depth=0):
    """{id: (path, container)} of the mutable containers reachable from v through containers and — `into(obj)` true —
    through the attributes of library objects"""
    if depth > 9 or id(v) in seen:
        return out
    if isinstance(v, MUT):
        seen.add(id(v))
        out.setdefault(id(v), (path, v))
    if isinstance(v, dict):
        for k, x in v.items():
            containers(x, f"{path}/{k}", out, seen, into, depth + 1)
    elif isinstance(v, (list, tuple)):
        for i, x in enumerate(v):
            containers(x, f"{path}/{i}", out, seen, into, depth + 1)
    elif isinstance(v, (set, frozenset)):
        for x in v:
            containers(x, f"{path}/*", out, seen, into, depth + 1)
    elif _is_lib(v) and into(v):
        seen.add(id(v))
        for k, x in _attrs(v).items():
            containers(x, f"{path}.{k}", out, seen, into, depth + 1)
    return out


def render(res):
    """the result, completely consumed (iterators exhausted, rows printed)"""
    try:
        with warnings.catch_warnings():
            warnings.simplefilter("ignore")
            if hasattr(res, "__next__"):
                res = list(res)
            return res, canon(res)
    except Exception as e:  # noqa
        return None, "exc:" + type(e).__name__


def pq_builtin(o):
    """parent qualifiers that already contain the keys the exporters add, absent from the child's own qualifiers"""
    own = getattr(o, "qualifiers", None) or {}
    d = {k: {f"parent-level {k}"} for k in G.builtin_qualifier_keys() if k not in own}
    d["note2"] = {"n", "m"}
    return d


def pq_shared(o):
    own = getattr(o, "qualifiers", None) or {}
    return {k: {"PARENTVAL", "x y"} for k in sorted(own)[:2]}


def pq_all(o):
    d = pq_builtin(o)
    d.update(pq_shared(o))
    return d


def _spec_lists(spec):
    return [b[0] for b in spec["blocks"]], [b[1] for b in spec["blocks"]]


def _quals_copy(q):
    return {k: list(v) for k, v in q.items()} if q else q


def _ctor_entry(recipe):
    """the constructor of the recipe's object with every list / dict argument held by the caller"""
    k, d = recipe.kind, recipe.data

    def tx_args(spec):
        s, e = _spec_lists(spec)
        a = {"exon_starts": s, "exon_ends": e, "qualifiers": _quals_copy(spec.get("qualifiers"))}
        if spec.get("cds"):
            cs, ce = _spec_lists(spec["cds"])
            a.update(cds_starts=cs, cds_ends=ce, cds_frames=[CDSFrame(f) for f in spec["cds"]["frames"]])
        return a

    def tx_build(spec, a, parent):
        kw = {x: a[x] for x in ("cds_starts", "cds_ends", "cds_frames") if x in a}
        return TranscriptInterval(
            a["exon_starts"], a["exon_ends"], G.STRANDS[spec["strand"]], qualifiers=a["qualifiers"],
            is_primary_tx=spec.get("primary"), transcript_id=spec.get("id"), transcript_symbol=spec.get("symbol"),
            transcript_type=Biotype[spec["biotype"]] if spec.get("biotype") else None, sequence_name=recipe._seqname(),
            protein_id=spec.get("protein_id"), product=spec.get("product"), parent_or_seq_chunk_parent=parent, **kw)

    def feat_args(spec):
        s, e = _spec_lists(spec)
        return {"interval_starts": s, "interval_ends": e, "qualifiers": _quals_copy(spec.get("qualifiers")),
                "feature_types": list(spec["types"]) if spec.get("types") else None}

    def feat_build(spec, a, parent):
        return FeatureInterval(a["interval_starts"], a["interval_ends"], G.STRANDS[spec["strand"]],
                               qualifiers=a["qualifiers"], sequence_name=recipe._seqname(),
                               feature_types=a["feature_types"], feature_name=spec.get("name"), feature_id=spec.get("id"),
                               is_primary_feature=spec.get("primary"), parent_or_seq_chunk_parent=parent)

    def entry(o, c):
        parent = recipe.parent()
        if k == "cds":
            spec = d["cds"]
            s, e = _spec_lists(spec)
            a = {"cds_starts": s, "cds_ends": e, "frames": [CDSFrame(f) for f in spec["frames"]],
                 "qualifiers": _quals_copy(spec.get("qualifiers"))}
            return a, lambda: CDSInterval(a["cds_starts"], a["cds_ends"], G.STRANDS[spec["strand"]], a["frames"],
                                          sequence_name=recipe._seqname(), protein_id=spec.get("protein_id"),
                                          product=spec.get("product"), qualifiers=a["qualifiers"],
                                          parent_or_seq_chunk_parent=parent)
        if k == "transcript":
            a = tx_args(d["tx"])
            return a, lambda: tx_build(d["tx"], a, parent)
        if k == "feature":
            a = feat_args(d["feat"])
            return a, lambda: feat_build(d["feat"], a, parent)
        if k == "gene":
            spec = d["gene"]
            a = {"transcripts": [recipe._tx(t, parent) for t in spec["txs"]], "qualifiers": _quals_copy(spec.get("qualifiers"))}
            return a, lambda: GeneInterval(
                a["transcripts"], gene_id=spec.get("id"), gene_symbol=spec.get("symbol"),
                gene_type=Biotype[spec["biotype"]] if spec.get("biotype") else None, locus_tag=spec.get("locus_tag"),
                qualifiers=a["qualifiers"], sequence_name=recipe._seqname(), parent_or_seq_chunk_parent=parent)
        if k == "featcoll":
            spec = d["fc"]
            a = {"feature_intervals": [recipe._feat(f, parent) for f in spec["feats"]],
                 "qualifiers": _quals_copy(spec.get("qualifiers"))}
            return a, lambda: FeatureIntervalCollection(
                a["feature_intervals"], feature_collection_name=spec.get("name"), feature_collection_id=spec.get("id"),
                feature_collection_type=spec.get("type"), locus_tag=spec.get("locus_tag"), sequence_name=recipe._seqname(),
                qualifiers=a["qualifiers"], parent_or_seq_chunk_parent=parent)
        if k == "annot":
            spec = d["annot"]
            a = {"feature_collections": [recipe._fc(f, parent) for f in spec["fcs"]] or None,
                 "genes": [recipe._gene(g, parent) for g in spec["genes"]] or None,
                 "qualifiers": _quals_copy(spec.get("qualifiers"))}
            return a, lambda: AnnotationCollection(
                feature_collections=a["feature_collections"], genes=a["genes"], name=spec.get("name"), id=spec.get("id"),
                sequence_name=recipe._seqname(), qualifiers=a["qualifiers"], parent_or_seq_chunk_parent=parent)
        if k in ("single", "compound"):
            spec = d["loc"]
            s, e = _spec_lists(spec)
            a = {"starts": s, "ends": e, "parent": parent}
            return a, lambda: CompoundInterval(a["starts"], a["ends"], G.STRANDS[spec["strand"]], parent=a["parent"])
        if k == "variant":
            spec = d["var"]
            a = {"qualifiers": _quals_copy(spec.get("qualifiers")), "parent_or_seq_chunk_parent": parent}
            return a, lambda: VariantInterval(
                spec["start"], spec["end"], spec["sequence"], spec["variant_type"], phase_block=spec.get("phase_block"),
                variant_name=spec.get("name"), variant_id=spec.get("id"), qualifiers=a["qualifiers"],
                parent_or_seq_chunk_parent=a["parent_or_seq_chunk_parent"])
        if k == "varcoll":
            spec = d["vc"]
            # the caller's list of variants is not in coordinate order
            a = {"variant_intervals": [recipe._variant(v, parent) for v in spec["vars"]],
                 "qualifiers": _quals_copy(spec.get("qualifiers")), "parent_or_seq_chunk_parent": parent}
            return a, lambda: VariantIntervalCollection(
                a["variant_intervals"], variant_collection_name=spec.get("name"), variant_collection_id=spec.get("id"),
                sequence_name=recipe._seqname(), qualifiers=a["qualifiers"],
                parent_or_seq_chunk_parent=a["parent_or_seq_chunk_parent"])
        raise KeyError(k)
    return entry


def _single_ctor_entry(recipe):
    """SingleInterval(start, end, strand, parent): the parent is the caller's"""
    def entry(o, c):
        spec = recipe.data["loc"]
        a = {"parent": recipe.parent()}
        s, e = spec["blocks"][0][0], spec["blocks"][-1][1]
        return a, lambda: SingleInterval(s, e, G.STRANDS[spec["strand"]], parent=a["parent"])
    return entry


def _annot_variants_ctor_entry(recipe):
    """AnnotationCollection(..., variant_collections=[...]): children lists + a list of variant collections (the
    constructor incorporates them into every overlapping gene / feature collection)"""
    def entry(o, c):
        spec = recipe.data["annot"]
        parent = recipe.parent()
        a = {"feature_collections": [recipe._fc(f, parent) for f in spec["fcs"]] or None,
             "genes": [recipe._gene(g, parent) for g in spec["genes"]] or None,
             "variant_collections": [recipe.build_variants("inside", "snv", True)],
             "qualifiers": _quals_copy(spec.get("qualifiers"))}
        return a, lambda: AnnotationCollection(
            feature_collections=a["feature_collections"], genes=a["genes"], variant_collections=a["variant_collections"],
            name=spec.get("name"), id=spec.get("id"), sequence_name=recipe._seqname(), qualifiers=a["qualifiers"],
            parent_or_seq_chunk_parent=parent)
    return entry


def arg_table(recipe, obj):
    """{token: entry(obj, ctx) -> (arguments: {name: value}, thunk)}; the arguments are built afresh by every entry()"""
    k, d = recipe.kind, recipe.data
    t = {}

    def simple(name, build, call):
        def entry(o, c):
            a = build(o, c)
            return a, lambda: call(o, c, a)
        t[name] = entry

    # comparison with another object of the same kind (every kind): neither side may change
    simple("__eq__:twin", lambda o, c: {"other": c.recipe.build()}, lambda o, c, a: o == a["other"])
    if k in LOC_KINDS and d.get("others"):
        simple("__eq__:o0", lambda o, c: {"other": c.recipe.other_locations()[0]}, lambda o, c, a: o == a["other"])
        simple("__lt__:o0", lambda o, c: {"other": c.recipe.other_locations()[0]}, lambda o, c, a: o < a["other"])
        simple("compare:o0", lambda o, c: {"other": c.recipe.other_locations()[0]}, lambda o, c, a: o.compare(a["other"]))
    if k == "annot":
        simple("__setstate__:pickle", lambda o, c: {}, lambda o, c, a: H._pickle_roundtrip(o, c))
    if k in IV_KINDS or k in ("single", "compound"):
        t["ctor"] = _ctor_entry(recipe)
    if k == "single":
        t["ctor:single"] = _single_ctor_entry(recipe)
    if k == "annot":
        t["ctor:variants"] = _annot_variants_ctor_entry(recipe)
    if k == "sequence":
        simple("Sequence:ctor", lambda o, c: {"parent": o.parent},
               lambda o, c, a: Sequence(str(o), o.alphabet, id=o.id, type=o.sequence_type, parent=a["parent"]))
        simple("Parent:of", lambda o, c: {"sequence": o}, lambda o, c, a: Parent(sequence=a["sequence"]))
    if k in LOC_KINDS:
        for i in range(len(d.get("others", []))):
            for m in ("has_overlap", "contains", "distance_to", "parent_to_relative_location"):
                simple(f"{m}:o{i}", (lambda i: lambda o, c: {"other": c.recipe.other_locations()[i]})(i),
                       (lambda m: lambda o, c, a: getattr(o, m)(a["other"]))(m))
        simple("has_ancestor_sequence:chrom", lambda o, c: {"sequence": c.chrom_seq},
               lambda o, c, a: o.has_ancestor_sequence(a["sequence"]))
        simple("union:empty", lambda o, c: {"other": EmptyLocation()}, lambda o, c, a: o.union(a["other"]))
        simple("intersection:empty", lambda o, c: {"other": EmptyLocation()}, lambda o, c, a: o.intersection(a["other"]))
        simple("SingleInterval:on:parent-with-location",
               lambda o, c: {"parent": Parent(id="pl", location=c.recipe.other_locations()[0].reset_parent(None))
                             if d.get("others") else Parent(id="pl")},
               lambda o, c, a: SingleInterval(0, 1, Strand.PLUS, parent=a["parent"]))
    if k in LOC_KINDS:
        for i in range(len(d.get("others", []))):
            for m in ("union", "intersection", "minus", "union_preserve_overlaps", "location_relative_to"):
                simple(f"{m}:o{i}", (lambda i: lambda o, c: {"other": c.recipe.other_locations()[i]})(i),
                       (lambda m: lambda o, c, a: getattr(o, m)(a["other"]))(m))
        simple("reset_parent:altbases", lambda o, c: {"new_parent": OpCtx(c.recipe, o).operands["altbases"]},
               lambda o, c, a: o.reset_parent(a["new_parent"]))
        simple("from_single_intervals", lambda o, c: {"intervals": list(o.blocks)},
               lambda o, c, a: CompoundInterval.from_single_intervals(a["intervals"]))
        simple("lift_over_to_sequence:chrom", lambda o, c: {"sequence": c.chrom_seq},
               lambda o, c, a: o.lift_over_to_sequence(a["sequence"]))
    if k == "sequence":
        simple("append:other", lambda o, c: {"other": Sequence("ACGTN", Alphabet.NT_EXTENDED_GAPPED)},
               lambda o, c, a: o.append(a["other"]))
    if k == "parent":
        simple("equals_except_location:twin", lambda o, c: {"other": c.recipe.build()},
               lambda o, c, a: o.equals_except_location(a["other"]))
        simple("equals_except_location:twin:noseq", lambda o, c: {"other": c.recipe.build()},
               lambda o, c, a: o.equals_except_location(a["other"], require_same_sequence=False))
        simple("has_ancestor_sequence:chrom", lambda o, c: {"sequence": c.chrom_seq},
               lambda o, c, a: o.has_ancestor_sequence(a["sequence"]))
        simple("reset_location:loc", lambda o, c: {"location": SingleInterval(1, 4, Strand.PLUS)},
               lambda o, c, a: o.reset_location(a["location"]))
        simple("Parent:ctor", lambda o, c: {"location": o.location, "sequence": o.sequence, "parent": o.parent},
               lambda o, c, a: Parent(id=o.id, sequence_type=o.sequence_type, strand=o.strand, **a))
    if k in VARIANT_TARGETS:
        # variants before / inside / after the members, as a VariantInterval and as a VariantIntervalCollection
        for pl, vt in VARIANT_GRID:
            for coll in (False, True):
                simple(f"incorporate_variants:{pl}:{vt}:{'vc' if coll else 'v'}",
                       (lambda pl, vt, coll: lambda o, c: {"variants": c.recipe.build_variants(pl, vt, coll)})(pl, vt, coll),
                       lambda o, c, a: o.incorporate_variants(a["variants"]))
    if k == "annot":
        # the exported parent dictionary is the caller's (chromosome with id / chunk: no null entry; no parent: None)
        simple("from_dict:dict:export_parent", lambda o, c: {"vals": o.to_dict(export_parent=True)},
               lambda o, c, a: AnnotationCollection.from_dict(a["vals"]))
        simple("from_dict:dict:export_parent:parent",
               lambda o, c: {"vals": o.to_dict(export_parent=True), "parent_or_seq_chunk_parent": c.recipe.parent()},
               lambda o, c, a: AnnotationCollection.from_dict(a["vals"], a["parent_or_seq_chunk_parent"]))
        simple("to_dict:export_parent", lambda o, c: {}, lambda o, c, a: o.to_dict(export_parent=True))
    if k in IV_KINDS:
        mem = (recipe.members() or [[(2, 5)]])[0]
        simple("initialize_location:lists",
               lambda o, c: {"starts": [b[0] for b in mem], "ends": [b[1] for b in mem],
                             "parent_or_seq_chunk_parent": c.recipe.parent()},
               lambda o, c, a: type(o).initialize_location(a["starts"], a["ends"], Strand.PLUS, a["parent_or_seq_chunk_parent"]))
        simple("liftover_location_to_seq_chunk_parent:chrom>chunk2",
               lambda o, c: {"location": c.recipe.build().chromosome_location, "parent_or_seq_chunk_parent": c.chunk2()},
               lambda o, c, a: type(o).liftover_location_to_seq_chunk_parent(a["location"], a["parent_or_seq_chunk_parent"]))
        simple("liftover_location_to_seq_chunk_parent:own>own",
               lambda o, c: {"location": c.recipe.build().chunk_relative_location,
                             "parent_or_seq_chunk_parent": c.recipe.parent()},
               lambda o, c, a: type(o).liftover_location_to_seq_chunk_parent(a["location"], a["parent_or_seq_chunk_parent"]))
        simple("liftover:altbases", lambda o, c: {"parent_or_seq_chunk_parent": OpCtx(c.recipe, o).operands["altbases"]},
               lambda o, c, a: o.liftover_to_parent_or_seq_chunk_parent(a["parent_or_seq_chunk_parent"]))
        simple("from_dict:dict:chunk2", lambda o, c: {"vals": o.to_dict(), "parent_or_seq_chunk_parent": c.chunk2()},
               lambda o, c, a: type(o).from_dict(a["vals"], a["parent_or_seq_chunk_parent"]))
    if k in ("cds", "transcript", "feature"):
        def loc_args(which):
            def build(o, c):
                tw = c.recipe.build()
                a = {"location": tw.chromosome_location if which == "from_location" else tw.chunk_relative_location,
                     "qualifiers": _quals_copy({kk: sorted(vv) for kk, vv in (o.qualifiers or {}).items()})}
                if k == "cds":
                    a["cds_frames"] = list(tw.frames)
                elif k == "transcript":
                    a["cds"] = tw.cds
                else:
                    a["feature_types"] = sorted(tw.feature_types) if tw.feature_types else None
                return a
            return build

        def loc_call(which):
            def call(o, c, a):
                fn = getattr(type(o), which)
                if k == "cds":
                    return fn(a["location"], a["cds_frames"], qualifiers=a["qualifiers"], sequence_name=o.sequence_name)
                if k == "transcript":
                    return fn(a["location"], cds=a["cds"], qualifiers=a["qualifiers"], sequence_name=o.sequence_name)
                return fn(a["location"], qualifiers=a["qualifiers"], feature_types=a["feature_types"],
                          sequence_name=o.sequence_name)
            return call
        for which in ("from_location", "from_chunk_relative_location"):
            simple(f"{which}:loc", loc_args(which), loc_call(which))
    if k == "cds":
        for sf in (0, 2):
            simple(f"construct_frames_from_location:own:{sf}", lambda o, c: {"location": c.recipe.build().chunk_relative_location},
                   (lambda sf: lambda o, c, a: CDSInterval.construct_frames_from_location(a["location"], CDSFrame(sf)))(sf))
    if k in ("variant", "varcoll"):
        for name in ("before", "over", "after", "within", "compound"):
            simple(f"lift_over_location:{name}",
                   (lambda name: lambda o, c: {"location": variant_probe_locations(
                       c.recipe.data, c.recipe.chromosome_parent(False)).get(name, EmptyLocation())})(name),
                   lambda o, c, a: o.lift_over_location(a["location"]))
            simple(f"lift_over_location:{name}:own",
                   (lambda name: lambda o, c: {"location": AbstractInterval.liftover_location_to_seq_chunk_parent(
                       variant_probe_locations(c.recipe.data, None).get(name, EmptyLocation()), c.recipe.parent())})(name),
                   lambda o, c, a: o.lift_over_location(a["location"]))
        if k == "variant":
            simple("export_qualifiers:pq", lambda o, c: {"parent_qualifiers": {"vnote": {"P"}, "zz": {"1", "2"}}},
                   lambda o, c, a: o.export_qualifiers(a["parent_qualifiers"]))
        simple("alternative_genomic_sequence", lambda o, c: {}, lambda o, c, a: o.alternative_genomic_sequence)
        simple("parent_with_alternative_sequence", lambda o, c: {}, lambda o, c, a: o.parent_with_alternative_sequence)
    if k == "varcoll":
        simple("query_by_guids:list", lambda o, c: {"id_or_ids": [x.guid for x in o][::-1]},
               lambda o, c, a: o.query_by_guids(a["id_or_ids"]))
        simple("query_by_guids:list:first+unknown", lambda o, c: {"id_or_ids": [uuid.UUID(int=7), next(iter(o)).guid]},
               lambda o, c, a: o.query_by_guids(a["id_or_ids"]))
    if k in IV_KINDS:
        simple("to_dict:noarg", lambda o, c: {}, lambda o, c, a: o.to_dict())
        simple("to_dict:chunk", lambda o, c: {}, lambda o, c, a: o.to_dict(chromosome_relative_coordinates=False))
        simple("from_dict:dict", lambda o, c: {"vals": o.to_dict(), "parent_or_seq_chunk_parent": c.recipe.parent()},
               lambda o, c, a: type(o).from_dict(a["vals"], a["parent_or_seq_chunk_parent"]))
        simple("from_dict:dict:noparent", lambda o, c: {"vals": o.to_dict()}, lambda o, c, a: type(o).from_dict(a["vals"]))
        simple("liftover:chunk2", lambda o, c: {"parent_or_seq_chunk_parent": c.chunk2()},
               lambda o, c, a: o.liftover_to_parent_or_seq_chunk_parent(a["parent_or_seq_chunk_parent"]))
    if k in ("cds", "transcript", "feature"):
        for name, pq in (("builtin", pq_builtin), ("shared", pq_shared), ("all", pq_all), ("empty", lambda o: {})):
            simple(f"export_qualifiers:pq-{name}", (lambda pq: lambda o, c: {"parent_qualifiers": pq(o)})(pq),
                   lambda o, c, a: o.export_qualifiers(a["parent_qualifiers"]))
            simple(f"_merge_qualifiers:pq-{name}", (lambda pq: lambda o, c: {"other_qualifiers": pq(o)})(pq),
                   lambda o, c, a: o._merge_qualifiers(a["other_qualifiers"]))
            simple(f"to_gff:pq-{name}", (lambda pq: lambda o, c: {"parent_qualifiers": pq(o)})(pq),
                   lambda o, c, a: o.to_gff(parent="PARENT", parent_qualifiers=a["parent_qualifiers"]))
        simple("to_gff:pq-all:chunk", lambda o, c: {"parent_qualifiers": pq_all(o)},
               lambda o, c, a: o.to_gff(parent="PARENT", parent_qualifiers=a["parent_qualifiers"],
                                        chromosome_relative_coordinates=False))
        simple("export_qualifiers:noarg", lambda o, c: {}, lambda o, c, a: o.export_qualifiers())
        simple("to_bed12:rgb", lambda o, c: {"rgb": RGB(1, 2, 3)}, lambda o, c, a: o.to_bed12(score=7, rgb=a["rgb"], name="guid"))
        w0, w1 = d["window"]
        simple("sequence_interval_to_feature:win", lambda o, c: {}, lambda o, c, a: o.sequence_interval_to_feature(w0, w1, Strand.PLUS))
    if k in ("transcript", "feature"):
        w0, w1 = d["window"]
        simple("intersect:loc", lambda o, c: {"location": SingleInterval(w0, w1, Strand.PLUS)},
               lambda o, c, a: o.intersect(a["location"]))
        simple("intersect:loc:newq", lambda o, c: {"location": SingleInterval(w0, w1, Strand.PLUS),
                                                  "new_qualifiers": {"nk": ["v1", "v2"]}},
               lambda o, c, a: o.intersect(a["location"], new_qualifiers=a["new_qualifiers"]))
    if k in ("gene", "featcoll"):
        simple("export_qualifiers:noarg", lambda o, c: {}, lambda o, c, a: o.export_qualifiers())
        simple("to_gff:noarg", lambda o, c: {}, lambda o, c, a: o.to_gff())
        simple("query_by_guids:list", lambda o, c: {"id_or_ids": [x.guid for x in o]},
               lambda o, c, a: o.query_by_guids(a["id_or_ids"]))
        # a list that is NOT in any canonical order (reversed children + an unknown identifier in the middle)
        simple("query_by_guids:list:reversed",
               lambda o, c: {"id_or_ids": [x.guid for x in o][::-1][:1] + [uuid.UUID(int=2 ** 127)] + [x.guid for x in o][::-1][1:]},
               lambda o, c, a: o.query_by_guids(a["id_or_ids"]))
        simple("query_by_guids:list:first+unknown", lambda o, c: {"id_or_ids": [next(iter(o)).guid, uuid.UUID(int=7)]},
               lambda o, c, a: o.query_by_guids(a["id_or_ids"]))
    if k == "annot":
        simple("to_gff:noarg", lambda o, c: {}, lambda o, c, a: o.to_gff())
        simple("query_by_guids:list", lambda o, c: {"ids": [x.guid for x in o]}, lambda o, c, a: o.query_by_guids(a["ids"]))
        simple("query_by_guids:list:reversed", lambda o, c: {"ids": [x.guid for x in o][::-1] + [uuid.UUID(int=7)]},
               lambda o, c, a: o.query_by_guids(a["ids"]))
        for m, getter in (("query_by_interval_guids", lambda o: [y.guid for x in o for y in x][::-1]),
                          ("query_by_transcript_interval_guids", lambda o: [y.guid for x in o.genes for y in x]),
                          ("query_by_feature_interval_guids", lambda o: [y.guid for x in o.feature_collections for y in x]),
                          ("query_by_feature_identifiers", lambda o: ["G0", "fc5", "LT0", "T0", "F50", "feat50"])):
            for cont in (list, set):
                simple(f"{m}:{cont.__name__}", (lambda getter, cont: lambda o, c: {"ids": cont(getter(o))})(getter, cont),
                       (lambda m: lambda o, c, a: getattr(o, m)(a["ids"]))(m))
        w0, w1 = d["window"]
        simple("query_by_position:win", lambda o, c: {}, lambda o, c, a: o.query_by_position(w0, w1, completely_within=False))
    return t


def _call(thunk):
    try:
        with warnings.catch_warnings():
            warnings.simplefilter("ignore")
            return render(thunk())
    except RecursionError:
        return None, "exc:RecursionError"
    except Exception as e:  # noqa
        return None, "exc:" + type(e).__name__


def _receiver_state(o):
    """deep reading of the receiver (cheap form of `snapshot`)"""
    return deep(o)


def run_args(kindmode, seed, call):
    recipe = make_recipe(kindmode, seed)
    cold()
    obj = recipe.build()
    table = arg_table(recipe, obj)
    if call not in table:
        return f"err! UnknownCall:{call}"
    # fresh twin with fresh arguments, cold caches
    cold()
    twin = recipe.build()
    ta, tthunk = table[call](twin, Ctx(recipe, twin))
    _, r_twin = _call(tthunk)
    # the object under test
    cold()
    obj = recipe.build()
    ctx = Ctx(recipe, obj)
    args, thunk = table[call](obj, ctx)
    a_before = deep(args)
    s_before = _receiver_state(recipe.build())
    arg_conts = containers(args, "arg", {}, set(), lambda v: False)
    # receiver containers: through child intervals, not into locations / parents / sequences
    self_conts = containers(obj, "self", {}, set(), lambda v: isinstance(v, AbstractInterval))
    res1, r_first = _call(thunk)
    a_after1 = deep(args)
    # result containers: into every library object for argument aliases; for receiver aliases only through plain
    # containers and non-interval helper objects (rows, attributes), never into returned intervals / locations,
    # which legitimately share child objects with the receiver
    res_all = containers(res1, "result", {}, set(), lambda v: True)
    res_plain = containers(res1, "result", {}, set(), lambda v: not isinstance(v, OBJ) or v is res1)
    alias = []           # (result path, other path, family)
    for i, (p, _) in sorted(res_all.items(), key=lambda kv: kv[1][0]):
        if i in arg_conts:
            alias.append((p, arg_conts[i][0], _alias_family(call, p, arg_conts[i][0])))
    for i, (p, _) in sorted(res_plain.items(), key=lambda kv: kv[1][0]):
        # private state shared between two library objects (result._x is receiver._x) is not observable
        if i in self_conts and i not in arg_conts and _public(p) and res1 is not obj:
            alias.append((p, self_conts[i][0], _alias_family(call, p, self_conts[i][0])))
    _, r_second = _call(thunk)
    a_after = deep(args)
    s_after = _receiver_state(obj)
    da1 = dg(a_after1)
    fams = {f for _, _, f in alias}
    detail = []
    if dg(a_before) != da1 or dg(a_before) != dg(a_after):
        ds = H.diff(a_after1 if da1 != dg(a_before) else a_after, a_before)
        detail.append("arg:" + _tok(H._short(ds[0])) if ds else "arg:?")
        fams.add("argument-changed")
    if dg(s_before) != dg(s_after):
        ds = H.diff(s_after, s_before)
        detail.append("self:" + _tok(H._short(ds[0])) if ds else "self:?")
        fams.add("receiver-changed")
    if dg(r_first) != dg(r_twin):
        detail.append("twin:" + _first_diff(r_first, r_twin))
        fams.add("result")
    if dg(r_first) != dg(r_second):
        detail.append("second:" + _first_diff(r_second, r_first))
        fams.add("result")
    out = ["ok", "fam=" + ("+".join(sorted(fams)) or "-"),
           "a", dg(a_before), dg(a_after) if da1 == dg(a_before) else da1,
           "s", dg(s_before), dg(s_after), "r", dg(r_first), dg(r_second), dg(r_twin), "alias", str(len(alias))]
    out += [f"{_tok(p)}=={_tok(q)}" for p, q, _ in alias[:6]]
    if detail:
        out.append("? " + " ".join(detail))
    return " ".join(out)


CTOR_CALLS = ("ctor", "ctor:single", "ctor:variants", "from_dict:dict", "from_dict:dict:noparent", "from_dict:dict:chunk2",
              "from_dict:dict:export_parent", "from_dict:dict:export_parent:parent")
KEPT_LISTS = ("_genomic_starts", "_genomic_ends", "frames", "_cds_frames", "transcripts", "feature_intervals",
              "feature_collections", "genes", "variant_collections")


def _public(path):
    return not any(seg.startswith("_") for part in path.split("/") for seg in part.split(".")[1:])


def _alias_family(call, res_path, other_path):
    """syntactic grouping for findings/C10.json (see `family` in impl_history):
      ctor-keeps-list      a constructor / from_dict stores the caller's list of starts / ends / frames / children
      feature-types-alias  an export hands out the receiver's own `feature_types` set under the key `feature_type`
      other                anything else — never matched by a finding"""
    last_attr = res_path.split(".")[-1].split("/")[0]
    if call in CTOR_CALLS and other_path.startswith("arg") and last_attr in KEPT_LISTS and "/" not in res_path.split(".")[-1]:
        return "ctor-keeps-list"
    if other_path.startswith("self") and res_path.endswith("/feature_type") and other_path.endswith(".feature_types"):
        return "feature-types-alias"
    if call == "to_dict:noarg" and other_path.startswith("self") and other_path.split(".")[-1] in KEPT_LISTS[:2] \
            and res_path.split("/")[-1] in ("exon_starts", "exon_ends", "cds_starts", "cds_ends", "interval_starts",
                                            "interval_ends"):
        return "to-dict-hands-out-list"
    return "other"


# ----------------------------------------------------------------------------------------------
# (c) generator-returning exports: eager vs late rendering

def _export(o, variant):
    if variant == "chunk":
        return o.to_gff(chromosome_relative_coordinates=False)
    if variant == "pq":
        return o.to_gff(parent="PARENT", parent_qualifiers=pq_all(o))
    return o.to_gff()


def _eager(o, variant):
    try:
        with warnings.catch_warnings():
            warnings.simplefilter("ignore")
            return [str(row) for row in _export(o, variant)]        # rendered as soon as it is produced
    except Exception as e:  # noqa
        return ["exc:" + type(e).__name__]


def _late(o, variant):
    try:
        with warnings.catch_warnings():
            warnings.simplefilter("ignore")
            rows = list(_export(o, variant))                        # the generator is exhausted first
            return [str(row) for row in rows]
    except Exception as e:  # noqa
        return ["exc:" + type(e).__name__]


def run_lazy(kindmode, seed, variant):
    recipe = make_recipe(kindmode, seed)
    cold()
    obj = recipe.build()
    if not hasattr(obj, "to_gff"):
        return "err! NoExport"
    if variant == "pq" and recipe.kind not in ("cds", "transcript", "feature"):
        return "err! NoParentQualifiers"
    e1 = _eager(obj, variant)
    l2 = _late(obj, variant)
    e3 = _eager(obj, variant)
    cold()
    lt = _late(recipe.build(), variant)
    cold()
    et = _eager(recipe.build(), variant)
    out = ["ok"]
    for name, rows in (("e1", e1), ("l2", l2), ("e3", e3), ("lt", lt), ("et", et)):
        n = 0 if rows and rows[0].startswith("exc:") else len(rows)
        out.append(f"{name} {n}:{dg(rows)}")
    # which row differs first (information for the reader of a failure)
    for name, rows in (("l2", l2), ("e3", e3), ("lt", lt), ("et", et)):
        if rows != e1:
            i = next((j for j, (x, y) in enumerate(zip(rows, e1)) if x != y), min(len(rows), len(e1)))
            typ = rows[i].split("\t")[2] if i < len(rows) and rows[i].count("\t") >= 8 else "?"
            out.append(f"? {name}:row{i}:{_tok(typ)}")
            break
    return " ".join(out)


# ----------------------------------------------------------------------------------------------

def run_line(t):
    """t = tokens of a warm / args / lazy line (evaluated in a pristine forked child of the helper process)"""
    if t[0] == "warm":
        return run_warm(t[1], int(t[2]), t[3], t[4:])
    if t[0] == "args":
        return run_args(t[1], int(t[2]), t[3])
    if t[0] == "lazy":
        return run_lazy(t[1], int(t[2]), t[3])
    return "err! UnknownOp"


# ----------------------------------------------------------------------------------------------
# (d) inventory: which public methods WITH arguments are exercised by the tables (generated by introspection)

KIND_CLASS = {"single": SingleInterval, "compound": CompoundInterval, "empty": _EmptyLocation, "parent": PARENT_CLS,
              "sequence": Sequence, "cds": CDSInterval, "transcript": TranscriptInterval, "feature": FeatureInterval,
              "gene": GeneInterval, "featcoll": FeatureIntervalCollection, "annot": AnnotationCollection,
              "variant": VariantInterval, "varcoll": VariantIntervalCollection}
# tokens whose first segment is not the method's name
TOKEN_ALIASES = {"liftover": "liftover_to_parent_or_seq_chunk_parent", "ctor": "__init__"}
# Methods deliberately NOT in arg_table / op_table / call_table: {(class name or "*", method or rule): reason}.
# Everything else that introspection finds (public methods / classmethods / staticmethods with >= 1 argument, memoised ones
# included, the constructor, and the dunder methods with arguments the library defines itself) and that no table mentions
# is reported as `uncovered_methods` in the evidence (the check does not fail on it).
EXCLUDED_METHODS = {
    ("*", "_<private>"): "names with a leading underscore are not public API (38 of them take arguments).  The in-place ones "
                         "(_reset_parent, _liftover_this_location_to_seq_chunk_parent, _import_qualifiers_from_list, "
                         "_initialize_location) are the documented construction-time mutators: their effect on CALLER-held "
                         "objects is observed through the public constructors / from_dict / incorporate_variants / "
                         "query_by_* entries that run them.  Exception: `_merge_qualifiers` IS in the tables (4 argument shapes)",
    ("*", "cache_clear / cache_info"): "cache management of the memoised methods: used as history fillers (X), not questions",
    ("_EmptyLocation", "__init__"): "singleton without constructor arguments (EmptyLocation() is the receiver of the `empty` "
                                    "kind and an operand of union:empty / intersection:empty / lift_over_location:empty)",
    ("VariantInterval", "to_vcf"): "no arguments; raises NotImplementedError unconditionally (asked in the histories).  "
                                   "to_bed12 / to_gff of the variant classes raise unconditionally too and are in the tables",
}


def arg_taking_methods(cls):
    """{name: (how, [parameter names])}: every public method / classmethod / staticmethod (memoised ones included) of the
    class that takes at least one argument besides self / cls, + the constructor"""
    import inspect
    out = {}
    for n in sorted(dir(cls)):
        st = inspect.getattr_static(cls, n)
        tn = type(st).__name__
        if n.startswith("__") and n.endswith("__") and n != "__init__":
            # dunder methods with arguments that the library defines itself (__eq__, __lt__, __getitem__, __setstate__)
            if tn != "function" or not (getattr(st, "__module__", "") or "").startswith("inscripta"):
                continue
        elif n.startswith("_") and n != "__init__":
            continue
        if tn in ("staticmethod", "classmethod"):
            fn = st.__func__
        elif tn == "function":
            fn = st
        elif tn == "_MethodRope":                   # methodtools.lru_cache on a method
            fn = inspect.unwrap(getattr(cls, n))
        else:
            continue                                # properties, memoised properties, data
        try:
            ps = [p.name for p in inspect.signature(fn).parameters.values()
                  if p.kind not in (p.VAR_POSITIONAL, p.VAR_KEYWORD)]
        except (TypeError, ValueError):
            ps = ["?"]
        if tn != "staticmethod":
            ps = ps[1:]
        if ps:
            out[n] = (tn, ps)
    return out


def covered_names(kind, modes=("chrom", "chunk")):
    """method names of the kind's class that some token of arg_table / op_table / call_table calls on the object (or on
    its class); tokens with a child prefix (`cds.`, `cds0.`, `child0.`) belong to the child's class and are not counted"""
    cls = KIND_CLASS[kind].__name__
    where = {}
    for mode in modes:
        r = G.make(kind, random.Random(0), mode, "e")
        o = r.build()
        for leg, table in (("args", arg_table(r, o)), ("warm", op_table(r, o)), ("hist+warm", call_table(r, o))):
            for tok in table:
                for part in tok.split(">"):
                    head = part.split(":")[0]
                    if "." in head:
                        continue
                    name = "__init__" if head == cls or (cls == "Parent" and head == "Parent") else TOKEN_ALIASES.get(head, head)
                    where.setdefault(name, set()).add(leg)
    return where


def inventory():
    per_class, uncovered, excluded = {}, [], {}
    for kind, cls in KIND_CLASS.items():
        methods = arg_taking_methods(cls)
        cov = covered_names(kind)
        rec = {"arg_taking_public_methods": len(methods), "covered": 0, "in_args_leg": 0, "excluded": [], "uncovered": []}
        for n in methods:
            why = EXCLUDED_METHODS.get((cls.__name__, n)) or EXCLUDED_METHODS.get(("*", n))
            if n in cov:
                rec["covered"] += 1
                rec["in_args_leg"] += "args" in cov[n]
            elif why:
                rec["excluded"].append(n)
                excluded[f"{cls.__name__}.{n}"] = why
            else:
                rec["uncovered"].append(n)
                uncovered.append(f"{cls.__name__}.{n}({', '.join(methods[n][1])})")
        per_class[cls.__name__] = rec
    return {"per_class": per_class, "uncovered_methods": uncovered, "excluded_methods": excluded}
