"""Generators of coding intervals (the repo's own vocabulary: exon blocks, 0-bp gaps, strands, frame vectors
with and without programmed frameshifts, codon windows, sequences).  Shared by C05 and, later, C06/C07.

Nothing here judges an answer: `ref_kept` is used only to *plant* interesting codons (starts, stops, ambiguous
letters) where the reading frame will find them; the verdicts come from the Lean spec driver.
"""
import itertools

ACGT = "ACGT"
IUPAC = "ACGTUNWSMKRYBDHV"
COMP = {"A": "T", "C": "G", "G": "C", "T": "A", "U": "A", "R": "Y", "Y": "R", "S": "S", "W": "W", "K": "M", "M": "K",
        "B": "V", "V": "B", "D": "H", "H": "D", "N": "N"}
START_LIKE = ["ATG", "TTG", "CTG", "GTG", "ATT", "ATC", "ATA", "AUG", "atg", "AtG"]
STOPS = ["TAA", "TAG", "TGA", "taa", "TGa"]
AMBIG = ["CTN", "GCN", "ACN", "CTR", "TAR", "NNN", "ATN", "GGY", "ctn", "AAU"]


def layouts(k, max_len, gaps=(0, 1, 2), first=1, min_len=1):
    """All k-exon layouts with exon lengths min_len..max_len and the given gap widths; first exon starts at `first`."""
    for lens in itertools.product(range(min_len, max_len + 1), repeat=k):
        for gs in itertools.product(gaps, repeat=k - 1):
            s = first
            exons = []
            for i, ln in enumerate(lens):
                exons.append((s, s + ln))
                s = s + ln + (gs[i] if i < k - 1 else 0)
            yield exons


def frame_vectors(k):
    return itertools.product(range(3), repeat=k)


def consistent_frames(exons, strand, start_frame):
    """Frame vector (plus orientation) of one uninterrupted reading frame starting with offset `start_frame`."""
    order = exons if strand == "+" else exons[::-1]
    out, dist = [], -start_frame
    for i, (s, e) in enumerate(order):
        out.append(start_frame if i == 0 else dist % 3)
        dist += e - s
    return out if strand == "+" else out[::-1]


def to_phase(frame_value):
    return {0: 0, 1: 2, 2: 1, -1: -1}[frame_value]


def ref_kept(exons, strand, frames):
    """The reading-frame walk (chromosome positions 5'->3').  Generator-side only."""
    ex = list(zip(exons, frames))
    if strand == "-":
        ex = ex[::-1]
    kept = []
    for (s, e), f in ex:
        pos = list(range(s, e)) if strand == "+" else list(range(e - 1, s - 1, -1))
        if f != len(kept) % 3:
            r = len(kept) % 3
            if r:
                kept = kept[:len(kept) - r]
            pos = pos[f:]
        kept += pos
    return kept


def windows_all(exons, margin=1):
    """Every non-empty window (start < end) over the CDS span widened by `margin`, plus three empty ones."""
    lo, hi = max(0, exons[0][0] - margin), exons[-1][1] + margin
    for ws in range(lo, hi + 1):
        for we in range(ws + 1, hi + 1):
            yield ws, we
    for p in sorted({lo, (lo + hi) // 2, hi}):
        yield p, p


def random_cds(rng, max_exons=6, max_len=12, gap_choices=(0, 0, 1, 2, 3, 7, 40), p_shift=0.45, first_max=20):
    """(exons, strand, frames): mostly consistent frames, sometimes with programmed frameshifts."""
    k = rng.randint(1, max_exons)
    s = rng.randint(0, first_max)
    exons = []
    for i in range(k):
        ln = rng.randint(1, max_len)
        exons.append((s, s + ln))
        s += ln + rng.choice(gap_choices)
    strand = rng.choice("+-")
    frames = consistent_frames(exons, strand, rng.choice([0, 0, 1, 2]))
    if rng.random() < p_shift:
        for _ in range(rng.randint(1, 2)):
            frames[rng.randrange(k)] = rng.randrange(3)
    return exons, strand, frames


def random_letters(rng, n, stream):
    if stream == "acgt":
        return "".join(rng.choice(ACGT) for _ in range(n))
    if stream == "iupac":
        return "".join(rng.choice(IUPAC if rng.random() < 0.3 else ACGT) for _ in range(n))
    # mixed case
    return "".join((rng.choice(IUPAC) if rng.random() < 0.15 else rng.choice(ACGT)).lower()
                   if rng.random() < 0.3 else rng.choice(ACGT) for _ in range(n))


def plant(seq, positions, strand, codon):
    """Write `codon` (5'->3' on the CDS strand) at three chromosome positions."""
    s = list(seq)
    for p, ch in zip(positions, codon):
        if strand == "-":
            up = COMP.get(ch.upper(), "N")
            ch = up.lower() if ch.islower() else up
        s[p] = ch
    return "".join(s)


def random_sequence(rng, exons, strand, frames, stream="acgt", tail=3):
    """Chromosome letters covering the CDS (+ `tail`), with start-like / stop / ambiguous codons planted in frame."""
    n = exons[-1][1] + tail
    seq = random_letters(rng, n, stream)
    kept = ref_kept(exons, strand, frames)
    cod = [kept[3 * i:3 * i + 3] for i in range(len(kept) // 3)]
    if cod:
        if rng.random() < 0.7:
            seq = plant(seq, cod[0], strand, rng.choice(START_LIKE))
        if rng.random() < 0.6:
            seq = plant(seq, cod[-1], strand, rng.choice(STOPS))
        if len(cod) > 2 and rng.random() < 0.35:
            seq = plant(seq, cod[rng.randrange(1, len(cod) - 1)], strand, rng.choice(STOPS))
        if stream != "acgt" and len(cod) > 1 and rng.random() < 0.6:
            seq = plant(seq, cod[rng.randrange(0, len(cod))], strand, rng.choice(AMBIG))
    return seq


def classify(exons, strand, frames):
    """Tags for the input distribution."""
    tags = [f"exons={min(len(exons), 4)}{'+' if len(exons) > 4 else ''}", f"strand{strand}"]
    if any(exons[i][1] == exons[i + 1][0] for i in range(len(exons) - 1)):
        tags.append("0bp-gap")
    start = frames[0] if strand == "+" else frames[-1]
    tags.append(f"startframe={start}")
    tags.append("frames-consistent" if list(frames) == consistent_frames(exons, strand, start) else "frameshift")
    return tags
