"""Generic call-history twins for operations on library OBJECTS (engine feature `WARM_TWINS`).

A line `<op line> @w` is the same mathematical operation as `<op line>`, evaluated on the implementation side inside
`warm_constructors()`: every library object constructed while the line is evaluated — the operands the harness builds
AND the intermediate / result objects the library builds itself — is asked every argument-less public question
(properties, data attributes, methods callable without arguments, str / repr / hash / len) right after its constructor
returns, and every list / dict / set that a METHOD returned (exported dictionaries, qualifier exports) is edited in place
by the "caller" (`_scribble`); a transcript / feature has also been a member of a gene / feature collection that was asked
everything (`_membership_history`) and has been lifted onto another sequence chunk (`_derivation_history`).  Lazily filled fields, `lru_cache`d methods, flag-switched code paths and shared containers are therefore in
their "used" state before the operation's own question is asked.  The Lean drivers get the line WITHOUT the marker
(the model and the specification are functions of the mathematical operands), so any influence of the history on the
real answer shows up as a disagreement and as a failed verdict.

The questions are those of C10's introspection (`impl_history.introspected`); nothing here is specific to a property.
"""
import contextlib
import warnings

MARK = " @w"
_STATE = {"busy": False, "depth": 0}


def _classes():
    from harness import shims
    shims.install()
    import inscripta.biocantor  # noqa: F401
    from inscripta.biocantor.location.location_impl import SingleInterval, CompoundInterval
    from inscripta.biocantor.gene.cds import CDSInterval
    from inscripta.biocantor.gene.transcript import TranscriptInterval
    from inscripta.biocantor.gene.feature import FeatureInterval, FeatureIntervalCollection
    from inscripta.biocantor.gene.gene import GeneInterval
    from inscripta.biocantor.gene.collections import AnnotationCollection
    from inscripta.biocantor.gene.variants import VariantInterval, VariantIntervalCollection
    from inscripta.biocantor.sequence.sequence import Sequence
    return [SingleInterval, CompoundInterval, CDSInterval, TranscriptInterval, FeatureInterval,
            FeatureIntervalCollection, GeneInterval, AnnotationCollection, VariantInterval, VariantIntervalCollection,
            Sequence]


_SENTINEL = "\u2620scribbled-by-caller"


def _scribble(v, depth=0):
    """A caller that edits what a method RETURNED: every list / dict / set inside the returned plain data (exported
    dictionaries, qualifier exports, lists of rows) is changed in place.  The data is the caller's own copy - unless the
    library handed out a container it still uses itself, in which case a later answer changes (seen as a disagreement
    by whichever property observes it).  Data ATTRIBUTES and properties are not touched: editing those is editing the
    object."""
    if depth > 6:
        return
    if isinstance(v, dict):
        for x in list(v.values()):
            _scribble(x, depth + 1)
        try:
            v[_SENTINEL] = [_SENTINEL]
        except Exception:  # noqa
            pass
    elif isinstance(v, list):
        for x in list(v):
            _scribble(x, depth + 1)
        v.append(_SENTINEL)
        v.reverse()
    elif isinstance(v, set):
        v.add(_SENTINEL)


def ask_everything(obj, _top=True, skip=()):
    """every argument-less public question, answers discarded, exceptions ignored (a question an object cannot answer,
    e.g. a sequence accessor without sequence, raises the same way for a fresh object)"""
    from harness.impl_history import introspected
    try:
        qs = introspected(obj)
    except Exception:  # noqa
        return
    for _tok, (how, name) in sorted(qs.items()):
        if name in skip:
            continue
        try:
            v = getattr(obj, name)
            if how != "prop":
                v = v()
            if hasattr(v, "__next__"):          # generators / iterators are consumed, like a caller would
                for i, _ in enumerate(v):
                    if i > 500:
                        break
            elif how != "prop":
                _scribble(v)                    # plain data handed out by a METHOD belongs to the caller
        except RecursionError:
            pass
        except Exception:  # noqa
            pass
    for q in (str, repr, hash, len):
        try:
            q(obj)
        except Exception:  # noqa
            pass
    if _top:
        _membership_history(obj)


def _derivation_history(obj):
    """An interval from which ANOTHER object has already been derived: it is lifted onto a different sequence chunk
    (`liftover_to_parent_or_seq_chunk_parent`, window = its span widened by a few bases) and the derived object is asked
    everything and dropped.  Deriving must read the source, never change it."""
    try:
        lift = getattr(obj, "liftover_to_parent_or_seq_chunk_parent", None)
        parent = getattr(obj, "_parent_or_seq_chunk_parent", None)
        if lift is None or parent is None or not hasattr(obj, "start"):
            return
        from inscripta.biocantor.io.parser import seq_chunk_to_parent
        from inscripta.biocantor.parent.parent import SequenceType
        from inscripta.biocantor.sequence.alphabet import Alphabet
        chrom = parent.first_ancestor_of_type(SequenceType.CHROMOSOME)
        a, b = max(0, obj.start - 2), obj.end + 3
        if chrom.sequence is not None:
            b = min(b, len(chrom.sequence))
            letters = str(chrom.sequence)[a:b]
        else:
            letters = "N" * (b - a)
        if b <= a:
            return
        other = seq_chunk_to_parent(letters, chrom.id, a, b, alphabet=Alphabet.NT_EXTENDED_GAPPED)
        derived = lift(other)
    except Exception:  # noqa  (nothing can be derived from this object: nothing to do)
        return
    ask_everything(derived, _top=False)


def _membership_history(obj):
    """A leaf interval that has ALREADY been a member of an aggregate: a transcript is put into a gene together with a
    sibling isoform (one exon covering the whole locus), a feature into a feature collection with a sibling feature;
    the aggregate is asked every argument-less question (merged transcript / CDS / feature, primary accessors,
    exports ...) and dropped.  Aggregates must read their members, never change them."""
    _derivation_history(obj)
    try:
        from inscripta.biocantor.gene.transcript import TranscriptInterval
        from inscripta.biocantor.gene.feature import FeatureInterval, FeatureIntervalCollection
        from inscripta.biocantor.gene.gene import GeneInterval
        parent = getattr(obj, "_parent_or_seq_chunk_parent", None)
        if type(obj) is TranscriptInterval:
            sib = TranscriptInterval([obj.start], [obj.end], obj.strand, parent_or_seq_chunk_parent=parent,
                                     transcript_id="warm-sibling")
            agg = GeneInterval([obj, sib], parent_or_seq_chunk_parent=parent)
        elif type(obj) is FeatureInterval:
            sib = FeatureInterval([obj.start], [obj.end], obj.strand, parent_or_seq_chunk_parent=parent,
                                  feature_id="warm-sibling")
            agg = FeatureIntervalCollection([obj, sib], parent_or_seq_chunk_parent=parent)
        else:
            return
    except Exception:  # noqa  (no aggregate can be built around this object: nothing to do)
        return
    ask_everything(agg, _top=False)


@contextlib.contextmanager
def warm_constructors():
    classes = _classes()
    saved = [(c, c.__dict__.get("__init__")) for c in classes]

    def wrap(cls, orig):
        def __init__(self, *a, **kw):
            _STATE["depth"] += 1
            try:
                orig(self, *a, **kw)
            finally:
                _STATE["depth"] -= 1
            # warm only complete objects (outermost constructor of the MRO chain), never re-entrantly
            if _STATE["depth"] == 0 and not _STATE["busy"] and type(self) is cls:
                _STATE["busy"] = True
                try:
                    with warnings.catch_warnings():
                        warnings.simplefilter("ignore")
                        ask_everything(self)
                finally:
                    _STATE["busy"] = False
        __init__.__wrapped__ = orig
        return __init__

    try:
        for cls, orig in saved:
            if orig is not None:
                cls.__init__ = wrap(cls, orig)
        yield
    finally:
        for cls, orig in saved:
            if orig is not None:
                cls.__init__ = orig


def strip(line):
    return line[:-len(MARK)] if line.endswith(MARK) else line


def call(impl, line):
    """impl(line) — inside `warm_constructors()` when the line carries the marker"""
    if line.endswith(MARK):
        # the harness's own memo tables would hand the line an object that was built BEFORE (outside this context, by
        # the plain line just evaluated): they are emptied so that every object of the line is constructed - and warmed -
        # here, and emptied again so that no later plain line inherits a warmed object
        from harness import decoy
        decoy._clear_harness_caches()
        try:
            with warm_constructors():
                return impl(line[:-len(MARK)])
        finally:
            decoy._clear_harness_caches()
    return impl(line)
