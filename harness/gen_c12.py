"""Generators of C12: annotation collections (plain data, vocabulary of harness/gen_collections.py) with their
chromosome sequence, and GenBank feature lists (REC tuples) for the parser legs.

Pure Python, no BioCantor import: the inputs do not depend on the tree under test.
Everything is drawn from the `random.Random` handed in.
"""
from harness import gen_collections as G

COMP = {"A": "T", "C": "G", "G": "C", "T": "A"}
ALT_STARTS = ["TTG", "CTG", "ATT", "ATC", "ATA", "GTG", "ATG"]
RNA_TYPES = ["ncRNA", "tRNA", "rRNA", "misc_RNA", "tmRNA"]
NONCODING_BIOTYPES = ["lncRNA", "ncRNA", "tRNA", "rRNA", "pseudogene", "miRNA", "snoRNA", "misc_RNA", "tmRNA",
                      "miscRNA", "lnc_RNA", "pseudo"]          # incl. documented aliases
CODING_BIOTYPES = ["protein_coding", "protein-coding", "mRNA"]
RESERVED_KEYS = ["gene", "locus_tag", "protein_id", "translation", "gene_id", "transcript_id", "gene_name",
                 "codon_start", "pseudo", "product", "feature_type"]


def revcomp(s):
    return "".join(COMP[c] for c in reversed(s))


def random_seq(rng, n):
    return "".join(rng.choice("ACGT") for _ in range(n))


def plant_start(rng, seq, tx):
    """put an initiator codon of table 11 at the 5' end of a CDS (when its first block holds a whole codon)"""
    if not tx["cds_starts"]:
        return seq
    sf = G.FRAME_NAMES.index(tx["cds_frames"][0] if tx["strand"] == "PLUS" else tx["cds_frames"][-1])
    cod = rng.choice(ALT_STARTS)
    if tx["strand"] == "PLUS":
        s, e = tx["cds_starts"][0] + sf, tx["cds_ends"][0]
        if e - s >= 3:
            seq = seq[:s] + cod + seq[s + 3:]
    else:
        s, e = tx["cds_starts"][-1], tx["cds_ends"][-1] - sf
        if e - s >= 3:
            seq = seq[:e - 3] + revcomp(cod) + seq[e:]
    return seq


def _retype(rng, g, mode):
    """biotypes: same | none | differ | alias | rna (non-coding transcripts get a biotype that is a feature key)"""
    for t in g["transcripts"]:
        coding = t["cds_starts"] is not None
        if mode == "none":
            t["transcript_type"] = None
        elif mode == "alias":
            t["transcript_type"] = rng.choice(CODING_BIOTYPES) if coding else rng.choice(NONCODING_BIOTYPES)
        elif mode == "rna" and not coding:
            t["transcript_type"] = rng.choice(RNA_TYPES)
        elif mode == "differ":
            t["transcript_type"] = "protein_coding" if coding else rng.choice(NONCODING_BIOTYPES)
    if mode == "none":
        g["gene_type"] = None
    elif mode in ("alias", "rna", "differ"):
        any_coding = any(t["cds_starts"] is not None for t in g["transcripts"])
        g["gene_type"] = "protein_coding" if any_coding else (g["transcripts"][0]["transcript_type"] or "ncRNA")


def gen_rt_collection(rng, p=None):
    """single-strand genes with ONE transcript each (the round-trip quantifier).

    p: n_genes (1..4)  layout "sorted" (genes left to right, disjoint) | "free" (independent ranges, may overlap or
       share a start)  p_adjacent  frame_offsets  identifiers full|sparse  biotypes  n_fc  max_exons  gene_len
       tags "ascending" | "shuffled" | "dup" (two genes share a locus tag)
    """
    p = dict(p or {})
    ng = p.get("n_genes") or rng.randint(1, 4)
    gene_len = p.get("gene_len", 40)
    layout = p.get("layout", "sorted")
    L = p.get("genome_len") or (ng * (gene_len + 6) + 20)
    gp = dict(max_tx=1, max_exons=p.get("max_exons", 4), p_adjacent=p.get("p_adjacent", 0.0),
              p_coding=p.get("p_coding", 0.65), frame_offsets=p.get("frame_offsets", True), p_frameshift=0.0,
              qualifiers=p.get("qualifiers", "plain"), identifiers=p.get("identifiers", "full"), biotypes="same")
    genes = []
    pos = rng.randint(0, 6)
    for i in range(ng):
        if layout == "sorted":
            lo = pos
            hi = min(L, lo + rng.randint(8, gene_len))
            pos = hi + rng.randint(0, 5)
        else:
            lo = rng.randint(0, L - 10)
            hi = min(L, lo + rng.randint(8, gene_len))
        g = G.gen_gene(rng, i, lo, hi, "chr1", gp)
        _retype(rng, g, p.get("biotypes", "same"))
        genes.append(g)
    tags = p.get("tags", "ascending")
    if tags == "shuffled":
        order = list(range(ng))
        rng.shuffle(order)
        for g, k in zip(genes, order):
            if g["locus_tag"] is not None:
                g["locus_tag"] = f"LT_{k}"
    elif tags == "dup" and ng >= 2:
        genes[1]["locus_tag"] = genes[0]["locus_tag"]
    fcs = []
    for i in range(p.get("n_fc", 0)):
        a = rng.randint(0, L - 12)
        fc = G.gen_feature_collection(rng, i, a, min(L, a + rng.randint(6, 30)), "chr1",
                                      dict(qualifiers=gp["qualifiers"], max_features=2))
        st = rng.choice(["PLUS", "MINUS"])
        for f in fc["feature_intervals"]:
            f["strand"] = st                      # single-strand collections (the property's quantifier)
        fcs.append(fc)
    coll = dict(sequence_name="chr1", name=None, genes=genes, feature_collections=fcs)
    seq = random_seq(rng, L)
    for g in genes:
        for t in g["transcripts"]:
            if rng.random() < p.get("p_plant", 0.5):
                seq = plant_start(rng, seq, t)
    return coll, seq


def gen_w_collection(rng, p=None):
    """anything the writer accepts: several isoforms, mixed strands, unstranded features, reserved qualifier keys,
    biotype aliases, sparse identifiers, empty-string identifiers"""
    p = dict(p or {})
    L = p.get("genome_len", 140)
    ng = rng.randint(0 if p.get("n_fc") else 1, 3)
    gp = dict(max_tx=p.get("max_tx", 3), max_exons=4, p_adjacent=0.3, p_coding=0.6, frame_offsets=True,
              p_frameshift=0.15, qualifiers=rng.choice(["plain", "plain", "none", "adv"]),
              identifiers=rng.choice(["full", "sparse", "sparse"]), biotypes="same",
              key_pool=RESERVED_KEYS if rng.random() < 0.4 else None)
    genes = []
    for i in range(ng):
        lo = rng.randint(0, L - 14)
        g = G.gen_gene(rng, i, lo, min(L, lo + rng.randint(10, 60)), "chr1", gp)
        _retype(rng, g, rng.choice(["same", "none", "differ", "alias", "rna"]))
        if p.get("mixed_strands") and len(g["transcripts"]) > 1 and rng.random() < 0.5:
            for t in g["transcripts"]:
                if rng.random() < 0.4:
                    t["strand"] = "MINUS" if t["strand"] == "PLUS" else "PLUS"
                    if t["cds_frames"]:
                        t["cds_frames"] = list(reversed(t["cds_frames"]))
        if g["transcripts"][0]["cds_starts"] and rng.random() < 0.2:
            # a second isoform with the SAME CDS and other UTRs, neither isoform carrying an identifier of its own:
            # structurally identical CDS records that differ only in free-form qualifiers
            import copy
            t0 = g["transcripts"][0]
            t1 = copy.deepcopy(t0)
            t1["exon_starts"][0] = max(0, t1["exon_starts"][0] - rng.randint(1, 3))
            t1["exon_ends"][-1] = min(L, t1["exon_ends"][-1] + rng.randint(0, 2))
            t1["transcript_symbol"] = (t0.get("transcript_symbol") or "TS") + ".iso2"
            t1["is_primary_tx"] = False
            for t in (t0, t1):
                t["transcript_id"] = None
                t["protein_id"] = None
            g["transcripts"] = [t0, t1] + g["transcripts"][1:]
        if rng.random() < 0.1:
            g["gene_symbol"] = ""                 # falsy but not None
        if rng.random() < 0.1:
            g["locus_tag"] = ""
        if rng.random() < 0.05 and g["transcripts"][0]["cds_starts"]:
            g["transcripts"][0]["transcript_type"] = rng.choice(RNA_TYPES)   # a coding transcript typed as RNA
        genes.append(g)
    fcs = []
    for i in range(p.get("n_fc", 0)):
        a = rng.randint(0, L - 12)
        fc = G.gen_feature_collection(rng, i, a, min(L, a + rng.randint(6, 40)), "chr1",
                                      dict(qualifiers=gp["qualifiers"], max_features=3))
        if not p.get("mixed_strands"):
            st = rng.choice(["PLUS", "MINUS", "UNSTRANDED"])
            for f in fc["feature_intervals"]:
                f["strand"] = st
        fcs.append(fc)
    coll = dict(sequence_name="chr1", name=None, genes=genes, feature_collections=fcs)
    return coll, random_seq(rng, L)


# ------------------------------------------------------------------------------------------------------
# feature lists for the parser legs

def tx_type(tx):
    ty = tx["transcript_type"]
    if ty in RNA_TYPES:
        return ty
    return "mRNA" if tx["cds_starts"] else "misc_RNA"


def ref_records(coll, flavor, codon_start=True):
    """the documented feature layout as REC tuples (type, strand, parts, quals) — used only as INPUT of the parser
    legs (gene, mRNA/biotype key, CDS), with `/codon_start` written the way INSDC files do"""
    recs = []
    for g in sorted(coll["genes"], key=lambda g: min(t["exon_starts"][0] for t in g["transcripts"])):
        st = {"PLUS": "+", "MINUS": "-"}[g["transcripts"][0]["strand"]]
        lo = min(t["exon_starts"][0] for t in g["transcripts"])
        hi = max(t["exon_ends"][-1] for t in g["transcripts"])
        sym = g["gene_symbol"] or g["gene_id"]
        tag = g["locus_tag"] or sym
        base = {}
        if sym:
            base["gene"] = [sym]
        if tag:
            base["locus_tag"] = [tag]
        q = dict(base)
        if g["gene_id"]:
            q["gene_id"] = [g["gene_id"]]
        recs.append(("gene", st, [(lo, hi)], q))
        for t in g["transcripts"]:
            ty = tx_type(t)
            q = dict(base)
            if t["transcript_id"]:
                q["transcript_id"] = [t["transcript_id"]]
            ex = list(zip(t["exon_starts"], t["exon_ends"]))
            if not (ty == "mRNA" and flavor == "P"):
                recs.append((ty, st, ex, dict(q)))
            if ty == "mRNA" and t["cds_starts"]:
                q2 = dict(q)
                if t["protein_id"]:
                    q2["protein_id"] = [t["protein_id"]]
                sf = G.FRAME_NAMES.index(t["cds_frames"][0] if t["strand"] == "PLUS" else t["cds_frames"][-1])
                if codon_start and sf:
                    q2["codon_start"] = [str(sf + 1)]
                recs.append(("CDS", st, list(zip(t["cds_starts"], t["cds_ends"])), q2))
    return recs


def mutate_records(rng, recs, kinds):
    """input-space mutations of a feature list: shuffle, drop gene records, drop / duplicate / empty locus tags,
    retype, add exon / misc_feature / source records, unstranded or zero-length records, odd codon_start"""
    recs = [(ty, st, list(parts), {k: list(v) for k, v in q.items()}) for ty, st, parts, q in recs]
    for kind in kinds:
        if not recs:
            break
        i = rng.randrange(len(recs))
        ty, st, parts, q = recs[i]
        if kind == "shuffle":
            rng.shuffle(recs)
        elif kind == "swap" and len(recs) > 1:
            j = rng.randrange(len(recs) - 1)
            recs[j], recs[j + 1] = recs[j + 1], recs[j]
        elif kind == "drop-gene":
            gi = [k for k, r in enumerate(recs) if r[0] == "gene"]
            if gi:
                recs.pop(rng.choice(gi))
        elif kind == "drop":
            recs.pop(i)
        elif kind == "untag":
            q.pop("locus_tag", None)
        elif kind == "untag-all":
            for r in recs:
                r[3].pop("locus_tag", None)
        elif kind == "dup-tag" and len(recs) > 1:
            src = rng.choice(recs)
            if "locus_tag" in src[3]:
                gi = [k for k, r in enumerate(recs) if r[0] == "gene"]
                for k in (gi or [i])[:2]:
                    recs[k][3]["locus_tag"] = list(src[3]["locus_tag"])
        elif kind == "retype":
            recs[i] = (rng.choice(["gene", "mRNA", "CDS", "ncRNA", "tRNA", "misc_RNA", "exon", "tmRNA", "rRNA"]), st,
                       parts, q)
        elif kind == "add-exon":
            recs.insert(i, ("exon", st, [parts[0]], {k: list(v) for k, v in q.items() if k == "locus_tag"}))
        elif kind == "add-other":
            recs.insert(i, (rng.choice(["misc_feature", "source", "regulatory"]), st, [parts[0]], dict(q)))
        elif kind == "unstrand":
            recs[i] = (ty, ".", parts, q)
        elif kind == "zero-length":
            recs[i] = (ty, st, [(parts[0][0], parts[0][0])], q)
        elif kind == "codon-start":
            if ty == "CDS":
                q["codon_start"] = [rng.choice(["1", "2", "3", "0", "4", "x"])]
        elif kind == "pseudo":
            q["pseudo"] = [""]
        elif kind == "reverse-parts":
            recs[i] = (ty, st, list(reversed(parts)), q)
        elif kind == "widen-cds":
            if ty == "CDS":
                parts[0] = (max(0, parts[0][0] - rng.randint(1, 5)), parts[0][1])
                parts[-1] = (parts[-1][0], parts[-1][1] + rng.randint(1, 5))
        elif kind == "dup-record":
            recs.insert(i, (ty, st, list(parts), {k: list(v) for k, v in q.items()}))
        elif kind == "dup-cds-other-quals":
            # a second record with the same location that differs ONLY in free-form qualifiers (two isoforms with one
            # CDS and no identifiers of their own, as the prokaryotic flavour writes them)
            ci = [k for k, r in enumerate(recs) if r[0] in ("CDS", "mRNA", "tRNA", "ncRNA")]
            if ci:
                k = rng.choice(ci)
                ty2, st2, parts2, q2 = recs[k]
                for key in ("transcript_id", "protein_id"):
                    q2.pop(key, None)
                q3 = {kk: list(v) for kk, v in q2.items()}
                q3["note"] = ["isoform 2"]
                recs.insert(k + 1, (ty2, st2, list(parts2), q3))
    return recs


MUTATION_KINDS = ["shuffle", "swap", "drop-gene", "drop", "untag", "untag-all", "dup-tag", "retype", "add-exon",
                  "add-other", "unstrand", "zero-length", "codon-start", "pseudo", "reverse-parts", "widen-cds",
                  "dup-record", "dup-cds-other-quals"]


# ------------------------------------------------------------------------------------------------------
# chunk windows

WINDOW_KINDS = ["whole", "contain", "cut-cds", "cut-cds", "cut-exon", "cut-intron", "cut-two", "miss-gene", "random"]


def gen_window(rng, coll, L, kind=None):
    """a window [ws, we) of the chromosome [0, L) placed relative to the collection's genes:
    whole = [0, L); contain = all genes inside; cut-cds / cut-exon = one edge inside a CDS / exon block of some
    transcript (the other edge beyond the collection or inside another block); cut-intron = one edge between two
    blocks; cut-two = both edges inside blocks; miss-gene = a gene (partly: its CDS, an exon) left outside;
    random = anything non-empty.  Returns (ws, we, kind)"""
    kind = kind or rng.choice(WINDOW_KINDS)
    txs = [t for g in coll["genes"] for t in g["transcripts"]]
    lo = min([t["exon_starts"][0] for t in txs] + [f["interval_starts"][0] for fc in coll["feature_collections"]
                                                  for f in fc["feature_intervals"]] + [L - 1])
    hi = max([t["exon_ends"][-1] for t in txs] + [f["interval_ends"][-1] for fc in coll["feature_collections"]
                                                 for f in fc["feature_intervals"]] + [1])

    def inside(blocks):
        s, e = rng.choice(blocks)
        return rng.randint(s, e - 1) if rng.random() < 0.8 else rng.choice([s, e])

    def far(side):
        return rng.randint(0, lo) if side == 0 else rng.randint(hi, L)

    ws, we = 0, L
    coding = [t for t in txs if t["cds_starts"]]
    if kind == "contain":
        ws, we = far(0), far(1)
    elif kind in ("cut-cds", "cut-exon", "cut-two") and txs:
        t = rng.choice(coding) if (kind == "cut-cds" and coding) else rng.choice(txs)
        bl = list(zip(t["cds_starts"], t["cds_ends"])) if (kind == "cut-cds" and t["cds_starts"]) else \
            list(zip(t["exon_starts"], t["exon_ends"]))
        p = inside(bl)
        if kind == "cut-two":
            t2 = rng.choice(txs)
            q = inside(list(zip(t2["exon_starts"], t2["exon_ends"])))
            ws, we = min(p, q), max(p, q)
        elif rng.random() < 0.5:
            ws, we = p, (far(1) if rng.random() < 0.7 else rng.randint(p, L))
        else:
            ws, we = (far(0) if rng.random() < 0.7 else rng.randint(0, p)), p
    elif kind == "cut-intron" and txs:
        t = rng.choice(txs)
        ex = list(zip(t["exon_starts"], t["exon_ends"]))
        gaps = [(a[1], b[0]) for a, b in zip(ex, ex[1:]) if a[1] < b[0]]
        if gaps:
            s, e = rng.choice(gaps)
            p = rng.randint(s, e)
            ws, we = (p, far(1)) if rng.random() < 0.5 else (far(0), p)
    elif kind == "miss-gene" and txs:
        t = rng.choice(txs)
        if rng.random() < 0.5:
            ws = rng.randint(t["exon_starts"][0] + 1, min(L - 1, t["exon_ends"][-1] + 3))
        else:
            we = rng.randint(max(1, t["exon_starts"][0] - 3), t["exon_ends"][-1] - 1)
    elif kind == "random":
        ws = rng.randint(0, L - 1)
        we = rng.randint(ws + 1, L)
    ws, we = max(0, min(ws, L - 1)), min(L, we)
    if we <= ws:
        we = min(L, ws + 1 + rng.randint(0, 5))
    return ws, we, kind


def restrict_to_window(rng, coll, ws, we, p_keep_outside=0.0):
    """the collection a chunk is normally built with: genes / feature collections that have something to write inside
    [ws, we) — every transcript an exon base, every coding transcript a CDS base, every feature a base; the others are
    dropped (kept with probability p_keep_outside: the writer documents EmptyLocationException for them)"""
    def hit(starts, ends):
        return any(max(s, ws) < min(e, we) for s, e in zip(starts, ends))

    def gene_in(g):
        return all(hit(t["exon_starts"], t["exon_ends"]) and (not t["cds_starts"] or hit(t["cds_starts"], t["cds_ends"]))
                   for t in g["transcripts"])

    def fc_in(fc):
        return all(hit(f["interval_starts"], f["interval_ends"]) for f in fc["feature_intervals"])

    out = dict(coll)
    out["genes"] = [g for g in coll["genes"] if gene_in(g) or rng.random() < p_keep_outside]
    out["feature_collections"] = [fc for fc in coll["feature_collections"] if fc_in(fc) or rng.random() < p_keep_outside]
    return out
