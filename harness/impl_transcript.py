"""Implementation side of the C06 operations: tokens -> real TranscriptInterval -> canonical answer.

line:  <op> <P> <strand> <k> (s e)^k <cds> <args>     (see lean/BioCantor/Driver/Transcript.lean)
"""
import functools

from harness import shims
shims.install()
from harness.common import guarded, exc_token
from harness.impl_loc import Toks, show_loc, SYM

from inscripta.biocantor.gene.transcript import TranscriptInterval
from inscripta.biocantor.gene.cds import CDSInterval
from inscripta.biocantor.gene.cds_frame import CDSFrame
from inscripta.biocantor.location.location_impl import CompoundInterval
from inscripta.biocantor.parent import Parent, SequenceType
from inscripta.biocantor.sequence import Sequence, Alphabet

VEC_OPS = {"c2t", "t2c", "c2d", "d2c", "d2t", "t2d", "aa", "c2t2d", "rt_t", "rt_c", "rt_d", "rt_dc", "rt_td"}
LOC_OPS = {"utr5", "utr3", "introns", "span", "exloc", "cdsloc"}
IV_OPS = {"ci2t", "ti2c", "ci2d", "di2c"}


@functools.lru_cache(maxsize=64)
def chrom_parent(n):
    seq = ("ACGT" * (n // 4 + 1))[:n]
    return Parent(id="chr1", sequence=Sequence(seq, Alphabet.NT_EXTENDED_GAPPED, type=SequenceType.CHROMOSOME),
                  sequence_type=SequenceType.CHROMOSOME)


FRAMES = {"0": CDSFrame.ZERO, "1": CDSFrame.ONE, "2": CDSFrame.TWO}


def parse_tx_tokens(tk):
    """returns (plen or None, strand, exon pairs, cds pairs or None); `tk.frames` = cds_frames given on the line
    (`F f1 … fc` after the CDS blocks) or None"""
    p = tk.next()
    plen = None if p == "N" else int(p)
    st = tk.strand()
    k = tk.int()
    exons = [(tk.int(), tk.int()) for _ in range(k)]
    if tk.t[tk.i] == "nc":
        tk.next()
        cds = None
    else:
        c = tk.int()
        cds = [(tk.int(), tk.int()) for _ in range(c)]
    tk.frames = None
    if tk.i < len(tk.t) and tk.t[tk.i] == "F":
        tk.next()
        tk.frames = [FRAMES[tk.next()] for _ in range(len(cds or []))]
    return plen, st, exons, cds


def cds_kwargs(cds, st, given_frames):
    cs, ce = [s for s, _ in cds], [e for _, e in cds]
    if given_frames is not None:
        frames = list(given_frames)
    else:
        try:
            frames = CDSInterval.construct_frames_from_location(CompoundInterval(cs, ce, st), CDSFrame.ZERO)
        except Exception:  # noqa  (invalid CDS blocks: let the transcript constructor speak)
            frames = [CDSFrame.ZERO] * len(cds)
    return dict(cds_starts=cs, cds_ends=ce, cds_frames=frames)


@functools.lru_cache(maxsize=8)
def _build_cached(key):
    """key = the transcript part of the line; consecutive lines about one transcript reuse the object
    (as a caller of the library would); a constructor error is cached as the exception."""
    tk = Toks(key.split())
    plen, st, exons, cds = parse_tx_tokens(tk)
    try:
        parent = chrom_parent(plen) if plen is not None else None
        kw = {}
        if cds is not None:
            kw = cds_kwargs(cds, st, tk.frames)
        return TranscriptInterval([s for s, _ in exons], [e for _, e in exons], st,
                                  parent_or_seq_chunk_parent=parent, **kw), None
    except RecursionError:
        return None, "err! RecursionError"
    except Exception as e:  # noqa
        return None, exc_token(e)


def cell(f):
    try:
        return str(f())
    except RecursionError:
        return "X!RecursionError"
    except Exception as e:  # noqa
        tok = exc_token(e)
        return "x" if tok.startswith("err ") else "X!" + tok.split()[-1]


KVEC_OPS = {"kc2t", "kt2c", "kc2d", "kd2c", "kd2t", "kt2d", "kaa", "cr2t", "t2cr", "cr2d", "d2cr"}
KLOC_OPS = {"kutr5", "kutr3", "kloc", "kcdsloc"}
KIV_OPS = {"kci2t", "cri2t", "ti2cr", "cri2d", "di2cr"}
CHUNK_OPS = KVEC_OPS | KLOC_OPS | KIV_OPS


@functools.lru_cache(maxsize=8)
def _build_chunk_cached(key, ws, we, wst_sym, via_lift=False):
    """the same transcript built on the sequence chunk [ws, we) (strand wst) of the chromosome of length <P>;
    `via_lift` (lines marked ` @l`): the transcript is first built on the whole chromosome, asked every argument-less
    question (harness/warm.py) and only then brought onto the chunk with `liftover_to_parent_or_seq_chunk_parent` - the
    same mathematical object, reached through the library's own derivation"""
    from inscripta.biocantor.io.parser import seq_chunk_to_parent, seq_to_parent
    tk = Toks(key.split())
    plen, st, exons, cds = parse_tx_tokens(tk)
    try:
        n = max([plen or 0, we] + [e for _, e in exons])
        seq = ("ACGT" * (n // 4 + 1))[:n]
        parent = seq_chunk_to_parent(seq[ws:we], "chr1", ws, we, SYM[wst_sym])
        kw = {}
        if cds is not None:
            kw = cds_kwargs(cds, st, tk.frames)
        if via_lift:
            from harness import warm
            whole = TranscriptInterval([s for s, _ in exons], [e for _, e in exons], st,
                                       parent_or_seq_chunk_parent=seq_to_parent(seq, seq_id="chr1"), **kw)
            warm.ask_everything(whole)
            return whole.liftover_to_parent_or_seq_chunk_parent(parent), None
        return TranscriptInterval([s for s, _ in exons], [e for _, e in exons], st,
                                  parent_or_seq_chunk_parent=parent, **kw), None
    except RecursionError:
        return None, "err! RecursionError"
    except Exception as e:  # noqa
        return None, exc_token(e)


def impl_chunk_op(op, key, tk, via_lift=False):
    ws, we, wst = tk.int(), tk.int(), tk.next()
    tx, err = _build_chunk_cached(key, ws, we, wst, via_lift)
    if err is not None:
        return err

    def point(fn):
        lo, hi = tk.int(), tk.int()
        return "ok " + " ".join(cell(lambda p=p: fn(p)) for p in range(lo, hi + 1))

    def go():
        if op in KVEC_OPS:
            fn = {"kc2t": tx.sequence_pos_to_transcript, "kt2c": tx.transcript_pos_to_sequence,
                  "kc2d": tx.sequence_pos_to_cds, "kd2c": tx.cds_pos_to_sequence,
                  "kd2t": tx.cds_pos_to_transcript, "kt2d": tx.transcript_pos_to_cds,
                  "kaa": (lambda p: tx.cds.sequence_pos_to_amino_acid(p)),
                  "cr2t": tx.chunk_relative_pos_to_transcript, "t2cr": tx.transcript_pos_to_chunk_relative,
                  "cr2d": tx.chunk_relative_pos_to_cds, "d2cr": tx.cds_pos_to_chunk_relative}[op]
            return point(fn)
        if op == "kutr5":
            return "ok " + show_loc(tx.get_5p_interval())
        if op == "kutr3":
            return "ok " + show_loc(tx.get_3p_interval())
        if op == "kloc":
            return "ok " + show_loc(tx.chunk_relative_location)
        if op == "kcdsloc":
            return "ok " + show_loc(tx.cds_chunk_relative_location)
        s, e, st = tk.int(), tk.int(), tk.strand()
        fn = {"kci2t": tx.sequence_interval_to_transcript, "cri2t": tx.chunk_relative_interval_to_transcript,
              "ti2cr": tx.transcript_interval_to_chunk_relative, "cri2d": tx.chunk_relative_interval_to_cds,
              "di2cr": tx.cds_interval_to_chunk_relative}[op]
        return "ok " + show_loc(fn(s, e, st))

    return guarded(go)


LIFT_MARK = " @l"


def impl_tx_op(line):
    via_lift = line.endswith(LIFT_MARK)
    if via_lift:
        line = line[:-len(LIFT_MARK)]
    toks = line.split()
    tk = Toks(toks)
    op = tk.next()
    start = tk.i
    parse_tx_tokens(tk)
    key = " ".join(toks[start:tk.i])
    if op in CHUNK_OPS:
        # the chunk-built twin is addressed by its own ops (kc2t … = the chromosome-level methods of the twin,
        # whose required answers are those of the chromosome-built transcript: Props/C06.lean chunk_built_*)
        return impl_chunk_op(op, key, tk, via_lift)
    tx, err = _build_cached(key)
    if err is not None:
        return err

    def point(fn):
        lo, hi = tk.int(), tk.int()
        return "ok " + " ".join(cell(lambda p=p: fn(p)) for p in range(lo, hi + 1))

    def go():
        if op in VEC_OPS:
            if op == "c2t":
                return point(tx.sequence_pos_to_transcript)
            if op == "t2c":
                return point(tx.transcript_pos_to_sequence)
            if op == "c2d":
                return point(tx.sequence_pos_to_cds)
            if op == "d2c":
                return point(tx.cds_pos_to_sequence)
            if op == "d2t":
                return point(tx.cds_pos_to_transcript)
            if op == "t2d":
                return point(tx.transcript_pos_to_cds)
            if op == "aa":
                return point(lambda p: tx.cds.sequence_pos_to_amino_acid(p))
            if op == "c2t2d":
                return point(lambda p: tx.transcript_pos_to_cds(tx.sequence_pos_to_transcript(p)))
            if op == "rt_t":
                return point(lambda r: tx.sequence_pos_to_transcript(tx.transcript_pos_to_sequence(r)))
            if op == "rt_c":
                return point(lambda p: tx.transcript_pos_to_sequence(tx.sequence_pos_to_transcript(p)))
            if op == "rt_d":
                return point(lambda c: tx.transcript_pos_to_cds(tx.cds_pos_to_transcript(c)))
            if op == "rt_dc":
                return point(lambda c: tx.sequence_pos_to_cds(tx.cds_pos_to_sequence(c)))
            if op == "rt_td":
                return point(lambda r: tx.cds_pos_to_transcript(tx.transcript_pos_to_cds(r)))
        if op == "utr5":
            return "ok " + show_loc(tx.get_5p_interval())
        if op == "utr3":
            return "ok " + show_loc(tx.get_3p_interval())
        if op == "introns":
            return "ok " + show_loc(tx.chromosome_gaps_location)
        if op == "span":
            return "ok " + show_loc(tx.chromosome_span)
        if op == "exloc":
            return "ok " + show_loc(tx.chromosome_location)
        if op == "cdsloc":
            return "ok " + show_loc(tx.cds_location)
        if op in IV_OPS:
            s, e, st = tk.int(), tk.int(), tk.strand()
            if op == "ci2t":
                return "ok " + show_loc(tx.sequence_interval_to_transcript(s, e, st))
            if op == "ti2c":
                return "ok " + show_loc(tx.transcript_interval_to_sequence(s, e, st))
            if op == "ci2d":
                return "ok " + show_loc(tx.sequence_interval_to_cds(s, e, st))
            if op == "di2c":
                return "ok " + show_loc(tx.cds_interval_to_sequence(s, e, st))
        raise KeyError(op)

    return guarded(go)
