"""Implementation side of the C07 operations: the SAME interval is built twice with the real library — on the whole
chromosome (`seq_to_parent`) and on a sequence chunk (`seq_chunk_to_parent`) — and the answers of the chunk-built twin
(and, where only a comparison is meaningful, the comparison with the chromosome-built twin) are printed canonically.

Op line:      <op> <chromosome letters> <ws> <we> <wst + | -> <OBJ>

  chunk = chromosome[ws:we] (reverse-complemented when the chunk lies on the minus strand), handed to
  `seq_chunk_to_parent(chunk, "chr1", ws, we, strand)`; whole chromosome = `seq_to_parent(letters, seq_id="chr1")`.

OBJ (recursive literal; coordinates are chromosome coordinates, in the order given to the constructor):
    F <strand> <k> (s e){k}                            FeatureInterval
    T <strand> <k> (s e){k} <kc> (cs ce frame){kc}     TranscriptInterval (kc = 0: non-coding)
    D <strand> <kc> (cs ce frame){kc}                  CDSInterval
    G <n> T…{n}                                        GeneInterval
    Q <n> F…{n}                                        FeatureIntervalCollection
    A <ng> G…{ng} <nq> Q…{nq} <B s e | N>              AnnotationCollection (explicit bounds or none)

Nodes are listed in pre-order: A, its genes (G, then each T followed by its CDS node D — or `X` when the transcript was
requested coding but holds no CDS object), its feature collections (Q, then each F).

Operations (answers about the CHUNK-built twin unless said otherwise):
    loc      per node: <tag> <start> <end> <chromosome_location> <chunk_relative_location>
    ident    <to_dict() of the twins equal 0|1 (entries holding an object's own digest left out)> then per node
             <guid of the twins equal 0|1>
    seq      per node (not D): get_spliced_sequence() for F/T, get_reference_sequence() for G/Q/A   s:<letters> | x | X!<cls>
    ccodons  (D / coding T) num_codons and chromosome_codon_locations
    kcodons  (D / coding T) chunk_relative_codon_locations
    cdsseq   (D / coding T) extract_sequence()
    prot     (D / coding T) translate()   (default table, strict)
    kframes  (D / coding T) chunk_relative_frames
    kwcodons (D / coding T) scan_chunk_relative_codon_locations(lo, hi); the line carries `<lo> <hi>` after the OBJ
    cwcodons (D / coding T) scan_chromosome_codon_locations(lo, hi) of the chunk-built twin; `<lo> <hi>` after the OBJ
    same     (needs via:) the alternatively constructed object against the ORDINARY construction on the same chunk, per
             node `<tag> <loc><crl><dict><guid><seq>` (1 equal / 0 different: chromosome blocks+strand+start+end,
             chunk-relative location, to_dict() without identifier / is_primary entries, guid (`-` for G / Q / A: their
             digest reads the chunk-relative location, F-C07a, and from_dict copies the source's), spliced / reference
             sequence; `-` for the sequence of a CDS node)
             then `| <frames><cdsseq><prot>` for the CDS of a root D / coding T (`-` otherwise)
    order    `<lo> <hi>` after the OBJ: every observable of every node, evaluated on two fresh chunk-built objects:
             `ck` chromosome-level views first, then chunk-relative views; `kc` the other way round.  Answer
             `ok <cells> | <cells>` (order ck, order kc); a cell is `;<name> <canonical text>`

Optional trailing modifiers (in this order, after the op's own extra tokens):
    via:<ctor>   the chunk-built twin is made by an ALTERNATIVE constructor; every op then asks the same question
        fcrl        Cls.from_chunk_relative_location(<the object's location written in chunk coordinates>) — F / T / D whose
                    blocks lie inside the chunk (a coding T: cds = CDSInterval.from_chunk_relative_location(...))
        dict        Cls.from_dict(<whole-chromosome twin>.to_dict(), parent_or_seq_chunk_parent=chunk)
        lift        <whole-chromosome twin>.liftover_to_parent_or_seq_chunk_parent(chunk)
        relift      <twin built on the chunk [0, L) of the OPPOSITE strand>.liftover_to_parent_or_seq_chunk_parent(chunk)
        snv:<p>     <object built on the chunk of the chromosome that differs at position p>.incorporate_variants(SNV at
                    p restoring the line's letter) — F / T / D inside the chunk; coordinates are untouched
    @k | @c      before the op's own question the chunk-relative (@k) / chromosome-level (@c) views of every node of the
                 same object are evaluated (and dropped): the answer must not depend on it
"""
from harness import shims
shims.install()
from harness.common import guarded, exc_token
from harness.impl_loc import Toks, show_loc, SYM

import inscripta.biocantor  # noqa
from inscripta.biocantor.gene.cds import CDSInterval
from inscripta.biocantor.gene.cds_frame import CDSFrame
from inscripta.biocantor.gene.collections import AnnotationCollection
from inscripta.biocantor.gene.feature import FeatureInterval, FeatureIntervalCollection
from inscripta.biocantor.gene.gene import GeneInterval
from inscripta.biocantor.gene.transcript import TranscriptInterval
from inscripta.biocantor.gene.variants import VariantInterval
from inscripta.biocantor.io.parser import seq_chunk_to_parent, seq_to_parent
from inscripta.biocantor.location import SingleInterval, CompoundInterval, Strand
import hashlib
import json

COMP = {"A": "T", "C": "G", "G": "C", "T": "A", "N": "N", "a": "t", "c": "g", "g": "c", "t": "a", "n": "n",
        "R": "Y", "Y": "R", "S": "S", "W": "W", "K": "M", "M": "K"}
CHROM = "chr1"


def revcomp(s):
    return "".join(COMP[c] for c in reversed(s))


# ---------------------------------------------------------------------------------------------- literals

def parse_obj(tk):
    """tokens -> nested description (no library object yet)"""
    tag = tk.next()
    if tag == "F":
        st = tk.strand()
        k = tk.int()
        return ("F", st, [(tk.int(), tk.int()) for _ in range(k)])
    if tag == "T":
        st = tk.strand()
        k = tk.int()
        ex = [(tk.int(), tk.int()) for _ in range(k)]
        kc = tk.int()
        cds = [(tk.int(), tk.int(), tk.int()) for _ in range(kc)]
        return ("T", st, ex, cds)
    if tag == "D":
        st = tk.strand()
        kc = tk.int()
        return ("D", st, [(tk.int(), tk.int(), tk.int()) for _ in range(kc)])
    if tag == "G":
        n = tk.int()
        return ("G", [parse_obj(tk) for _ in range(n)])
    if tag == "Q":
        n = tk.int()
        return ("Q", [parse_obj(tk) for _ in range(n)])
    if tag == "A":
        ng = tk.int()
        genes = [parse_obj(tk) for _ in range(ng)]
        nq = tk.int()
        fics = [parse_obj(tk) for _ in range(nq)]
        b = tk.next()
        bounds = (tk.int(), tk.int()) if b == "B" else None
        return ("A", genes, fics, bounds)
    raise KeyError(tag)


def enc_obj(d):
    tag = d[0]
    if tag == "F":
        return f"F {d[1]} {len(d[2])} " + " ".join(f"{s} {e}" for s, e in d[2])
    if tag == "T":
        out = f"T {d[1]} {len(d[2])} " + " ".join(f"{s} {e}" for s, e in d[2]) + f" {len(d[3])}"
        if d[3]:
            out += " " + " ".join(f"{s} {e} {f}" for s, e, f in d[3])
        return out
    if tag == "D":
        return f"D {d[1]} {len(d[2])} " + " ".join(f"{s} {e} {f}" for s, e, f in d[2])
    if tag in "GQ":
        return f"{tag} {len(d[1])} " + " ".join(enc_obj(x) for x in d[1])
    if tag == "A":
        out = f"A {len(d[1])}" + "".join(" " + enc_obj(x) for x in d[1]) + f" {len(d[2])}" + \
              "".join(" " + enc_obj(x) for x in d[2])
        return out + (f" B {d[3][0]} {d[3][1]}" if d[3] else " N")
    raise KeyError(tag)


def build(d, parent):
    """description -> real object on `parent` (constructor errors propagate)"""
    tag = d[0]
    if tag == "F":
        return FeatureInterval([s for s, _ in d[2]], [e for _, e in d[2]], d[1], parent_or_seq_chunk_parent=parent)
    if tag == "T":
        kw = {}
        if d[3]:
            kw = dict(cds_starts=[s for s, _, _ in d[3]], cds_ends=[e for _, e, _ in d[3]],
                      cds_frames=[CDSFrame(f) for _, _, f in d[3]])
        return TranscriptInterval([s for s, _ in d[2]], [e for _, e in d[2]], d[1],
                                  parent_or_seq_chunk_parent=parent, **kw)
    if tag == "D":
        return CDSInterval([s for s, _, _ in d[2]], [e for _, e, _ in d[2]], d[1], [CDSFrame(f) for _, _, f in d[2]],
                           parent_or_seq_chunk_parent=parent)
    if tag == "G":
        return GeneInterval([build(x, parent) for x in d[1]], parent_or_seq_chunk_parent=parent)
    if tag == "Q":
        return FeatureIntervalCollection([build(x, parent) for x in d[1]], parent_or_seq_chunk_parent=parent)
    if tag == "A":
        kw = dict(start=d[3][0], end=d[3][1]) if d[3] else {}
        return AnnotationCollection(feature_collections=[build(x, parent) for x in d[2]],
                                    genes=[build(x, parent) for x in d[1]], parent_or_seq_chunk_parent=parent, **kw)
    raise KeyError(tag)


def nodes(d, o):
    """pre-order (tag, description, object) triples"""
    tag = d[0]
    yield (tag, d, o)
    if tag == "T":
        if d[3]:
            yield ("D", ("D", d[1], d[3]), o.cds) if o.cds is not None else ("X", None, None)
    elif tag == "G":
        for dd, oo in zip(d[1], o.transcripts):
            yield from nodes(dd, oo)
    elif tag == "Q":
        for dd, oo in zip(d[1], o.feature_intervals):
            yield from nodes(dd, oo)
    elif tag == "A":
        for dd, oo in zip(d[1], o.genes):
            yield from nodes(dd, oo)
        for dd, oo in zip(d[2], o.feature_collections):
            yield from nodes(dd, oo)


# ---------------------------------------------------------------------------------------------- parents, constructors

def mk_chunk(letters, ws, we, wst):
    piece = letters[ws:we] if wst == "+" else revcomp(letters[ws:we])
    return seq_chunk_to_parent(piece, CHROM, ws, we, SYM[wst])


def rel_location(blocks, strand, ws, we, wst, parent):
    """chromosome blocks inside the window [ws, we), written in the coordinates of the chunk (plain arithmetic, no
    library lift): + chunk: shift by ws; - chunk: mirror about we and flip the strand"""
    if wst == "+":
        bl, st = [(a - ws, b - ws) for a, b in blocks], strand
    else:
        bl, st = sorted((we - b, we - a) for a, b in blocks), strand.reverse()
    if len(bl) == 1:
        return SingleInterval(bl[0][0], bl[0][1], st, parent=parent)
    return CompoundInterval([a for a, _ in bl], [b for _, b in bl], st, parent=parent)


ROT = {"A": "C", "C": "G", "G": "T", "T": "A", "N": "A"}
CLS = {"F": FeatureInterval, "T": TranscriptInterval, "D": CDSInterval, "G": GeneInterval,
       "Q": FeatureIntervalCollection, "A": AnnotationCollection}


def from_chunk_relative(d, ws, we, wst, chunk):
    tag = d[0]
    if tag == "F":
        return FeatureInterval.from_chunk_relative_location(rel_location(d[2], d[1], ws, we, wst, chunk))
    if tag == "D":
        return CDSInterval.from_chunk_relative_location(
            rel_location([(s, e) for s, e, _ in d[2]], d[1], ws, we, wst, chunk), [CDSFrame(f) for _, _, f in d[2]])
    if tag == "T":
        cds = None
        if d[3]:
            cds = CDSInterval.from_chunk_relative_location(
                rel_location([(s, e) for s, e, _ in d[3]], d[1], ws, we, wst, chunk), [CDSFrame(f) for _, _, f in d[3]])
        return TranscriptInterval.from_chunk_relative_location(rel_location(d[2], d[1], ws, we, wst, chunk), cds=cds)
    raise KeyError("via:fcrl " + tag)


def build_via(d, letters, ws, we, wst, via):
    """the chunk twin through an alternative constructor"""
    chunk = mk_chunk(letters, ws, we, wst)
    if via == "fcrl":
        return from_chunk_relative(d, ws, we, wst, chunk)
    if via == "dict":
        return CLS[d[0]].from_dict(build(d, seq_to_parent(letters, seq_id=CHROM)).to_dict(), chunk)
    if via == "lift":
        return build(d, seq_to_parent(letters, seq_id=CHROM)).liftover_to_parent_or_seq_chunk_parent(chunk)
    if via == "relift":
        other = mk_chunk(letters, 0, len(letters), "-" if wst == "+" else "+")
        return build(d, other).liftover_to_parent_or_seq_chunk_parent(chunk)
    if via.startswith("snv:"):
        if d[0] not in "FTD":
            raise KeyError("via:snv " + d[0])
        p = int(via[4:])
        before = letters[:p] + ROT[letters[p].upper()] + letters[p + 1:]
        chunk0 = mk_chunk(before, ws, we, wst)
        variant = VariantInterval(p, p + 1, letters[p], "SNV", parent_or_seq_chunk_parent=chunk0)
        return build(d, chunk0).incorporate_variants(variant)
    raise KeyError("via:" + via)


def split_mods(key):
    """strip the trailing modifiers `via:<ctor>` and `@k|@c`"""
    toks = key.split(" ")
    pre = via = None
    if toks and toks[-1] in ("@k", "@c"):
        pre = toks.pop()[1]
    if toks and toks[-1].startswith("via:"):
        via = toks.pop()[4:]
    return " ".join(toks), via, pre


def _twins(key, via=None):
    """key = "<letters> <ws> <we> <wst> <OBJ…>"; returns (head, description, chromosome twin, chunk twin, None) or an error
    token in the last place.  Fresh objects for every op line: no answer depends on an earlier question."""
    tk = Toks(key.split())
    letters = tk.next()
    ws, we, wst = tk.int(), tk.int(), tk.next()
    d = parse_obj(tk)
    if not tk.done():
        raise ValueError("trailing tokens")
    hd = (letters, ws, we, wst)
    try:
        whole = seq_to_parent(letters, seq_id=CHROM)
        a = build(d, whole)
        b = build(d, mk_chunk(letters, ws, we, wst)) if via is None else build_via(d, letters, ws, we, wst, via)
        return hd, d, a, b, None
    except RecursionError:
        return hd, d, None, None, "err! RecursionError"
    except Exception as e:  # noqa
        return hd, d, None, None, exc_token(e)


# entries of a `to_dict()` that hold the object's own digest; they are compared per node (second part of `ident`)
DIGEST_KEYS = {"gene_guid", "feature_collection_guid", "variant_collection_guid", "transcript_interval_guid",
               "feature_interval_guid", "variant_interval_guid"}


def strip_digests(v):
    if isinstance(v, dict):
        return {k: strip_digests(x) for k, x in v.items() if k not in DIGEST_KEYS}
    if isinstance(v, (list, tuple)):
        return [strip_digests(x) for x in v]
    return v


METADATA_KEYS = {"is_primary_tx", "is_primary_feature"}


def coord_dict(v):
    """a `to_dict()` without identifier entries (compared on their own) and without the primary flags, which
    incorporate_variants turns from None into False (metadata: C08 / C13)"""
    if isinstance(v, dict):
        return {k: coord_dict(x) for k, x in v.items() if k not in DIGEST_KEYS and k not in METADATA_KEYS}
    if isinstance(v, (list, tuple)):
        return [coord_dict(x) for x in v]
    return v


def cell(f):
    try:
        return f()
    except RecursionError:
        return "X!RecursionError"
    except Exception as e:  # noqa
        tok = exc_token(e)
        return "x" if tok.startswith("err ") else "X!" + tok.split()[-1]


def _coding(d, o):
    """the CDSInterval an op about codons speaks of"""
    if d[0] == "D":
        return o
    if d[0] == "T":
        if o.cds is None:
            raise TypeError("transcript holds no CDS object")      # -> err! (never expected)
        return o.cds
    raise KeyError(d[0])


def show_locs(locs):
    locs = list(locs)
    return f"{len(locs)}" + "".join(" " + show_loc(l) for l in locs)


# ---------------------------------------------------------------------------------------------- views of one object

def digest_text(v):
    return hashlib.md5(json.dumps(v, sort_keys=True, default=str).encode()).hexdigest()[:12]


def chromosome_views(d, o, win):
    """every chromosome-level observable of every node, name -> canonical text"""
    out = {}
    for i, (tag, dd, n) in enumerate(nodes(d, o)):
        if tag == "X":
            continue
        k = f"{i}{tag}"
        out[k + ".span"] = cell(lambda: f"{n.start} {n.end} {show_loc(n.chromosome_location)}")
        out[k + ".to_dict"] = cell(lambda: digest_text(n.to_dict()))
        out[k + ".guid"] = cell(lambda: str(n.guid))
        if tag == "D":
            out[k + ".frames"] = cell(lambda: "f" + "".join(str(f.value) for f in n.frames))
            out[k + ".num_codons"] = cell(lambda: str(n.num_codons))
            out[k + ".chromosome_codon_locations"] = cell(lambda: show_locs(n.chromosome_codon_locations))
            out[k + ".scan_chromosome_codon_locations"] = cell(
                lambda: show_locs(n.scan_chromosome_codon_locations(win[0], win[1])))
    return out


def chunk_views(d, o, win):
    """every chunk-relative observable of every node, name -> canonical text"""
    out = {}
    for i, (tag, dd, n) in enumerate(nodes(d, o)):
        if tag == "X":
            continue
        k = f"{i}{tag}"
        out[k + ".chunk_relative_location"] = cell(lambda: show_loc(n.chunk_relative_location))
        if tag in "FTD":
            out[k + ".to_dict_chunk"] = cell(lambda: digest_text(n.to_dict(chromosome_relative_coordinates=False)))
        if tag in "FT":
            out[k + ".spliced"] = cell(lambda: "s:" + str(n.get_spliced_sequence()))
        elif tag in "GQA":
            out[k + ".reference"] = cell(lambda: "s:" + str(n.get_reference_sequence()))
        if tag == "D":
            out[k + ".num_chunk_relative_codons"] = cell(lambda: str(n.num_chunk_relative_codons))
            out[k + ".chunk_relative_codon_locations"] = cell(lambda: show_locs(n.chunk_relative_codon_locations))
            out[k + ".scan_chunk_relative_codon_locations"] = cell(
                lambda: show_locs(n.scan_chunk_relative_codon_locations(win[0], win[1])))
            out[k + ".extract_sequence"] = cell(lambda: "s:" + str(n.extract_sequence()))
            out[k + ".translate"] = cell(lambda: "s:" + str(n.translate()))
            out[k + ".chunk_relative_frames"] = cell(lambda: "f" + "".join(str(f.value) for f in n.chunk_relative_frames))
    return out


def default_window(d):
    bl = []

    def walk(x):
        if x[0] == "F":
            bl.extend(x[2])
        elif x[0] == "T":
            bl.extend(x[2])
        elif x[0] == "D":
            bl.extend((s, e) for s, e, _ in x[2])
        elif x[0] in "GQ":
            for y in x[1]:
                walk(y)
        else:
            for y in x[1] + x[2]:
                walk(y)
    walk(d)
    return (min(s for s, _ in bl), max(e for _, e in bl)) if bl else (0, 1)


def ordered_views(d, o, win, order):
    """`ck`: chromosome-level views first; `kc`: chunk-relative views first.  Printed in one fixed order."""
    if order == "ck":
        c = chromosome_views(d, o, win)
        k = chunk_views(d, o, win)
    else:
        k = chunk_views(d, o, win)
        c = chromosome_views(d, o, win)
    out = dict(c)
    out.update(k)
    return " ".join(f";{name} {out[name]}" for name in sorted(out))


def same_flags(d, hd, y):
    """alternatively constructed `y` against the ordinary construction on a fresh, identical chunk"""
    letters, ws, we, wst = hd
    x = build(d, mk_chunk(letters, ws, we, wst))
    nx, ny = list(nodes(d, x)), list(nodes(d, y))
    out = []
    flag = lambda b: "1" if b else "0"
    for (tx, _, ox), (ty, _, oy) in zip(nx, ny):
        if tx == "X" or ty == "X":
            out.append("X " + ("11111" if tx == ty else "00000"))
            continue
        loc = (ox.start, ox.end, show_loc(ox.chromosome_location)) == (oy.start, oy.end, show_loc(oy.chromosome_location))
        crl = show_loc(ox.chunk_relative_location) == show_loc(oy.chunk_relative_location)
        dic = coord_dict(ox.to_dict()) == coord_dict(oy.to_dict())
        gid = "-" if tx in "GQA" else flag(ox.guid == oy.guid)
        if tx == "D":
            sq = "-"
        else:
            fx = ox.get_spliced_sequence if tx in "FT" else ox.get_reference_sequence
            fy = oy.get_spliced_sequence if ty in "FT" else oy.get_reference_sequence
            sq = flag(cell(lambda: "s:" + str(fx())) == cell(lambda: "s:" + str(fy())))
        out.append(f"{ty} {flag(loc)}{flag(crl)}{flag(dic)}{gid}{sq}")
    if len(nx) != len(ny):
        out.append("X 00000")
    if d[0] == "D" or (d[0] == "T" and d[3]):
        cx, cy = _coding(d, x), _coding(d, y)
        fr = [f.value for f in cx.frames] == [f.value for f in cy.frames]
        cs = cell(lambda: "s:" + str(cx.extract_sequence())) == cell(lambda: "s:" + str(cy.extract_sequence()))
        pr = cell(lambda: "s:" + str(cx.translate())) == cell(lambda: "s:" + str(cy.translate()))
        out.append(f"| {flag(fr)}{flag(cs)}{flag(pr)}")
    else:
        out.append("| ---")
    return " ".join(out)


def impl_chunk_op(line):
    op, _, key = line.partition(" ")
    key, via, pre = split_mods(key)
    win = None
    if op in ("kwcodons", "cwcodons", "order"):
        key, lo, hi = key.rsplit(" ", 2)
        win = (int(lo), int(hi))
    hd, d, a, b, err = _twins(key, via)
    if err is not None:
        return err

    def go():
        if op == "order":
            b2 = build(d, mk_chunk(*hd)) if via is None else build_via(d, *hd, via)
            return "ok " + ordered_views(d, b, win, "ck") + " | " + ordered_views(d, b2, win, "kc")
        if pre is not None:
            # the other views of the same object first; whatever they answer (or raise) is dropped
            w = win or default_window(d)
            (chunk_views if pre == "k" else chromosome_views)(d, b, w)
        if op == "same":
            return "ok " + same_flags(d, hd, b)
        if op == "loc":
            out = []
            for tag, _, o in nodes(d, b):
                if tag == "X":
                    out.append("X")
                else:
                    out.append(f"{tag} {o.start} {o.end} {show_loc(o.chromosome_location)} "
                               f"{show_loc(o.chunk_relative_location)}")
            return "ok " + " ".join(out)
        if op == "ident":
            norm = coord_dict if (via or "").startswith("snv") else strip_digests     # (is_primary_*: see coord_dict)
            deq = norm(a.to_dict()) == norm(b.to_dict())
            out = [str(int(deq))]
            na, nb = list(nodes(d, a)), list(nodes(d, b))
            for (ta, _, oa), (tb, _, ob) in zip(na, nb):
                if ta == "X" or tb == "X":
                    out.append("1" if ta == tb else "0")
                else:
                    out.append(str(int(oa.guid == ob.guid)))
            return "ok " + " ".join(out)
        if op == "seq":
            out = []
            for tag, _, o in nodes(d, b):
                if tag in "DX":
                    continue
                fn = o.get_spliced_sequence if tag in "FT" else o.get_reference_sequence
                out.append(cell(lambda fn=fn: "s:" + str(fn())))
            return "ok " + " ".join(out)
        c = _coding(d, b)
        if op == "ccodons":
            n = c.num_codons
            return f"ok {n} " + show_locs(c.chromosome_codon_locations)
        if op == "kcodons":
            return "ok " + show_locs(c.chunk_relative_codon_locations)
        if op == "kwcodons":
            return "ok " + show_locs(c.scan_chunk_relative_codon_locations(win[0], win[1]))
        if op == "cwcodons":
            return "ok " + show_locs(c.scan_chromosome_codon_locations(win[0], win[1]))
        if op == "cdsseq":
            return "ok s:" + str(c.extract_sequence())
        if op == "prot":
            return "ok s:" + str(c.translate())
        if op == "kframes":
            return "ok" + "".join(f" {f.value}" for f in c.chunk_relative_frames)
        raise KeyError(op)

    return guarded(go)
