"""Implementation side of the C07 operations: the SAME interval is built twice with the real library — on the whole
chromosome (`seq_to_parent`) and on a sequence chunk (`seq_chunk_to_parent`) — and the answers of the chunk-built twin
(and, where only a comparison is meaningful, the comparison with the chromosome-built twin) are printed canonically.

Op line:      <op> <chromosome letters> <ws> <we> <wst + | -> <OBJ>

  chunk = chromosome[ws:we] (reverse-complemented when the chunk lies on the minus strand), handed to
  `seq_chunk_to_parent(chunk, "chr1", ws, we, strand)`; whole chromosome = `seq_to_parent(letters, seq_id="chr1")`.

OBJ (recursive literal; coordinates are chromosome coordinates, in the order given to the constructor):
    F <strand> <k> (s e){k}                            FeatureInterval
    T <strand> <k> (s e){k} <kc> (cs ce frame){kc}     TranscriptInterval (kc = 0: non-coding)
    D <strand> <kc> (cs ce frame){kc}                  CDSInterval
    G <n> T…{n}                                        GeneInterval
    Q <n> F…{n}                                        FeatureIntervalCollection
    A <ng> G…{ng} <nq> Q…{nq} <B s e | N>              AnnotationCollection (explicit bounds or none)

Nodes are listed in pre-order: A, its genes (G, then each T followed by its CDS node D — or `X` when the transcript was
requested coding but holds no CDS object), its feature collections (Q, then each F).

Operations (answers about the CHUNK-built twin unless said otherwise):
    loc      per node: <tag> <start> <end> <chromosome_location> <chunk_relative_location>
    ident    <to_dict() of the twins equal 0|1 (entries holding an object's own digest left out)> then per node
             <guid of the twins equal 0|1>
    seq      per node (not D): get_spliced_sequence() for F/T, get_reference_sequence() for G/Q/A   s:<letters> | x | X!<cls>
    ccodons  (D / coding T) num_codons and chromosome_codon_locations
    kcodons  (D / coding T) chunk_relative_codon_locations
    cdsseq   (D / coding T) extract_sequence()
    prot     (D / coding T) translate()   (default table, strict)
    kframes  (D / coding T) chunk_relative_frames
    kwcodons (D / coding T) scan_chunk_relative_codon_locations(lo, hi); the line carries `<lo> <hi>` after the OBJ
"""
from harness import shims
shims.install()
from harness.common import guarded, exc_token
from harness.impl_loc import Toks, show_loc, SYM

import inscripta.biocantor  # noqa
from inscripta.biocantor.gene.cds import CDSInterval
from inscripta.biocantor.gene.cds_frame import CDSFrame
from inscripta.biocantor.gene.collections import AnnotationCollection
from inscripta.biocantor.gene.feature import FeatureInterval, FeatureIntervalCollection
from inscripta.biocantor.gene.gene import GeneInterval
from inscripta.biocantor.gene.transcript import TranscriptInterval
from inscripta.biocantor.io.parser import seq_chunk_to_parent, seq_to_parent

COMP = {"A": "T", "C": "G", "G": "C", "T": "A", "N": "N", "a": "t", "c": "g", "g": "c", "t": "a", "n": "n",
        "R": "Y", "Y": "R", "S": "S", "W": "W", "K": "M", "M": "K"}
CHROM = "chr1"


def revcomp(s):
    return "".join(COMP[c] for c in reversed(s))


# ---------------------------------------------------------------------------------------------- literals

def parse_obj(tk):
    """tokens -> nested description (no library object yet)"""
    tag = tk.next()
    if tag == "F":
        st = tk.strand()
        k = tk.int()
        return ("F", st, [(tk.int(), tk.int()) for _ in range(k)])
    if tag == "T":
        st = tk.strand()
        k = tk.int()
        ex = [(tk.int(), tk.int()) for _ in range(k)]
        kc = tk.int()
        cds = [(tk.int(), tk.int(), tk.int()) for _ in range(kc)]
        return ("T", st, ex, cds)
    if tag == "D":
        st = tk.strand()
        kc = tk.int()
        return ("D", st, [(tk.int(), tk.int(), tk.int()) for _ in range(kc)])
    if tag == "G":
        n = tk.int()
        return ("G", [parse_obj(tk) for _ in range(n)])
    if tag == "Q":
        n = tk.int()
        return ("Q", [parse_obj(tk) for _ in range(n)])
    if tag == "A":
        ng = tk.int()
        genes = [parse_obj(tk) for _ in range(ng)]
        nq = tk.int()
        fics = [parse_obj(tk) for _ in range(nq)]
        b = tk.next()
        bounds = (tk.int(), tk.int()) if b == "B" else None
        return ("A", genes, fics, bounds)
    raise KeyError(tag)


def enc_obj(d):
    tag = d[0]
    if tag == "F":
        return f"F {d[1]} {len(d[2])} " + " ".join(f"{s} {e}" for s, e in d[2])
    if tag == "T":
        out = f"T {d[1]} {len(d[2])} " + " ".join(f"{s} {e}" for s, e in d[2]) + f" {len(d[3])}"
        if d[3]:
            out += " " + " ".join(f"{s} {e} {f}" for s, e, f in d[3])
        return out
    if tag == "D":
        return f"D {d[1]} {len(d[2])} " + " ".join(f"{s} {e} {f}" for s, e, f in d[2])
    if tag in "GQ":
        return f"{tag} {len(d[1])} " + " ".join(enc_obj(x) for x in d[1])
    if tag == "A":
        out = f"A {len(d[1])}" + "".join(" " + enc_obj(x) for x in d[1]) + f" {len(d[2])}" + \
              "".join(" " + enc_obj(x) for x in d[2])
        return out + (f" B {d[3][0]} {d[3][1]}" if d[3] else " N")
    raise KeyError(tag)


def build(d, parent):
    """description -> real object on `parent` (constructor errors propagate)"""
    tag = d[0]
    if tag == "F":
        return FeatureInterval([s for s, _ in d[2]], [e for _, e in d[2]], d[1], parent_or_seq_chunk_parent=parent)
    if tag == "T":
        kw = {}
        if d[3]:
            kw = dict(cds_starts=[s for s, _, _ in d[3]], cds_ends=[e for _, e, _ in d[3]],
                      cds_frames=[CDSFrame(f) for _, _, f in d[3]])
        return TranscriptInterval([s for s, _ in d[2]], [e for _, e in d[2]], d[1],
                                  parent_or_seq_chunk_parent=parent, **kw)
    if tag == "D":
        return CDSInterval([s for s, _, _ in d[2]], [e for _, e, _ in d[2]], d[1], [CDSFrame(f) for _, _, f in d[2]],
                           parent_or_seq_chunk_parent=parent)
    if tag == "G":
        return GeneInterval([build(x, parent) for x in d[1]], parent_or_seq_chunk_parent=parent)
    if tag == "Q":
        return FeatureIntervalCollection([build(x, parent) for x in d[1]], parent_or_seq_chunk_parent=parent)
    if tag == "A":
        kw = dict(start=d[3][0], end=d[3][1]) if d[3] else {}
        return AnnotationCollection(feature_collections=[build(x, parent) for x in d[2]],
                                    genes=[build(x, parent) for x in d[1]], parent_or_seq_chunk_parent=parent, **kw)
    raise KeyError(tag)


def nodes(d, o):
    """pre-order (tag, description, object) triples"""
    tag = d[0]
    yield (tag, d, o)
    if tag == "T":
        if d[3]:
            yield ("D", ("D", d[1], d[3]), o.cds) if o.cds is not None else ("X", None, None)
    elif tag == "G":
        for dd, oo in zip(d[1], o.transcripts):
            yield from nodes(dd, oo)
    elif tag == "Q":
        for dd, oo in zip(d[1], o.feature_intervals):
            yield from nodes(dd, oo)
    elif tag == "A":
        for dd, oo in zip(d[1], o.genes):
            yield from nodes(dd, oo)
        for dd, oo in zip(d[2], o.feature_collections):
            yield from nodes(dd, oo)


def _twins(key):
    """key = "<letters> <ws> <we> <wst> <OBJ…>"; returns (description, chromosome twin, chunk twin, None) or an error
    token in the last place.  Fresh objects for every op line: no answer depends on an earlier question."""
    tk = Toks(key.split())
    letters = tk.next()
    ws, we, wst = tk.int(), tk.int(), tk.next()
    d = parse_obj(tk)
    if not tk.done():
        raise ValueError("trailing tokens")
    try:
        whole = seq_to_parent(letters, seq_id=CHROM)
        piece = letters[ws:we] if wst == "+" else revcomp(letters[ws:we])
        chunk = seq_chunk_to_parent(piece, CHROM, ws, we, SYM[wst])
        return d, build(d, whole), build(d, chunk), None
    except RecursionError:
        return d, None, None, "err! RecursionError"
    except Exception as e:  # noqa
        return d, None, None, exc_token(e)


# entries of a `to_dict()` that hold the object's own digest; they are compared per node (second part of `ident`)
DIGEST_KEYS = {"gene_guid", "feature_collection_guid", "variant_collection_guid", "transcript_interval_guid",
               "feature_interval_guid", "variant_interval_guid"}


def strip_digests(v):
    if isinstance(v, dict):
        return {k: strip_digests(x) for k, x in v.items() if k not in DIGEST_KEYS}
    if isinstance(v, (list, tuple)):
        return [strip_digests(x) for x in v]
    return v


def cell(f):
    try:
        return f()
    except RecursionError:
        return "X!RecursionError"
    except Exception as e:  # noqa
        tok = exc_token(e)
        return "x" if tok.startswith("err ") else "X!" + tok.split()[-1]


def _coding(d, o):
    """the CDSInterval an op about codons speaks of"""
    if d[0] == "D":
        return o
    if d[0] == "T":
        if o.cds is None:
            raise TypeError("transcript holds no CDS object")      # -> err! (never expected)
        return o.cds
    raise KeyError(d[0])


def show_locs(locs):
    locs = list(locs)
    return f"{len(locs)}" + "".join(" " + show_loc(l) for l in locs)


def impl_chunk_op(line):
    op, _, key = line.partition(" ")
    win = None
    if op == "kwcodons":
        key, lo, hi = key.rsplit(" ", 2)
        win = (int(lo), int(hi))
    d, a, b, err = _twins(key)
    if err is not None:
        return err

    def go():
        if op == "loc":
            out = []
            for tag, _, o in nodes(d, b):
                if tag == "X":
                    out.append("X")
                else:
                    out.append(f"{tag} {o.start} {o.end} {show_loc(o.chromosome_location)} "
                               f"{show_loc(o.chunk_relative_location)}")
            return "ok " + " ".join(out)
        if op == "ident":
            deq = strip_digests(a.to_dict()) == strip_digests(b.to_dict())
            out = [str(int(deq))]
            na, nb = list(nodes(d, a)), list(nodes(d, b))
            for (ta, _, oa), (tb, _, ob) in zip(na, nb):
                if ta == "X" or tb == "X":
                    out.append("1" if ta == tb else "0")
                else:
                    out.append(str(int(oa.guid == ob.guid)))
            return "ok " + " ".join(out)
        if op == "seq":
            out = []
            for tag, _, o in nodes(d, b):
                if tag in "DX":
                    continue
                fn = o.get_spliced_sequence if tag in "FT" else o.get_reference_sequence
                out.append(cell(lambda fn=fn: "s:" + str(fn())))
            return "ok " + " ".join(out)
        c = _coding(d, b)
        if op == "ccodons":
            n = c.num_codons
            return f"ok {n} " + show_locs(c.chromosome_codon_locations)
        if op == "kcodons":
            return "ok " + show_locs(c.chunk_relative_codon_locations)
        if op == "kwcodons":
            return "ok " + show_locs(c.scan_chunk_relative_codon_locations(win[0], win[1]))
        if op == "cdsseq":
            return "ok s:" + str(c.extract_sequence())
        if op == "prot":
            return "ok s:" + str(c.translate())
        if op == "kframes":
            return "ok" + "".join(f" {f.value}" for f in c.chunk_relative_frames)
        raise KeyError(op)

    return guarded(go)
