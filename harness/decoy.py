"""Decoy twins (engine feature `DECOY_TWINS`): cross-OBJECT call histories.

A line `<op line> @d` is the same mathematical operation as `<op line>`; on the implementation side the SAME worker
process first plays DECOYS and throws their answers away:

  * letters decoy (generic): the line itself, evaluated while `Sequence.__init__` permutes the letters of every sequence
    text handed in from outside the library (A->C->G->T->A, U->A, other letters kept; same length).  Coordinates, names, identifiers, strands,
    frames, hierarchy - everything a content hash / GUID / cache key of the library is made of except the bases - are
    those of the real line, so each object of the decoy and the corresponding object of the real line share every
    identifier but not their sequence;
  * `mod.decoys(line)` (optional, property specific): further lines played as they are, e.g. the same levels in a
    hierarchy of another depth; a decoy `@strtypes <line>` is played by a caller that spells sequence types as plain
    strings (`string_typed`).

The Lean drivers get the line without the marker.  A cache, memo or registry inside the library that is keyed by
something coarser than the content it returns (a GUID that does not cover the bases, a hash that forgets the ancestors)
hands the real line an answer that belongs to the decoy: a disagreement / failed verdict in whichever property observes
the answer.  The unchanged library passes these twins.
"""
import contextlib

MARK = " @d"
_PERM = str.maketrans("ACGTUacgtu", "CGTAAcgtaa")


def strip(line):
    return line[:-len(MARK)] if line.endswith(MARK) else line


@contextlib.contextmanager
def permuted_sequences():
    from harness import warm
    Sequence = [c for c in warm._classes() if c.__name__ == "Sequence"][0]      # import order as in warm.py
    orig = Sequence.__dict__["__init__"]

    import sys
    transparent = ("inscripta.biocantor.io.parser", "harness.warm", "harness.decoy")

    def __init__(self, data, *a, **kw):
        # permute only texts that come from OUTSIDE the library (the harness, possibly through the io.parser helpers):
        # a sequence the library derives from another one (slice, chunk, reverse complement) stays what the library made
        f = sys._getframe(1)
        while f is not None and f.f_globals.get("__name__", "") in transparent:
            f = f.f_back
        internal = f is not None and f.f_globals.get("__name__", "").startswith("inscripta.biocantor")
        if isinstance(data, str) and not internal:
            data = data.translate(_PERM)
        orig(self, data, *a, **kw)
    __init__.__wrapped__ = orig
    Sequence.__init__ = __init__
    try:
        yield
    finally:
        Sequence.__init__ = orig


@contextlib.contextmanager
def string_typed():
    """the line evaluated by a caller that spells sequence types as plain strings (`"chromosome"`, `"sequence_chunk"`,
    which the constructors document as equivalent): `Sequence.__init__` and `Parent.__init__` get `.value` instead of the
    `SequenceType` member.  As a decoy it leaves string-typed Parents in the library's cache for the real line."""
    from harness import warm
    Sequence = [c for c in warm._classes() if c.__name__ == "Sequence"][0]
    from inscripta.biocantor.parent import Parent
    import enum
    PCls = Parent.__wrapped__
    so, po = Sequence.__dict__["__init__"], PCls.__dict__["__init__"]

    def val(x):
        return x.value if isinstance(x, enum.Enum) else x

    def s_init(self, data, alphabet, id=None, type=None, *a, **kw):
        so(self, data, alphabet, id, val(type), *a, **kw)

    def p_init(self, *a, **kw):
        if "sequence_type" in kw:
            kw["sequence_type"] = val(kw["sequence_type"])
        po(self, *a, **kw)
    Sequence.__init__, PCls.__init__ = s_init, p_init
    try:
        yield
    finally:
        Sequence.__init__, PCls.__init__ = so, po


def _clear_harness_caches():
    """the harness's OWN memo tables (functools.lru_cache on builder functions of harness.* modules) are emptied around a
    decoy: a decoy object must be built, and must never be handed to a real line by the harness itself.  The library's
    caches are left exactly as the decoy left them - they are the subject."""
    import sys
    for name, m in list(sys.modules.items()):
        if not name.startswith("harness.") or m is None:
            continue
        for v in list(vars(m).values()):
            cc = getattr(v, "cache_clear", None)
            if cc is not None and getattr(v, "__module__", "").startswith("harness."):
                try:
                    cc()
                except Exception:  # noqa
                    pass


def _cold_library_caches():
    """The decoy must be the FIRST to fill the library's process-wide caches (the plain line is usually evaluated just
    before its twin in the same worker): the public `cache_clear()` of the library's functools caches (the Parent cache
    and `_unique_value_or_none`) puts them into the state of a fresh process - a history a caller can produce too."""
    try:
        from inscripta.biocantor.parent import Parent, parent as parent_module
        Parent.cache_clear()
        parent_module._unique_value_or_none.cache_clear()
    except Exception:  # noqa  (the attribute names changed: the decoys are played on warm caches)
        pass


def play(impl, mod_decoys, line):
    """the decoys of `line` (marker already removed), answers and exceptions discarded: first the property's own decoys
    (they must be the first to fill the cold caches), then the letters decoy"""
    _clear_harness_caches()
    _cold_library_caches()
    try:
        if mod_decoys is not None:
            try:
                extra = list(mod_decoys(line) or [])
            except Exception:  # noqa  (a decoy that cannot be derived is skipped)
                extra = []
            for d in extra:
                try:
                    if d.startswith("@strtypes "):
                        with string_typed():
                            impl(d[len("@strtypes "):])
                    else:
                        impl(d)
                except BaseException:  # noqa
                    pass
                _clear_harness_caches()
        try:
            with permuted_sequences():
                impl(line)
        except BaseException:  # noqa
            pass
    finally:
        _clear_harness_caches()
