"""Implementation side of C12 (GenBank export / re-parse): op line -> real BioCantor calls -> canonical answer.

Token codec: strings as in harness/impl_qualifiers.py (`s:` + chars, everything outside [A-Za-z0-9_] as %XX; `None`
for an absent optional), dicts `<n> (key <m> val*)*`, block lists `<k> (s e)*`, strands `+ - .`, frames `Z O T N`.

  TX    := <strand> <blocks exons> <blocks cds> <k> frame*  opt(tx_id) opt(tx_symbol) opt(tx_type) opt(protein_id)
           opt(product) dict
  GENE  := G opt(gene_id) opt(gene_symbol) opt(gene_type) opt(locus_tag) dict <ntx> TX*
  FEAT  := <strand> <blocks> opt(feature_name) opt(feature_id) <m> type* dict
  FCOLL := F opt(name) opt(id) opt(type) opt(locus_tag) dict <nfeat> FEAT*
  COLL  := <sequence: s:ACGT... | None> <n> (GENE | FCOLL)*
  REC   := s:<type> <strand> <blocks parts (in Biopython part order)> dict       one written / read feature
  PGENE := opt(gene_id) opt(gene_symbol) opt(locus_tag) s:<gene_type> <ntx> PTX*
  PTX   := <strand> <blocks exons> <blocks cds> <k> frame* opt(tx_id) opt(tx_symbol) opt(protein_id) opt(product)
           s:<tx_type> dict(qualifiers, values sorted)

Families
  gbw  <P|E> <force> <trans> COLL        real `gene_to_feature` for every child of the real AnnotationCollection, in
                                         the collection's own iteration order   -> `ok <n> REC*`
                                         (qualifier VALUES are reported sorted: they come out of Python sets)
  gbp  <S|L|H> <n> REC*                  the features as in-memory SeqFeatures on a SeqRecord -> the real parser class
                                         of that mode (.parse()) -> `ok <n> PGENE*` / `err ...`
  gbrt <P|E> <S|L|H> COLL                real `collection_to_genbank` TEXT -> real `parse_genbank` in that mode
                                         -> `ok <n> PGENE*`
  gbc  <P|E> <trans> COLL                the whole pipeline judged in Python: text -> Bio.SeqIO (independent reader) ->
                                         clauses (a); `parse_genbank` x 3 modes -> clauses (b), (c).
                                         `ok clean` or `ok viol <clause>...`

Collections built on a SEQUENCE CHUNK (`seq_chunk_to_parent(chromosome[ws:we] (reverse-complemented on a minus
chunk), name, ws, we, strand)`): WIN := <ws> <we> <+|->; the COLL of the line carries the CHROMOSOME sequence and
chromosome coordinates, the export is expected in chunk-relative coordinates with the chunk's sequence
  gbwk  <P|E> <force> <trans> WIN COLL   as gbw           -> `ok <n> REC*` / `err EmptyLocationException`
  gbrtk <P|E> <S|L|H> WIN COLL           as gbrt          -> `ok <n> PGENE*` (chunk-relative gene models)
  gbck  <P|E> <trans> WIN COLL           as gbc, against the chunk view computed here position by position
                                         `ok clean` / `ok refused` (EmptyLocationException) / `ok viol ...`
"""
from harness import shims

shims.install()

import io  # noqa: E402
import warnings  # noqa: E402

from harness.common import guarded  # noqa: E402
from harness.impl_qualifiers import enc, dec, enc_opt, enc_dict, Toks as _Toks  # noqa: E402

import inscripta.biocantor.gene  # noqa: E402,F401
from inscripta.biocantor.gene.collections import AnnotationCollection  # noqa: E402
from inscripta.biocantor.gene.codon import TranslationTable  # noqa: E402
from inscripta.biocantor.io.genbank.writer import collection_to_genbank, gene_to_feature  # noqa: E402
from inscripta.biocantor.io.genbank.constants import GenbankFlavor, GenBankParserType  # noqa: E402
from inscripta.biocantor.io.genbank import parser as GBP  # noqa: E402
from inscripta.biocantor.io.parser import seq_to_parent, seq_chunk_to_parent  # noqa: E402
from inscripta.biocantor.location.strand import Strand  # noqa: E402

SYM = {"+": "PLUS", "-": "MINUS", ".": "UNSTRANDED"}
RSYM = {v: k for k, v in SYM.items()}
FR = {"Z": "ZERO", "O": "ONE", "T": "TWO", "N": "NONE"}
RFR = {v: k for k, v in FR.items()}
FLAVOR = {"P": GenbankFlavor.PROKARYOTIC, "E": GenbankFlavor.EUKARYOTIC}
MODE = {"S": GenBankParserType.SORTED, "L": GenBankParserType.LOCUS_TAG, "H": GenBankParserType.HYBRID}
PARSER = {"S": GBP.SortedGenBankParser, "L": GBP.LocusTagGenBankParser, "H": GBP.HybridGenBankParser}
SEQNAME = "chr1"


class Toks(_Toks):
    def int_(self):
        return int(self.next())

    def opt(self):
        t = self.next()
        return None if t == "None" else dec(t)

    def blocks(self):
        k = self.int_()
        return [(self.int_(), self.int_()) for _ in range(k)]

    def frames(self):
        return [FR[self.next()] for _ in range(self.int_())]


# ------------------------------------------------------------------------------------------------------
# encoders (plain data in the vocabulary of harness/gen_collections.py -> tokens)

def enc_blocks(bl):
    return " ".join([str(len(bl))] + [f"{s} {e}" for s, e in bl])


def enc_quals(q):
    return enc_dict((q or {}).items())


def enc_tx(t):
    ex = list(zip(t["exon_starts"], t["exon_ends"]))
    cds = list(zip(t["cds_starts"], t["cds_ends"])) if t["cds_starts"] else []
    fr = t["cds_frames"] or []
    return " ".join([RSYM[t["strand"]], enc_blocks(ex), enc_blocks(cds), str(len(fr))] + [RFR[f] for f in fr] +
                    [enc_opt(t["transcript_id"]), enc_opt(t["transcript_symbol"]), enc_opt(t["transcript_type"]),
                     enc_opt(t["protein_id"]), enc_opt(t["product"]), enc_quals(t["qualifiers"])])


def enc_gene(g):
    return " ".join(["G", enc_opt(g["gene_id"]), enc_opt(g["gene_symbol"]), enc_opt(g["gene_type"]),
                     enc_opt(g["locus_tag"]), enc_quals(g["qualifiers"]), str(len(g["transcripts"]))] +
                    [enc_tx(t) for t in g["transcripts"]])


def enc_feat(f):
    bl = list(zip(f["interval_starts"], f["interval_ends"]))
    ft = f["feature_types"] or []
    return " ".join([RSYM[f["strand"]], enc_blocks(bl), enc_opt(f["feature_name"]), enc_opt(f["feature_id"]),
                     str(len(ft))] + [enc(x) for x in ft] + [enc_quals(f["qualifiers"])])


def enc_fcoll(fc):
    return " ".join(["F", enc_opt(fc["feature_collection_name"]), enc_opt(fc["feature_collection_id"]),
                     enc_opt(fc["feature_collection_type"]), enc_opt(fc["locus_tag"]), enc_quals(fc["qualifiers"]),
                     str(len(fc["feature_intervals"]))] + [enc_feat(f) for f in fc["feature_intervals"]])


def enc_coll(coll, seq):
    items = [enc_gene(g) for g in coll["genes"]] + [enc_fcoll(fc) for fc in coll["feature_collections"]]
    return " ".join([enc_opt(seq), str(len(items))] + items)


def enc_rec(typ, strand, parts, quals):
    return " ".join([enc(typ), strand, enc_blocks(parts), enc_dict(quals)])


# ------------------------------------------------------------------------------------------------------
# decoders

def dec_tx(t):
    strand = SYM[t.next()]
    ex = t.blocks()
    cds = t.blocks()
    fr = t.frames()
    d = dict(exon_starts=[s for s, _ in ex], exon_ends=[e for _, e in ex], strand=strand,
             cds_starts=[s for s, _ in cds] or None, cds_ends=[e for _, e in cds] or None, cds_frames=fr or None,
             transcript_id=t.opt(), transcript_symbol=t.opt(), transcript_type=t.opt(), protein_id=t.opt(),
             product=t.opt(), qualifiers=t.dict_() or None, is_primary_tx=False, sequence_name=SEQNAME)
    return d


def dec_coll(t):
    seq = t.opt()
    coll = dict(sequence_name=SEQNAME, name=None, genes=[], feature_collections=[])
    for _ in range(t.int_()):
        kind = t.next()
        if kind == "G":
            g = dict(gene_id=t.opt(), gene_symbol=t.opt(), gene_type=t.opt(), locus_tag=t.opt(),
                     qualifiers=t.dict_() or None, sequence_name=SEQNAME)
            g["transcripts"] = [dec_tx(t) for _ in range(t.int_())]
            coll["genes"].append(g)
        elif kind == "F":
            fc = dict(feature_collection_name=t.opt(), feature_collection_id=t.opt(), feature_collection_type=t.opt(),
                      locus_tag=t.opt(), qualifiers=t.dict_() or None, sequence_name=SEQNAME, feature_intervals=[])
            for _ in range(t.int_()):
                strand = SYM[t.next()]
                bl = t.blocks()
                f = dict(interval_starts=[s for s, _ in bl], interval_ends=[e for _, e in bl], strand=strand,
                         feature_name=t.opt(), feature_id=t.opt(), feature_types=t.list_(),
                         qualifiers=t.dict_() or None, sequence_name=SEQNAME, is_primary_feature=False)
                fc["feature_intervals"].append(f)
            coll["feature_collections"].append(fc)
        else:
            raise KeyError(kind)
    return seq, coll


COMP = {"A": "T", "C": "G", "G": "C", "T": "A", "N": "N"}


def chunk_sequence(seq, win):
    """the letters of the chunk: the window of the chromosome, reverse-complemented on a minus-strand chunk"""
    ws, we, wst = win
    sub = seq[ws:we]
    return sub if wst == "+" else "".join(COMP[c] for c in reversed(sub.upper()))


def build(coll, seq, win=None):
    from harness import gen_collections as G
    if win is not None:
        ws, we, wst = win
        parent = seq_chunk_to_parent(chunk_sequence(seq, win), SEQNAME, ws, we, Strand[SYM[wst]])
    else:
        parent = seq_to_parent(seq, seq_id=SEQNAME) if seq is not None else None
    return AnnotationCollection.from_dict(G.to_library_dict(coll), parent_or_seq_chunk_parent=parent)


def dec_win(t):
    ws, we, wst = t.int_(), t.int_(), t.next()
    if wst not in "+-" or not (0 <= ws < we):
        raise KeyError("window")
    return ws, we, wst


# ------------------------------------------------------------------------------------------------------
# canonical forms

def strand_sym(v):
    return {1: "+", -1: "-", 0: ".", None: "."}[v]


def rec_of_feature(f):
    parts = [(int(p.start), int(p.end)) for p in f.location.parts]
    quals = [(k, sorted(str(x) for x in v)) for k, v in f.qualifiers.items()]
    return enc_rec(f.type, strand_sym(f.location.strand), parts, quals)


def pgene_of_dict(g):
    out = [enc_opt(g["gene_id"]), enc_opt(g["gene_symbol"]), enc_opt(g["locus_tag"]), enc(str(g["gene_type"])),
           str(len(g["transcripts"]))]
    for tx in g["transcripts"]:
        ex = list(zip(tx["exon_starts"], tx["exon_ends"]))
        cds = list(zip(tx["cds_starts"], tx["cds_ends"])) if tx["cds_starts"] else []
        fr = tx["cds_frames"] or []
        q = tx.get("qualifiers") or {}
        out += [RSYM[tx["strand"]], enc_blocks(ex), enc_blocks(cds), str(len(fr))] + [RFR[f] for f in fr] + \
               [enc_opt(tx["transcript_id"]), enc_opt(tx["transcript_symbol"]), enc_opt(tx["protein_id"]),
                enc_opt(tx["product"]), enc(str(tx["transcript_type"])),
                enc_dict((k, sorted(v)) for k, v in q.items())]
    return " ".join(out)


def genes_of_records(recs):
    """ParsedAnnotationRecord list (one record) -> list of gene dicts (through AnnotationCollection)"""
    if len(recs) != 1:
        raise AssertionError(f"{len(recs)} records")
    ac = recs[0].to_annotation_collection()
    return [g.to_dict() for g in ac.genes]


def pgenes(genes):
    return "ok " + " ".join([str(len(genes))] + [pgene_of_dict(g) for g in genes])


# ------------------------------------------------------------------------------------------------------
# real calls

def write_text(ac, flavor, trans, force=True):
    buf = io.StringIO()
    collection_to_genbank([ac], buf, genbank_type=FLAVOR[flavor], force_strand=force, update_translations=trans)
    return buf.getvalue()


def parse_text(text, mode):
    return list(GBP.parse_genbank(io.StringIO(text), gbk_type=MODE[mode]))


def _gbw(t, chunk=False):
    """the SeqFeatures `collection_to_genbank` hands to Bio.SeqIO.write (the call is intercepted: no text is produced),
    so that the flavour -> translation table choice and the loop over the collection are the library's own"""
    import inscripta.biocantor.io.genbank.writer as W
    import types
    flavor, force, trans = FLAVOR[t.next()], t.next() == "1", t.next() == "1"
    win = dec_win(t) if chunk else None
    seq, coll = dec_coll(t)
    ac = build(coll, seq, win)
    captured = []
    real = W.SeqIO
    W.SeqIO = types.SimpleNamespace(write=lambda recs, handle, format: captured.extend(recs))
    try:
        W.collection_to_genbank([ac], io.StringIO(), genbank_type=flavor, force_strand=force, update_translations=trans)
    finally:
        W.SeqIO = real
    if len(captured) != 1:
        raise AssertionError(f"{len(captured)} records")
    feats = captured[0].features
    return "ok " + " ".join([str(len(feats))] + [rec_of_feature(f) for f in feats])


def seqrecord_of_recs(recs, length=None):
    from Bio.Seq import Seq
    from Bio.SeqFeature import SeqFeature, SimpleLocation, CompoundLocation
    from Bio.SeqRecord import SeqRecord
    hi = max([e for _, _, parts, _ in recs for _, e in parts] + [10])
    rec = SeqRecord(Seq("ACGT" * ((length or hi) // 4 + 2)), id=SEQNAME, name=SEQNAME)
    for typ, strand, parts, quals in recs:
        st = {"+": 1, "-": -1, ".": 0}[strand]
        locs = [SimpleLocation(s, e, strand=st) for s, e in parts]
        loc = locs[0] if len(locs) == 1 else CompoundLocation(locs)
        rec.features.append(SeqFeature(loc, type=typ, qualifiers={k: list(v) for k, v in quals.items()}))
    return rec


def dec_recs(t):
    recs = []
    for _ in range(t.int_()):
        typ = t.str_()
        strand = t.next()
        parts = t.blocks()
        recs.append((typ, strand, parts, t.dict_()))
    return recs


def _gbp(t):
    mode = t.next()
    rec = seqrecord_of_recs(dec_recs(t))
    p = PARSER[mode]([rec], {}, GBP.GeneFeature.to_gene_model, GBP.FeatureIntervalGenBankCollection.to_feature_model)
    return pgenes(genes_of_records(list(p.parse())))


def _gbm(t):
    recs = dec_recs(t)
    res = []
    for mode in "SLH":
        rec = seqrecord_of_recs(recs)
        p = PARSER[mode]([rec], {}, GBP.GeneFeature.to_gene_model, GBP.FeatureIntervalGenBankCollection.to_feature_model)
        try:
            genes = genes_of_records(list(p.parse()))
            res.append(sorted(pgene_of_dict(g) for g in genes))
        except Exception:  # noqa
            res.append(None)
    if all(r is None for r in res):
        return "ok same"
    if any(r is None for r in res):
        return "ok differ"
    return "ok same" if res[0] == res[1] == res[2] else "ok differ"


def _gbrt(t, chunk=False):
    flavor, mode = t.next(), t.next()
    win = dec_win(t) if chunk else None
    seq, coll = dec_coll(t)
    ac = build(coll, seq, win)
    text = write_text(ac, flavor, False)
    return pgenes(genes_of_records(parse_text(text, mode)))


def impl_gb_op(line):
    toks = line.split()
    t = Toks(toks[1:])

    def go():
        with warnings.catch_warnings():
            warnings.simplefilter("ignore")
            op = toks[0]
            if op == "gbw":
                return _gbw(t)
            if op == "gbp":
                return _gbp(t)
            if op == "gbrt":
                return _gbrt(t)
            if op == "gbm":
                return _gbm(t)
            if op == "gbc":
                return run(t)
            if op == "gbwk":
                return _gbw(t, chunk=True)
            if op == "gbrtk":
                return _gbrt(t, chunk=True)
            if op == "gbck":
                return run(t, chunk=True)
        raise KeyError(op)

    return guarded(go)


# ------------------------------------------------------------------------------------------------------
# gbc: the whole pipeline, judged in Python against an INDEPENDENT reader (Bio.SeqIO) and the documented layout

RNA_FEATURE_TYPES = ("ncRNA", "tRNA", "rRNA", "misc_RNA", "tmRNA")
# Biotype aliases -> canonical member name (gene/biotype.py: same value, first name wins)
BIOTYPE_CANON = {"protein-coding": "protein_coding", "mRNA": "protein_coding", "miscRNA": "misc_RNA",
                 "pseudo": "pseudogene", "lnc_RNA": "lncRNA"}


def canon_biotype(name):
    return BIOTYPE_CANON.get(name, name)


def frames_from_start(blocks, strand, start_frame):
    """the frames a single reading frame implies (mirror of Spec.Gb.framesFromStart; independent of the library)"""
    order = list(range(len(blocks)))
    if strand == "MINUS":
        order.reverse()
    out = [None] * len(blocks)
    consumed = -start_frame
    for j, i in enumerate(order):
        out[i] = start_frame if j == 0 else consumed % 3
        consumed += blocks[i][1] - blocks[i][0]
    return [("ZERO", "ONE", "TWO")[f] for f in out]


def start_frame_of(tx):
    fr = tx["cds_frames"]
    name = fr[0] if tx["strand"] == "PLUS" else fr[-1]
    return ("ZERO", "ONE", "TWO").index(name)


def tx_feature_type(tx):
    """documented transcript-level feature type"""
    ty = canon_biotype(tx["transcript_type"]) if tx["transcript_type"] else None
    if ty in RNA_FEATURE_TYPES:
        return ty
    return "mRNA" if tx["cds_starts"] else "misc_RNA"


def gene_symbol_written(g):
    return g["gene_symbol"] or g["gene_id"] or None


def gene_tag_written(g):
    return g["locus_tag"] or gene_symbol_written(g)


def gene_span(g):
    return (min(t["exon_starts"][0] for t in g["transcripts"]), max(t["exon_ends"][-1] for t in g["transcripts"]))


def expected_gene(g, flavor):
    """the gene model the documentation promises after write -> parse (one transcript per gene)"""
    sym = gene_symbol_written(g)
    txs = []
    for tx in g["transcripts"]:
        ft = tx_feature_type(tx)
        ex = list(zip(tx["exon_starts"], tx["exon_ends"]))
        coding = ft == "mRNA" and bool(tx["cds_starts"])
        if coding:
            cds = list(zip(tx["cds_starts"], tx["cds_ends"]))
            if flavor == "P":
                ex = cds
            frames = frames_from_start(cds, tx["strand"], start_frame_of(tx))
        else:
            cds, frames = [], []
        txs.append(dict(strand=tx["strand"], exons=ex, cds=cds, frames=frames, transcript_id=tx["transcript_id"] or None,
                        transcript_symbol=sym, protein_id=(tx["protein_id"] or None) if coding else None,
                        transcript_type="protein_coding" if ft == "mRNA" else ft))
    return dict(gene_id=g["gene_id"] or None, gene_symbol=sym, locus_tag=gene_tag_written(g), transcripts=txs,
                gene_type=txs[0]["transcript_type"])


def observed_gene(d):
    txs = []
    for tx in d["transcripts"]:
        txs.append(dict(strand=tx["strand"], exons=list(zip(tx["exon_starts"], tx["exon_ends"])),
                        cds=list(zip(tx["cds_starts"], tx["cds_ends"])) if tx["cds_starts"] else [],
                        frames=list(tx["cds_frames"] or []), transcript_id=tx["transcript_id"],
                        transcript_symbol=tx["transcript_symbol"], protein_id=tx["protein_id"],
                        transcript_type=str(tx["transcript_type"])))
    return dict(gene_id=d["gene_id"], gene_symbol=d["gene_symbol"], locus_tag=d["locus_tag"], transcripts=txs,
                gene_type=str(d["gene_type"]))


def position_sorted(feats):
    """fixed point of the documented position/type order: starts non-decreasing; at equal start gene < mRNA < CDS < rest"""
    rank = {"gene": 0, "mRNA": 1, "CDS": 2}
    keys = [(min(s for s, _ in parts), rank.get(typ, 3)) for typ, parts in feats]
    return all(a <= b for a, b in zip(keys, keys[1:]))


def cds_class(tx):
    """classification used by narrow findings: strand, number of CDS blocks, start frame, adjacency"""
    cds = list(zip(tx["cds_starts"], tx["cds_ends"]))
    adj = any(a[1] == b[0] for a, b in zip(cds, cds[1:]))
    return f"[strand={RSYM[tx['strand']]},blocks={len(cds)},frame={start_frame_of(tx)},adjacent={int(adj)}]"


# ------------------------------------------------------------------------------------------------------
# the chunk view: what a collection built on the chunk [ws, we) (strand wst) is expected to export, computed
# position by position, without the library

def clip_rel(blocks, win):
    """in-chunk parts of the blocks, in chunk-relative coordinates, ascending on the chunk"""
    ws, we, wst = win
    out = []
    for s, e in blocks:
        lo, hi = max(s, ws), min(e, we)
        if lo < hi:
            out.append((lo - ws, hi - ws) if wst == "+" else (we - hi, we - lo))
    return sorted(out)


def rel_strand(strand, win):
    if win[2] == "+" or strand == "UNSTRANDED":
        return strand
    return {"PLUS": "MINUS", "MINUS": "PLUS"}[strand]


def positions_5to3(blocks, strand):
    pos = [p for s, e in blocks for p in range(s, e)]
    return pos if strand == "PLUS" else pos[::-1]


def source_one_frame(tx):
    cds = list(zip(tx["cds_starts"], tx["cds_ends"]))
    sf = start_frame_of(tx)
    five = cds[0] if tx["strand"] == "PLUS" else cds[-1]
    return tx["cds_frames"] == frames_from_start(cds, tx["strand"], sf) and (len(cds) == 1 or sf <= five[1] - five[0])


def chunk_start_frame(tx, win):
    """bases to skip in the in-chunk CDS to reach the first codon of the FULL reading frame; None: no CDS base in chunk"""
    ws, we, _ = win
    pos = positions_5to3(list(zip(tx["cds_starts"], tx["cds_ends"])), tx["strand"])
    inside = [i for i, p in enumerate(pos) if ws <= p < we]
    if not inside:
        return None
    i, f0 = inside[0], start_frame_of(tx)
    return f0 - i if i < f0 else (-(i - f0)) % 3


def chunk_view(coll, win):
    """(view, refusable): the collection in chunk-relative coordinates (+ `_span` of genes / feature collections,
    `_src` of transcripts); refusable = some gene / transcript / written CDS / feature (collection) has no base in
    the chunk (the writer documents EmptyLocationException for a location without blocks)"""
    import copy
    ws, we, _ = win
    view = copy.deepcopy(coll)
    refusable = False

    def span_rel(lo, hi):
        r = clip_rel([(lo, hi)], win)
        return r[0] if r else None

    for g in view["genes"]:
        g["_span"] = span_rel(*gene_span(g))
        refusable |= g["_span"] is None
        for tx in g["transcripts"]:
            src = copy.deepcopy(tx)
            tx["_src"] = src
            ex = clip_rel(list(zip(tx["exon_starts"], tx["exon_ends"])), win)
            refusable |= not ex
            tx["exon_starts"], tx["exon_ends"] = [s for s, _ in ex], [e for _, e in ex]
            tx["strand"] = rel_strand(tx["strand"], win)
            if tx["cds_starts"]:
                cds = clip_rel(list(zip(src["cds_starts"], src["cds_ends"])), win)
                if not cds:
                    refusable |= tx_feature_type(src) == "mRNA"
                    tx["cds_starts"] = tx["cds_ends"] = tx["cds_frames"] = None
                    tx["_cds_gone"] = True
                else:
                    sf = chunk_start_frame(src, win)
                    tx["cds_starts"], tx["cds_ends"] = [s for s, _ in cds], [e for _, e in cds]
                    tx["cds_frames"] = frames_from_start(cds, tx["strand"], sf)
                    five = cds[0] if tx["strand"] == "PLUS" else cds[-1]
                    tx["_one_frame"] = source_one_frame(src) and (len(cds) == 1 or sf <= five[1] - five[0])
    for fc in view["feature_collections"]:
        lo = min(f["interval_starts"][0] for f in fc["feature_intervals"])
        hi = max(f["interval_ends"][-1] for f in fc["feature_intervals"])
        fc["_span"] = span_rel(lo, hi)
        refusable |= fc["_span"] is None
        for f in fc["feature_intervals"]:
            bl = clip_rel(list(zip(f["interval_starts"], f["interval_ends"])), win)
            refusable |= not bl
            f["interval_starts"], f["interval_ends"] = [s for s, _ in bl], [e for _, e in bl]
            f["strand"] = rel_strand(f["strand"], win)
    return view, refusable


def translation_class(src, win):
    """label of a known deviation (C05's F-C05a): single-block CDS, non-zero start frame, 5' end cut by the chunk"""
    pos = positions_5to3(list(zip(src["cds_starts"], src["cds_ends"])), src["strand"])
    if len(src["cds_starts"]) == 1 and start_frame_of(src) != 0 and not (win[0] <= pos[0] < win[1]):
        return "[single-exon-5p-cut]"
    return ""


def refusal_class(trans, view, win):
    """label of a known deviation (C07's F-C07b): a written CDS has bases in the chunk, none retained by the reading
    frame (reference walk of harness/gen: re-synchronise where the annotated frame differs from the running one)"""
    if not trans:
        return ""
    for g in view["genes"]:
        for tx in g["transcripts"]:
            src = tx["_src"]
            if not src["cds_starts"] or tx_feature_type(src) != "mRNA":
                continue
            cds = list(zip(src["cds_starts"], src["cds_ends"]))
            order = list(range(len(cds))) if src["strand"] == "PLUS" else list(range(len(cds)))[::-1]
            kept = []
            for i in order:
                s, e = cds[i]
                pos = list(range(s, e)) if src["strand"] == "PLUS" else list(range(e - 1, s - 1, -1))
                f = ("ZERO", "ONE", "TWO").index(src["cds_frames"][i])
                if f != len(kept) % 3:
                    kept = kept[:len(kept) - len(kept) % 3]
                    pos = pos[f:]
                kept += pos
            allpos = positions_5to3(cds, src["strand"])
            if any(win[0] <= p < win[1] for p in allpos) and not any(win[0] <= p < win[1] for p in kept):
                return "[chunk-cds-without-retained-base]"
    return ""


def reference_translation(src, seq, win, table_id):
    """translation of the codons of the FULL reading frame (walked on the chromosome, base by base) that lie
    entirely inside the chunk"""
    from Bio.Data import CodonTable
    from Bio.Seq import Seq
    ws, we, _ = win
    pos = positions_5to3(list(zip(src["cds_starts"], src["cds_ends"])), src["strand"])[start_frame_of(src):]
    cods = [pos[3 * i:3 * i + 3] for i in range(len(pos) // 3)]
    cods = [c for c in cods if all(ws <= p < we for p in c)]
    up = seq.upper()
    nt = "".join(up[p] if src["strand"] == "PLUS" else COMP[up[p]] for c in cods for p in c)
    if not nt:
        return ""
    prot = str(Seq(nt).translate(table=table_id))
    starts = CodonTable.unambiguous_dna_by_id[11].start_codons if table_id == 11 else ["ATG"]
    if nt[:3] in starts:
        prot = "M" + prot[1:]
    return prot


def independent_translation(feature, seq, table_id):
    """Biopython's translation of the CDS as an independent reader sees it: extract by location (part order as
    read), skip codon_start-1 bases, whole codons only, NCBI table; the first codon is an initiator of that table
    (table 1 restricted to ATG for BioCantor's DEFAULT = "ATG only") -> M."""
    from Bio.Data import CodonTable
    nt = str(feature.extract(seq)).upper()
    off = int(feature.qualifiers.get("codon_start", ["1"])[0]) - 1
    nt = nt[off:]
    nt = nt[: len(nt) - len(nt) % 3]
    if not nt:
        return ""
    from Bio.Seq import Seq
    prot = str(Seq(nt).translate(table=table_id))
    starts = CodonTable.unambiguous_dna_by_id[11].start_codons if table_id == 11 else ["ATG"]
    if nt[:3] in starts:
        prot = "M" + prot[1:]
    return prot


def check_pipeline(flavor, trans, seq, coll, win=None):
    """win = None: the collection lives on the whole chromosome.  Otherwise it is built on the chunk and every
    expectation below is taken from `chunk_view` (chunk-relative blocks, strand on the chunk, start frame of the
    in-chunk CDS, the chunk's letters)"""
    from Bio import SeqIO
    from inscripta.biocantor.exc import EmptyLocationException
    viol = []
    chrom_seq = seq
    ac = build(coll, seq, win)
    if win is not None:
        coll, refusable = chunk_view(coll, win)
        seq = chunk_sequence(seq, win)
        try:
            text = write_text(ac, flavor, trans)
        except EmptyLocationException:
            return None if refusable else ["a.refused" + refusal_class(trans, coll, win)]
    else:
        text = write_text(ac, flavor, trans)
    recs = list(SeqIO.parse(io.StringIO(text), "genbank"))
    if len(recs) != 1:
        return ["a.records"]
    rec = recs[0]
    # (a) sequence
    if str(rec.seq).upper() != seq.upper():
        viol.append("a.sequence")
    feats = [(f.type, strand_sym(f.location.strand), sorted((int(p.start), int(p.end)) for p in f.location.parts),
              {k: list(v) for k, v in f.qualifiers.items()}, f) for f in rec.features]
    used = set()

    def find(typ, strand, blocks, ids, tag):
        """a not-yet-claimed record of that type / blocks / strand whose qualifiers carry the identifiers"""
        stage = "type"
        for i, (ty, st, bl, q, _f) in enumerate(feats):
            if i in used or ty != typ:
                continue
            stage = max(stage, "blocks", key=["type", "blocks", "strand", "ids"].index)
            if bl != sorted(blocks):
                continue
            stage = max(stage, "strand", key=["type", "blocks", "strand", "ids"].index)
            if st != strand:
                continue
            stage = max(stage, "ids", key=["type", "blocks", "strand", "ids"].index)
            if all(v is None or v in q.get(k, []) for k, v in ids.items()):
                used.add(i)
                return feats[i]
        viol.append(f"a.{tag}.{stage}")
        return None

    expected_count = 0
    for g in coll["genes"]:
        strands = {t["strand"] for t in g["transcripts"]}
        st = RSYM[g["transcripts"][0]["strand"]]
        sym, tag = gene_symbol_written(g), gene_tag_written(g)
        find("gene", st, [g.get("_span") or gene_span(g)], {"gene": sym, "locus_tag": tag, "gene_id": g["gene_id"] or None}, "gene")
        expected_count += 1
        assert len(strands) == 1
        for tx in g["transcripts"]:
            ft = tx_feature_type(tx)
            ex = list(zip(tx["exon_starts"], tx["exon_ends"]))
            ids = {"transcript_id": tx["transcript_id"] or None, "transcript_name": tx["transcript_symbol"] or None,
                   "gene": sym, "locus_tag": tag}
            if not (ft == "mRNA" and flavor == "P"):
                find(ft, st, ex, ids, "transcript")
                expected_count += 1
            if ft == "mRNA" and tx["cds_starts"]:
                cds = list(zip(tx["cds_starts"], tx["cds_ends"]))
                ids2 = dict(ids)
                ids2["protein_id"] = tx["protein_id"] or None
                hit = find("CDS", st, cds, ids2, "cds")
                expected_count += 1
                if hit is not None:
                    f = hit[4]
                    sf = start_frame_of(tx)
                    cs = int(f.qualifiers.get("codon_start", ["1"])[0]) - 1
                    if cs != sf:
                        viol.append("a.codon_start" + cds_class(tx))
                    five = cds[0] if tx["strand"] == "PLUS" else cds[-1]
                    # one reading frame whose skipped bases lie inside the 5'-most block (Spec.Gb.Tx.oneFrame)
                    one_frame = (tx["cds_frames"] == frames_from_start(cds, tx["strand"], sf)
                                 and (len(cds) == 1 or sf <= five[1] - five[0]))
                    if win is not None:
                        one_frame = tx["_one_frame"]
                    if trans and one_frame:      # a programmed frameshift cannot be expressed by a GenBank location
                        # no /translation = nothing translatable (the writer skips CDSs without a whole codon)
                        ind = independent_translation(f, rec.seq, 11 if flavor == "P" else 1)
                        if f.qualifiers.get("translation", [""])[0] != ind:
                            viol.append("a.translation" + cds_class(tx) +
                                        (translation_class(tx["_src"], win) if win is not None else ""))
                        # on a chunk: = the codons of the full reading frame that lie inside the chunk
                        if win is not None and ind != reference_translation(tx["_src"], chrom_seq, win,
                                                                            11 if flavor == "P" else 1):
                            viol.append("a.translation.reference" + cds_class(tx))
                    elif not trans and "translation" in f.qualifiers:
                        viol.append("a.translation.unrequested")
    for fc in coll["feature_collections"]:
        strands = [f["strand"] for f in fc["feature_intervals"]]
        st = RSYM[max(strands, key=strands.count)]
        if "_span" in fc:
            lo, hi = fc["_span"]
        else:
            lo = min(f["interval_starts"][0] for f in fc["feature_intervals"])
            hi = max(f["interval_ends"][-1] for f in fc["feature_intervals"])
        name = fc["feature_collection_name"] or fc["feature_collection_id"] or None
        find("misc_feature", st, [(lo, hi)], {"feature_collection_id": fc["feature_collection_id"] or None,
                                             "feature_collection_name": fc["feature_collection_name"] or None,
                                             "locus_tag": fc["locus_tag"] or name}, "fcoll")
        expected_count += 1
        for f in fc["feature_intervals"]:
            find("feat_interval", RSYM[f["strand"]], list(zip(f["interval_starts"], f["interval_ends"])),
                 {"feature_id": f["feature_id"] or None, "feature_name": f["feature_name"] or None}, "feature")
            expected_count += 1
    if len(feats) != expected_count:
        viol.append("a.count")

    # (b) BioCantor's own parsers, (c) agreement of the three modes
    want = sorted((expected_gene(g, flavor) for g in coll["genes"]), key=lambda d: repr(d))
    tags = [gene_tag_written(g) for g in coll["genes"]]
    unique_tags = all(tags) and len(set(tags)) == len(tags)
    gene_feats = [(ty, bl) for ty, _st, bl, _q, _f in feats if ty in GBP.GENBANK_GENE_FEATURES]
    sorted_file = position_sorted(gene_feats)
    got_by_mode = {}
    for mode in "SLH":
        # Sorted: position-sorted file; LocusTag: unique tags; Hybrid: either (duplicate tags go to the Sorted parser)
        claimed = {"S": sorted_file, "L": unique_tags, "H": unique_tags or sorted_file}[mode]
        try:
            got = [observed_gene(d) for d in genes_of_records(parse_text(text, mode))]
        except Exception as e:  # noqa
            if claimed:
                viol.append(f"b.{mode}.raised:{type(e).__name__}")
            continue
        got_by_mode[mode] = got
        if not claimed:
            continue
        got = sorted(got, key=lambda d: repr(d))
        if len(got) != len(want):
            viol.append(f"b.{mode}.count")
            continue
        by_tag = {g["locus_tag"]: g for g in coll["genes"]} if unique_tags else {}
        for w, o in zip(want, got):
            for k in ("gene_id", "gene_symbol", "locus_tag", "gene_type"):
                if w[k] != o[k]:
                    viol.append(f"b.{mode}.{k}")
            if len(w["transcripts"]) != len(o["transcripts"]):
                viol.append(f"b.{mode}.transcripts")
                continue
            for wt, ot in zip(w["transcripts"], o["transcripts"]):
                for k in ("strand", "exons", "cds", "frames", "transcript_id", "transcript_symbol", "protein_id",
                          "transcript_type"):
                    if wt[k] != ot[k]:
                        cls = ""
                        if k in ("frames", "cds") and wt["cds"]:
                            src = [t for g in coll["genes"] for t in g["transcripts"]
                                   if t["cds_starts"] and list(zip(t["cds_starts"], t["cds_ends"])) == wt["cds"]]
                            cls = cds_class(src[0]) if src else ""
                        viol.append(f"b.{mode}.{k}{cls}")
        del by_tag
    if unique_tags and sorted_file and len(got_by_mode) == 3:
        norm = {m: sorted(repr(d) for d in got_by_mode[m]) for m in got_by_mode}
        if not (norm["S"] == norm["L"] == norm["H"]):
            viol.append("c.modes-differ")
    return sorted(set(viol))


def run(t, chunk=False):
    flavor, trans = t.next(), t.next() == "1"
    win = dec_win(t) if chunk else None
    seq, coll = dec_coll(t)
    viol = check_pipeline(flavor, trans, seq, coll, win)
    if viol is None:
        return "ok refused"
    return "ok clean" if not viol else "ok viol " + " ".join(viol)
