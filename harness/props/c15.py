"""C15 — built-in tables and enumerated algebras (finite domains, decided completely)."""
import itertools

from harness.impl_tables import impl_tab_op

ID = "C15"
LEAN_MODULE = "BioCantor.Props.C15"
DESIGN_REF = "4/C15"
DRIVER = "drivers/C15.lean"
SPEC_DRIVER = "drivers/SpecC15.lean"
DRIVER_MODULES = ["BioCantor.Driver.Main", "BioCantor.Driver.Tables"]
SPEC_DRIVER_MODULES = ["BioCantor.Driver.Main", "BioCantor.Driver.SpecTables"]
# translator outputs the theorems are stated about (substrings of the translator's error messages)
GEN_NEEDS = ["t_constants", "t_codon", "t_alphabet", "t_enums", "gencode", "extendedGencode", "aacodons",
             "translationTables", "startCodons", "codonAlphabet", "alphabets", "complementMaps",
             "nucleotideAlphabetFlags", "strandMembers", "strandOrder", "cdsFrameMembers", "cdsPhaseMembers", "biotypes",
             "Strand_reverse", "Strand_relative_to", "Strand_from_symbol", "Strand_to_symbol",
             "CDSFrame_shift", "CDSFrame_to_phase", "CDSPhase_to_frame", "enum Strand", "enum CDSFrame", "enum CDSPhase"]
RULE = ("complete finite domains: every IUPAC triplet (16^3) x strict/non-strict translate, synonymous codons (both "
        "flags), stop/strict/canonical-start/start-in-table(0,1,11) predicates; every printable ASCII character x every "
        "alphabet for the complement (once and twice); 4 frames x shifts in [-30,30]; all strand singles/pairs/symbols/"
        "ints; all pairs of biotype names; enum layouts; histories over the Codon API (hold every strict / extended / RNA-"
        "spelled codon object, construct every other spelling of the same or another key - lower, mixed, U<->T, "
        "Sequence-typed, ambiguous, refused - and re-ask every question of the held object, both orders); plus mixed-case and malformed texts. Biopython "
        "(Bio.Data.CodonTable tables 1/11, Bio.Seq translate/complement) answers the bio.* operations, which "
        "are compared with the generated tables and with the reference tables. non-trivial = the call returned a "
        "value (did not raise / had an entry); distinct = distinct operation lines")
EXHAUSTIVE_NOTE = ("64 strict codons, all 16^3 IUPAC triplets (T and U), 94 printable characters x 11 alphabets (+1 unknown "
                   "name), frames x shifts [-30,30], all strand pairs, all 40 biotype names pairwise (+ unknown names)")
TRUSTED = ["Gen/Tables.lean + Gen/Kernels.lean regenerated from /repo by tools/translate.py (theorems are about them)",
           "Model/Tables.lean: thin look-up layer over the generated tables, tied by this run's correspondence",
           "Spec/Tables.lean reference tables (NCBI table 1/11, IUPAC) cross-checked against Biopython by the bio.* operations"]
ASSUMPTIONS = ["codon / alphabet texts are ASCII (str.upper() = per-character ASCII upper-casing)",
               "Python ints are unbounded; % with divisor 3 is floor-mod = Lean Int.emod"]
MODEL_OPS = {"hist", "revcomp", "translate", "syn", "is_stop", "is_strict", "is_canon", "is_start", "aacodons", "complement", "complement2",
             "alphabet", "shift", "to_phase", "to_frame", "frame_int", "phase_int", "frame_val", "phase_val",
             "strand_rev", "strand_rel", "strand_sym", "strand_tosym", "strand_int", "strand_val", "strand_lt",
             "biotype", "enum", "bio.std", "bio.complement", "bio.starts", "bio.stops"}

IUPAC = "ACGTURYSWKMBDHVN"
ALPHABETS = ["NT_STRICT", "NT_EXTENDED", "NT_STRICT_GAPPED", "NT_EXTENDED_GAPPED", "NT_STRICT_UNKNOWN", "AA",
             "AA_EXTENDED", "AA_STRICT_GAPPED", "AA_EXTENDED_GAPPED", "AA_STRICT_UNKNOWN", "GENERIC"]
STRANDS = ["PLUS", "MINUS", "UNSTRANDED"]
FRAMES = ["NONE", "ZERO", "ONE", "TWO"]
PRINTABLE = [chr(i) for i in range(33, 127)]


def impl(line):
    return impl_tab_op(line)


def lean_line(line):
    """`fhist` = `hist` played after a registry-saturating history on the implementation side (impl_tables._flood);
    the model and the specification are functions of the texts only"""
    return "hist" + line[5:] if line.startswith("fhist ") else line


def nontrivial(line, ans):
    return line if ans.startswith("ok") else None


def biotype_names():
    from inscripta.biocantor.gene.biotype import Biotype
    return list(Biotype.__members__.keys())


EXTENDED = ["CTN", "GTN", "TCN", "CCN", "ACN", "GCN", "CGN", "GGN"]


def spellings(c, rng):
    """other spellings of codon text c: same key (case variants, Sequence-typed) and different keys (U<->T folds,
    ambiguous generalisations, other codons) plus refused constructions"""
    u2t, t2u = c.replace("U", "T"), c.replace("T", "U")
    mixed = "".join(ch.lower() if i % 2 else ch for i, ch in enumerate(c))
    partial = c.replace("T", "U", 1) if c.count("T") > 1 else None
    out = [c.lower(), mixed, t2u, t2u.lower(), u2t, "seq:" + c, "seq:" + t2u, "seq:" + c.lower(),
           c[:2] + "N", "N" + c[1:], c[:2], c + "A", c[:2] + "X", c[:2] + "-", "seq:" + c[:2] + "E",
           rng.choice(["ATG", "TAA", "TGA", "AUG", "UAA", "UGA", "NNN"])]
    if partial:
        out.append(partial)
    return [s for s in out if s and s != c]


def hist_cases(run, strict64):
    rng = run.rng
    helds = list(strict64) + EXTENDED
    helds += [c.replace("T", "U") for c in strict64 if "T" in c]          # RNA spelling held first, DNA constructed later
    helds += [c.replace("T", "U") for c in EXTENDED if "T" in c]
    helds += [c.lower() for c in ("ATG", "TAA", "CTN")] + ["seq:ATG", "seq:UGA", "seq:tcn", "NNN", "RAY", "YTA"]
    for h in helds:
        text = h[4:] if h.startswith("seq:") else h
        sps = spellings(text.upper() if text.islower() else text, rng)
        if h.startswith("seq:") or text.islower():
            sps.append(text.upper())
        run.count("hist:held")
        for sp in sps:                       # one interleaved construction per line: minimal failing inputs
            yield f"hist {h} 1 {sp}"
        yield f"hist {h} {len(sps)} " + " ".join(sps)            # all of them
        rev = list(reversed(sps))
        yield f"hist {h} {len(rev)} " + " ".join(rev)            # … in the opposite order
        yield f"hist {h} 0"
    for bad in ("AT", "ATGA", "AXG", "seq:ATE", "at-"):
        yield f"hist {bad} 1 ATG"
    # the same histories after a registry-saturating prefix (every triplet in four spellings + refused texts)
    for h in ["ATG", "TTG", "CTG", "GTG", "ATA", "TAA", "TGA", "AUG", "atg", "seq:ATG", "NNN", "RAY", "GGG", "ACN"]:
        run.count("hist:flooded")
        yield f"fhist {h} 0"
        yield f"fhist {h} 2 {h[4:] if h.startswith('seq:') else h} ATG"


def cases(run):
    rng = run.rng
    triplets = ["".join(p) for p in itertools.product(IUPAC, repeat=3)]
    strict64 = ["".join(p) for p in itertools.product("TCAG", repeat=3)]
    run.count("triplets", len(triplets))
    for c in triplets:
        yield f"translate {c} 1"
        yield f"translate {c} 0"
        yield f"syn {c} 0"
        yield f"syn {c} 1"
        yield f"is_stop {c}"
        yield f"is_strict {c}"
        yield f"is_canon {c}"
        for tab in (0, 1, 11):
            yield f"is_start {c} {tab}"
        yield f"bio.consensus {c}"
    for c in strict64:
        yield f"bio.std {c}"
    # histories: hold a codon object, construct other spellings, ask the held object again ----------------
    yield from hist_cases(run, strict64)
    # mixed / lower case and malformed texts
    texts = ["atg", "Atg", "ctn", "cTn", "tga", "AT", "ATGA", "A", "AXG", "A-G", "ATE", "123", "NNNN", "at*", "ZZZ"]
    for _ in range(300 if run.tier == "quick" else 3000):
        c = rng.choice(triplets)
        texts.append("".join(ch.lower() if rng.random() < 0.5 else ch for ch in c))
    for _ in range(60 if run.tier == "quick" else 600):
        n = rng.choice([0, 1, 2, 3, 3, 3, 4, 6]) or 1
        texts.append("".join(rng.choice(IUPAC + IUPAC.lower() + "EXZ-*.0") for _ in range(n)))
    for s in texts:
        run.count("text:" + ("len3" if len(s) == 3 else "other-length"))
        yield f"translate {s} {rng.choice('01')}"
        yield f"syn {s} {rng.choice('01')}"
        yield f"is_stop {s}"
        yield f"is_start {s} {rng.choice([0, 1, 11])}"
    yield "is_start ATG 5"
    yield "is_start ATG 2"
    for ch in PRINTABLE:
        yield f"aacodons {ch}"
        for name in ALPHABETS + ["NT_BOGUS"]:
            yield f"complement {name} {ch}"
            yield f"complement2 {name} {ch}"
    for name in ALPHABETS + ["NT_BOGUS", "nt_strict"]:
        yield f"alphabet {name}"
    # reverse complement of TEXTS: every pair of letters (exhaustive), the empty text, random longer texts
    pool = IUPAC + IUPAC.lower() + "-*X"
    for name in [a for a in ALPHABETS if a.startswith("NT_")] + ["AA", "NT_BOGUS"]:
        yield f"revcomp {name} _"
        for a in pool:
            for b in pool:
                yield f"revcomp {name} {a}{b}"
        for _ in range(150 if run.tier == "quick" else 3000):
            n = rng.choice([3, 3, 4, 5, 8, 13])
            letters = rng.choice([pool, "ACGU", "ACGTU", "acgu", "ACGTN", "AUN", IUPAC])
            yield f"revcomp {name} " + "".join(rng.choice(letters) for _ in range(n))
    for ch in IUPAC + IUPAC.lower() + "-":
        yield f"bio.complement {ch}"
    yield "bio.starts 1"
    yield "bio.starts 11"
    yield "bio.stops"
    # frames / phases
    for f in FRAMES:
        for n in range(-30, 31):
            yield f"shift {f} {n}"
        for _ in range(20 if run.tier == "quick" else 500):
            n = rng.choice([1, -1]) * rng.choice([rng.randint(31, 1000), rng.randint(10 ** 6, 10 ** 9), rng.randint(10 ** 18, 10 ** 30)])
            run.count("shift:large")
            yield f"shift {f} {n}"
        yield f"to_phase {f}"
        yield f"to_frame {f}"
        yield f"frame_val {f}"
        yield f"phase_val {f}"
    for v in range(-4, 6):
        yield f"frame_int {v}"
        yield f"phase_int {v}"
        yield f"strand_int {v}"
    # strands
    for a in STRANDS:
        yield f"strand_rev {a}"
        yield f"strand_tosym {a}"
        yield f"strand_val {a}"
        for b in STRANDS:
            yield f"strand_rel {a} {b}"
            yield f"strand_lt {a} {b}"
    for s in ["+", "-", ".", "*", "++", "plus", "1", "?", "+-"]:
        yield f"strand_sym {s}"
    for e in ("Strand", "CDSFrame", "CDSPhase", "TranslationTable", "StrandOrder"):
        yield f"enum {e}"
    # biotypes: every pair of names (+ names that are not biotypes)
    names = biotype_names() + ["unspecified", "Protein_coding", "mrna"]
    run.count("biotype_names", len(names))
    for a in names:
        for b in names:
            yield f"biotype {a} {b}"
    run.exhaustive = True
