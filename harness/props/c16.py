"""C16 — genomic bins: UCSC scheme; the query bin set never hides a contained/overlapping interval."""
from harness.common import guarded

ID = "C16"
ERR_CLASS = True
LEAN_MODULE = "BioCantor.Props.C16"
DESIGN_REF = "4/C16"
DRIVER = "drivers/C16.lean"
SPEC_DRIVER = "drivers/SpecC16.lean"
DRIVER_MODULES = ["BioCantor.Driver.Main", "BioCantor.Driver.Bins"]
SPEC_DRIVER_MODULES = ["BioCantor.Driver.Main", "BioCantor.Driver.SpecBins"]
GEN_NEEDS = ["bins", "CoordFmt"]
RULE = ("exhaustive band of +-2 around every multiple of 2^17, 2^20, 2^23, 2^26, 2^29 (first 3 and last 2 multiples "
        "below 2^29 per level, plus 2^29 itself) for both coordinates, both conventions, one=True/False, and "
        "(query, interval) containment/overlap pairs drawn from the same band points; then random pairs up to 2^30; the bin "
        "stored at construction by every interval class (also on objects built on a sequence chunk starting at 2^17, "
        "3*2^17+17, 2^20-500, 2^23: the bin is that of the chromosome span) and end-to-end strict/relaxed position "
        "queries on collections without parent and on collections living on a sequence chunk whose bounds / members reach "
        "beyond the chunk (bqueryk). "
        "non-trivial = in-range arguments (0 <= start-off, stop < 2^29) with start <= stop; distinct = distinct lines")
EXHAUSTIVE_NOTE = "the boundary band described in `rule` (complete cross product of the band points)"
TRUSTED = ["Gen.bins is regenerated from util/bins.py by tools/translate.py on every run (theorems are about it)",
           "the correspondence run validates the translator against the imported function"]
ASSUMPTIONS = ["Python ints are unbounded; >> on ints is floor division by 2^n",
               "the library calls bins only with fmt='bed' (both formats are checked here)"]
MAXC = 2 ** 29


def impl(line):
    from inscripta.biocantor.util.bins import bins
    t = line.split()

    def runs(s):
        xs = sorted(s)
        out = []
        for x in xs:
            if out and x <= out[-1][1] + 1:
                out[-1][1] = max(out[-1][1], x)
            else:
                out.append([x, x])
        return " ".join(f"{a}-{b}" for a, b in out)

    def go():
        if t[0] == "bins":
            s, e, fmt, one = int(t[1]), int(t[2]), t[3], t[4] == "1"
            r = bins(s, e, fmt=fmt, one=one)
            if isinstance(r, (set, frozenset)):
                return "ok many " + runs(r)
            if isinstance(r, int):
                return f"ok one {r}"
            return f"err! {type(r).__name__}"
        if t[0] == "binpair":
            qs, qe, fs, fe, fmt = int(t[1]), int(t[2]), int(t[3]), int(t[4]), t[5]
            q = bins(qs, qe, fmt=fmt, one=False)
            b = bins(fs, fe, fmt=fmt, one=True)
            return "ok " + ("true" if b in q else "false")
        if t[0] == "objbin":
            return f"ok one {_objbin(t[1], int(t[2]), int(t[3]))}"
        if t[0] == "bquery":
            return _bquery(t)
        if t[0] == "bqueryk":
            return _bquery(t[:1] + t[5:], chunk=(int(t[1]), int(t[2])), bounds=(int(t[3]), int(t[4])))
        raise KeyError(t[0])
    return guarded(go)


_CLS = {}


def _classes():
    if not _CLS:
        from harness import shims
        shims.install()
        from inscripta.biocantor.gene import (TranscriptInterval, FeatureInterval, GeneInterval,
                                              FeatureIntervalCollection, AnnotationCollection)
        from inscripta.biocantor.gene.variants import VariantInterval, VariantIntervalCollection
        from inscripta.biocantor.location.strand import Strand
        _CLS.update(tx=TranscriptInterval, feat=FeatureInterval, gene=GeneInterval, fcoll=FeatureIntervalCollection,
                    acoll=AnnotationCollection, var=VariantInterval, vcoll=VariantIntervalCollection, plus=Strand.PLUS)
    return _CLS


def _chunk(cs, ce):
    _classes()
    from inscripta.biocantor.io.parser import seq_chunk_to_parent
    return seq_chunk_to_parent("A" * (ce - cs), "chr", cs, ce)


def _objbin(kind, s, e):
    c = _classes()
    P = c["plus"]
    if "@" in kind:          # the object is built on a sequence chunk [cs, ce): its bin is still that of its chromosome span
        kind, win = kind.split("@")
        par = _chunk(*map(int, win.split(":")))
        if kind == "tx":
            return c["tx"]([s], [e], P, parent_or_seq_chunk_parent=par).bin
        if kind == "feat":
            return c["feat"]([s], [e], P, parent_or_seq_chunk_parent=par).bin
        if kind == "gene":
            m = (s + e) // 2
            return c["gene"](transcripts=[c["tx"]([s], [max(s, m)], P, parent_or_seq_chunk_parent=par),
                                          c["tx"]([min(m, e)], [e], P, parent_or_seq_chunk_parent=par)],
                             parent_or_seq_chunk_parent=par).bin
        if kind == "fcoll":
            m = (s + e) // 2
            return c["fcoll"](feature_intervals=[c["feat"]([s], [max(s, m)], P, parent_or_seq_chunk_parent=par),
                                                 c["feat"]([min(m, e)], [e], P, parent_or_seq_chunk_parent=par)],
                              parent_or_seq_chunk_parent=par).bin
        raise KeyError(kind)
    if kind in ("gene3", "fcoll3"):
        # >= 3 members spanning [s, e) in which the FIRST and LAST listed members are tiny neighbours (same finest bin)
        # and a middle one carries the span; the aggregate's bin is that of the whole span, whatever the listing order
        k = "tx" if kind == "gene3" else "feat"
        a, b2 = min(s + 1, e), min(s + 2, e)
        spans = [(s, a), (s, e), (a, b2)]
        members = [c[k]([x], [y], P) for x, y in spans]
        if kind == "gene3":
            return c["gene"](transcripts=members).bin
        return c["fcoll"](feature_intervals=members).bin
    if kind in ("gene3r", "fcoll3r"):
        # the spanning member listed first / last
        k = "tx" if kind == "gene3r" else "feat"
        a, b2 = min(s + 1, e), min(s + 2, e)
        members = [c[k]([x], [y], P) for x, y in [(s, e), (s, a), (a, b2)]]
        if kind == "gene3r":
            return c["gene"](transcripts=members).bin
        return c["fcoll"](feature_intervals=members[::-1]).bin
    if kind == "tx":
        return c["tx"]([s], [e], P).bin
    if kind == "feat":
        return c["feat"]([s], [e], P).bin
    if kind == "gene":      # two isoforms spanning [s, e)
        m = (s + e) // 2
        return c["gene"](transcripts=[c["tx"]([s], [max(s, m)], P), c["tx"]([min(m, e), ], [e], P)]).bin
    if kind == "fcoll":
        m = (s + e) // 2
        return c["fcoll"](feature_intervals=[c["feat"]([s], [max(s, m)], P), c["feat"]([min(m, e)], [e], P)]).bin
    if kind == "var":
        return c["var"](s, e, "A", "SNV").bin
    if kind == "vcoll":
        return c["vcoll"]([c["var"](s, e, "A", "SNV")]).bin
    if kind == "acoll":
        return c["acoll"](genes=[c["gene"](transcripts=[c["tx"]([s], [e], P)])]).bin
    raise KeyError(kind)


def _bquery(t, chunk=None, bounds=None):
    c = _classes()
    P = c["plus"]
    par = _chunk(*chunk) if chunk else None
    kw = dict(parent_or_seq_chunk_parent=par) if par else {}
    cw, qs, qe, n = t[1] == "1", int(t[2]), int(t[3]), int(t[4])
    i = 5
    genes, fcs, order = [], [], []
    for ci in range(n):
        kind, k = t[i], int(t[i + 1])
        i += 2
        spans = [(int(t[i + 2 * j]), int(t[i + 2 * j + 1])) for j in range(k)]
        i += 2 * k
        if kind == "g":
            genes.append(c["gene"](transcripts=[c["tx"]([s], [e], P, **kw) for s, e in spans], gene_id=f"c{ci}", **kw))
        else:
            fcs.append(c["fcoll"](feature_intervals=[c["feat"]([s], [e], P, **kw) for s, e in spans],
                                  feature_collection_id=f"c{ci}", **kw))
    if par:     # a collection whose bounds may reach beyond the sequence chunk it has sequence for
        coll = c["acoll"](genes=genes, feature_collections=fcs, start=bounds[0], end=bounds[1], **kw)
    else:
        coll = c["acoll"](genes=genes, feature_collections=fcs, start=0, end=2 ** 31)
    res = coll.query_by_position(qs, qe, completely_within=cw)
    kept = sorted(int((getattr(ch, "gene_id", None) or getattr(ch, "feature_collection_id", None))[1:])
                  for ch in res.iter_children())
    return "ok " + " ".join(map(str, kept))


def nontrivial(line, ans):
    t = line.split()
    if t[0] in ("objbin", "bquery", "bqueryk"):
        return line if ans.startswith("ok") else None
    if t[0] == "bins":
        s, e, off = int(t[1]), int(t[2]), (1 if t[3] == "gff" else 0)
        return line if 0 <= s - off and s <= e < MAXC else None
    qs, qe, fs, fe = map(int, t[1:5])
    return line if 0 <= qs <= fs <= fe <= qe else None


def band_points(tier):
    pts = set()
    for k in (17, 20, 23, 26, 29):
        n = 2 ** (29 - k)
        mult = sorted({0, 1, 2, 3, n - 2, n - 1, n} & set(range(0, n + 1)))
        if tier == "thorough":
            mult = sorted(set(mult) | {4, 5, 7, 8, 9, n // 2, n // 2 + 1} & set(range(0, n + 1)))
        for m in mult:
            for d in (-2, -1, 0, 1, 2):
                pts.add(m * 2 ** k + d)
    pts |= {-1, 0, 1, 2, 2 ** 30, 2 ** 29 + 5}
    return sorted(pts)


def cases(run):
    pts = band_points(run.tier)
    run.count("band_points", len(pts))
    # single calls: complete cross product
    sub = pts if run.tier == "thorough" else pts[::1]
    for s in sub:
        for e in sub:
            if e < s - 3:
                continue
            for fmt in ("bed", "gff"):
                yield f"bins {s} {e} {fmt} 1"
            yield f"bins {s} {e} bed 0"
            if run.tier == "thorough":
                yield f"bins {s} {e} gff 0"
    run.exhaustive = True
    # containment / overlap pairs
    n = 6000 if run.tier == "quick" else 200000
    rng = run.rng
    for _ in range(n):
        mode = rng.random()
        if mode < 0.6:
            qs, qe = sorted((rng.choice(pts), rng.choice(pts)))
            fs = rng.choice([qs, qs + rng.randint(0, 5), rng.choice(pts), rng.randint(min(qs, qe), max(qs, qe))])
            fe = rng.choice([qe, fs, fs + rng.randint(0, 300000), rng.choice(pts), rng.randint(min(fs, qe), max(fs, qe))])
        else:
            qs = rng.randint(0, 2 ** 30)
            qe = qs + rng.choice([0, 1, 1000, 2 ** 17, 2 ** 20, 2 ** 26, 2 ** 29])
            fs = rng.randint(max(0, qs - 1000), qe + 1000)
            fe = fs + rng.choice([0, 1, 50, 131072, 2 ** 21])
        fmt = "bed" if rng.random() < 0.8 else "gff"
        kind = ("contained" if qs <= fs <= fe <= qe else "overlap" if (fs <= qe and qs <= fe and fs <= fe) else "other")
        run.count("pair:" + kind)
        if qe >= MAXC:
            run.count("pair:query-past-2^29")
        yield f"binpair {qs} {qe} {fs} {fe} {fmt}"
    # the bin stored at construction by every interval class, at bin-boundary aligned spans
    aligned = [p for p in pts if 0 <= p < 2 ** 29 + 4]
    kinds = ["tx", "feat", "gene", "fcoll", "var", "acoll", "gene3", "fcoll3", "gene3r", "fcoll3r"]
    for kind in kinds:
        for s in (aligned if run.tier == "thorough" else aligned[::2]):
            for d in (1, 2, 131072, 131073, 2 ** 20):
                if kind.endswith(("3", "3r")) and d < 3:
                    d += 2          # three distinct members need a span of >= 3
                yield f"objbin {kind} {s} {s + d}"
    # the same on objects built on a sequence chunk that starts beyond the first bin boundaries: the stored bin is the
    # bin of the CHROMOSOME span (queries bin chromosome coordinates), not of the chunk-relative one
    for kind in ("tx", "feat", "gene", "fcoll"):
        for cs in (131072, 131072 * 3 + 17, 2 ** 20 - 500, 2 ** 23):
            for (ds, ln, pad) in ((0, 1, 50), (5, 700, 100), (100, 3000, 0), (40, 131073, 9)):
                s0 = cs + ds
                yield f"objbin {kind}@{cs}:{s0 + ln + pad} {s0} {s0 + ln}"
    # strict / relaxed queries on a collection that lives on a sequence chunk; its bounds may reach beyond the chunk
    # and members may lie beyond it (in another finest bin than the chunk end) -- the pre-filter must not hide them
    for _ in range(300 if run.tier == "quick" else 6000):
        cs = rng.choice([131072, 200000, 2 ** 20 - 3000, 2 ** 20, 2 ** 23 + 77])
        clen = rng.choice([2000, 30000, 60000])
        ce = cs + clen
        bs = cs - rng.choice([0, 0, 500]) if cs > 500 else cs
        be = ce + rng.choice([0, 0, 1000, 140000, 500000])
        kids = []
        for _c in range(rng.randint(1, 4)):
            where = rng.random()
            if where < 0.5:
                base = rng.randint(bs, max(bs, ce - 10))
            else:
                base = rng.randint(bs, max(bs, be - 10))
            k = rng.choice([1, 1, 2])
            spans, pos = [], base
            for _m in range(k):
                ln = rng.choice([1, 300, 2500])
                if pos + ln > be:
                    break
                spans.append((pos, pos + ln))
                pos += ln + rng.choice([0, 400, 131072])
            if spans:
                kids.append((rng.choice("gf"), spans))
        if not kids:
            continue
        for _q in range(3):
            qs = rng.choice([bs, cs, rng.randint(bs, be - 1), max(bs, ce - rng.choice([600, 3000, 10000]))])
            qe = rng.choice([be, ce, rng.randint(qs + 1, be), min(be, ce + rng.choice([1, 2544, 131072, 400000]))])
            if not (bs <= qs < qe <= be):
                continue
            cw = rng.choice("011")
            run.count("bqueryk:" + ("strict" if cw == "1" else "relaxed"))
            desc = " ".join(f"{k} {len(sp)} " + " ".join(f"{s} {e}" for s, e in sp) for k, sp in kids)
            yield f"bqueryk {cs} {ce} {bs} {be} {cw} {qs} {qe} {len(kids)} {desc}"
    # end-to-end position queries: multi-member children whose members sit in different bins, query windows
    # in and around the gaps (the pre-filter looks at the members' bins, the answer at the child's span)
    for _ in range(400 if run.tier == "quick" else 8000):
        n = rng.randint(1, 4)
        kids = []
        for _c in range(n):
            base = rng.choice(aligned[:-6]) + rng.choice([0, 1, 5000, 131072 * rng.randint(0, 12)])
            k = rng.choice([1, 2, 2, 3])
            spans, pos = [], base
            for _m in range(k):
                ln = rng.choice([1, 500, 3000, 131072, 300000])
                spans.append((pos, pos + ln))
                pos += ln + rng.choice([0, 1000, 131072, 300000, 2 ** 21])
            kids.append((rng.choice("gf"), spans))
        lo = min(s for _, sp in kids for s, _ in sp)
        hi = max(e for _, sp in kids for _, e in sp)
        for _q in range(4):
            mode = rng.random()
            if mode < 0.4:      # a window inside a gap between members
                _, sp = rng.choice(kids)
                if len(sp) > 1:
                    j = rng.randrange(len(sp) - 1)
                    a, b = sp[j][1], sp[j + 1][0]
                    qs = rng.randint(a, max(a, b - 1))
                    qe = rng.randint(qs + 1, max(qs + 1, b))
                else:
                    qs, qe = sp[0][0], sp[0][1]
            elif mode < 0.7:    # exactly / just around a child's span
                _, sp = rng.choice(kids)
                qs = max(0, sp[0][0] - rng.choice([0, 0, 1, 131072]))
                qe = sp[-1][1] + rng.choice([0, 0, 1, 131072])
            else:
                qs = rng.randint(max(0, lo - 10), hi)
                qe = rng.randint(qs + 1, hi + 300000)
            cw = rng.choice("01")
            run.count("bquery:" + ("strict" if cw == "1" else "relaxed"))
            desc = " ".join(f"{k} {len(sp)} " + " ".join(f"{s} {e}" for s, e in sp) for k, sp in kids)
            yield f"bquery {cw} {qs} {qe} {len(kids)} {desc}"
    for _ in range(2000 if run.tier == "quick" else 50000):
        s = rng.randint(-5, 2 ** 30)
        e = s + rng.choice([0, 1, 7, 131071, 131072, 10 ** 6, 10 ** 8])
        yield f"bins {s} {e} {rng.choice(['bed', 'gff'])} {rng.choice('01')}"
