"""C03 — extracted sequence is the base-by-base image of the coordinate map; derived Sequence objects keep
their location on the parent consistent with their characters."""
from harness import gen_loc
from harness.impl_loc import enc_loc
from harness.impl_seq import impl_seq_op

WARM_TWINS = {"quick": 0.02, "thorough": 0.05}      # engine: call-history twins (harness/warm.py)
DECOY_TWINS = {"quick": 0.02, "thorough": 0.05}     # engine: decoy twins (harness/decoy.py)
ID = "C03"
LEAN_MODULE = "BioCantor.Props.C03"
DESIGN_REF = "4/C03"
DRIVER = "drivers/C03.lean"
SPEC_DRIVER = "drivers/SpecC03.lean"
DRIVER_MODULES = ["BioCantor.Driver.Main", "BioCantor.Driver.Sequence"]
SPEC_DRIVER_MODULES = ["BioCantor.Driver.Main", "BioCantor.Driver.SpecSequence"]
RULE = ("exhaustive small layouts (see exhaustive_scope) on random parent sequences of every nucleotide alphabet "
        "(upper/lower case, IUPAC codes, gaps): extract / reverse-strand / every split point; sequence objects: all "
        "slice bounds (None, negative, past the end, reversed) x steps (None, 1, 2, -1), all int indices, reverse "
        "complement, chains of those; append of all pairs of sub-slices and of independent locations; then random "
        "layouts with up to 6 blocks on sequences up to 60 letters.  non-trivial = the location has >= 2 blocks or is "
        "on the minus strand and the library answered ok; distinct = distinct operation lines")
EXHAUSTIVE_NOTE = ""
TRUSTED = ["Model/Sequence.lean is hand-written; tied to location_impl.py / sequence.py / parent.py by this run's correspondence",
           "complement maps: Gen/Tables.lean regenerated from alphabet.py (C15 proves them equal to the IUPAC complement)",
           "Model/Algebra.lean `unionP` (C02) is used for the location of an appended sequence"]
ASSUMPTIONS = ["one parent (id chr) carrying the sequence; locations of derived sequences are on that parent",
               "sequence texts are ASCII without spaces", "sequence_type is None on all objects"]
NT = ["NT_STRICT", "NT_EXTENDED", "NT_STRICT_GAPPED", "NT_EXTENDED_GAPPED", "NT_STRICT_UNKNOWN"]
LETTERS = {"NT_STRICT": "ACGT", "NT_EXTENDED": "ATUCGNWSMKRYBDHV", "NT_STRICT_GAPPED": "ACGT-",
           "NT_EXTENDED_GAPPED": "ATUCGNWSMKRYBDHV-", "NT_STRICT_UNKNOWN": "ATGCN",
           "AA": "GALMFWKQESPVICYHRNDT*", "GENERIC": "ABCDEFGHIJKLMNOPQRSTUVWXYZ-"}


def impl(line):
    return impl_seq_op(line)


def nontrivial(line, ans):
    if not ans.startswith("ok"):
        return None
    t = line.split()
    if "-" in [t[i + 1] for i in range(len(t) - 1) if t[i] in ("S", "C")]:
        return line
    if any(t[i] == "C" and t[i + 2].isdigit() and int(t[i + 2]) >= 2 for i in range(len(t) - 2)):
        return line
    return None


def rand_seq(rng, alph, n, no_u=False):
    letters = LETTERS[alph]
    if no_u:
        letters = letters.replace("U", "")
    return "".join((c.lower() if rng.random() < 0.35 else c) for c in (rng.choice(letters) for _ in range(n)))


def enc_prog(prog):
    out = [str(len(prog))]
    for st in prog:
        if st[0] == "sl":
            out += ["sl"] + ["N" if v is None else str(v) for v in st[1:]]
        elif st[0] == "ix":
            out += ["ix", str(st[1])]
        else:
            out.append("rc")
    return " ".join(out)


def loc_len(blocks):
    return sum(e - s for s, e in blocks)


def _locs(blocks, strands=("+", "-")):
    for st in strands:
        kinds = ["S", "C"] if len(blocks) == 1 else ["C"]
        for kind in kinds:
            yield st, enc_loc(kind, st, blocks)


def cases(run):
    global EXHAUSTIVE_NOTE
    rng = run.rng
    quick = run.tier == "quick"
    scopes = [(2, 4), (3, 3)] if quick else [(2, 6), (3, 4), (4, 3)]
    EXHAUSTIVE_NOTE = ("all layouts (incl. zero-length, adjacent, nested, duplicate blocks) with " + ", ".join(
        f"<= {k} blocks on positions 0..{g}" for k, g in scopes) +
        " x strands + - . x 5 nucleotide alphabets (one random parent sequence per layout and alphabet): extract, "
        "reverse_strand, every split point, identity-like re-constructions (reset_strand to each strand, reverse_strand "
        "twice, reset_parent(same), optimize_blocks, shift_position(0)) followed by extraction; a deterministic half of "
        "all lines (crc32 of the line odd) runs with the lazily cached state of every operand filled beforehand; slices: every (start, stop) in {None, -n-2..n+2}^2 x step in {None,1,2,-1,0} and "
        "every int index in [-n-2, n+2] on all layouts with <= 2 blocks on positions 0..%d (both strands); append: "
        "pairs of sub-slices of those objects (all pairs in the thorough tier)" % (2 if quick else 3))
    seen = set()
    layouts = []
    for k, g in scopes:
        for blocks in gen_loc.layouts_exhaustive(k, g):
            key = tuple(blocks)
            if key in seen:
                continue
            seen.add(key)
            layouts.append(blocks)
    # 1 extraction laws on every small layout ------------------------------------------------------
    for blocks in layouts:
        for tag in gen_loc.classify(blocks):
            run.count("layout:" + tag)
        hi = max(e for _, e in blocks)
        for alph in NT:
            p = rand_seq(rng, alph, hi + rng.randint(0, 3))
            if not p:
                p = rand_seq(rng, alph, 1)
            for st, loc in _locs(blocks, ("+", "-", ".")):
                yield f"extract {alph} ~{p} {loc}"
                if alph in ("NT_EXTENDED_GAPPED", "NT_STRICT") or rng.random() < 0.3:
                    yield f"revstrand {alph} ~{p} {loc}"
                    if st != ".":
                        n = loc_len(blocks)
                        for k in range(-1, n + 2):
                            if quick and alph != "NT_EXTENDED_GAPPED" and rng.random() < 0.6:
                                continue
                            yield f"split {alph} ~{p} {loc} {k}"
    # 1b identity-like re-constructions followed by extraction (half of all lines run with warmed caches) ----------
    xforms = ["rs +", "rs -", "rs .", "rev2", "rp", "opt", "sh0"]
    for blocks in layouts:
        if quick and len(blocks) == 3 and rng.random() < 0.5:
            continue
        hi = max(e for _, e in blocks)
        alph = rng.choice(NT)
        p = rand_seq(rng, alph, hi + rng.randint(0, 2)) or rand_seq(rng, alph, 1)
        for st, loc in _locs(blocks, ("+", "-", ".") if not quick or rng.random() < 0.25 else ("+", "-")):
            for t in xforms:
                run.count("xform:" + t.split()[0])
                yield f"xform {alph} ~{p} {loc} {t}"
    for t in xforms:
        yield f"xform NT_STRICT ~ACGT E {t}"
        yield f"xform NT_STRICT ~ACGT S + 2 9 {t}"
    # other alphabets and malformed locations (model correspondence; the spec is n/a or demands refusal)
    for alph in ("AA", "GENERIC"):
        p = rand_seq(rng, alph, 8)
        for loc in ("S + 1 5", "S - 1 5", "S . 1 5", "C + 2 0 2 4 6", "C - 2 0 2 4 6", "S - 3 3", "C - 1 3 3"):
            yield f"extract {alph} ~{p} {loc}"
        yield f"seqprog {alph} ~{p} S + 1 5 1 rc"
        yield f"seqprog {alph} ~{p} S + 1 5 1 sl 1 3 N"
    for loc in ("S + 3 9", "S + 5 2", "S + -1 2", "C + 2 0 2 7 9", "C + 1 4 2", "C + 0", "E"):
        yield f"extract NT_STRICT ~ACGTACGT {loc}"
        yield f"seqprog NT_STRICT ~ACGTACGT {loc} 0"
    run.exhaustive = True
    # 2 sequence objects: all slice bounds / indices on short sequences ---------------------------------
    small_hi = 2 if quick else 3
    small = [b for b in layouts if len(b) <= 2 and max(e for _, e in b) <= small_hi]
    steps_vals = [None, 1, 2, -1, 0]
    for blocks in small:
        n = loc_len(blocks)
        hi = max(e for _, e in blocks)
        alph = rng.choice(NT)
        p = rand_seq(rng, alph, hi + 1)
        for st, loc in _locs(blocks):
            bounds = [None] + list(range(-n - 2, n + 3))
            for a in bounds:
                for b in bounds:
                    for c in (steps_vals if (quick and rng.random() < 0.15) or not quick else [None]):
                        yield f"seqprog {alph} ~{p} {loc} {enc_prog([('sl', a, b, c)])}"
            for i in range(-n - 2, n + 3):
                yield f"seqprog {alph} ~{p} {loc} {enc_prog([('ix', i)])}"
            yield f"seqprog {alph} ~{p} {loc} {enc_prog([('rc',)])}"
            yield f"seqprog {alph} ~{p} {loc} {enc_prog([('rc',), ('rc',)])}"
            for a in range(0, n + 1):
                for b in range(a, n + 1):
                    yield f"seqprog {alph} ~{p} {loc} {enc_prog([('sl', a, b, None), ('rc',)])}"
                    yield f"seqprog {alph} ~{p} {loc} {enc_prog([('rc',), ('sl', a, b, None)])}"
    # 3 append: all pairs of sub-slices of one object; U-free parents when rc is involved --------------------
    ap_layouts = [b for b in small if loc_len(b) >= 1]
    for blocks in ap_layouts:
        n = loc_len(blocks)
        hi = max(e for _, e in blocks)
        alph = rng.choice(NT)
        p = rand_seq(rng, alph, hi + 1, no_u=True)
        for st, loc in _locs(blocks):
            sl = [(a, b) for a in range(0, n + 1) for b in range(a, n + 1)]
            for (a, b) in sl:
                for (c, d) in sl:
                    if quick and rng.random() < 0.5:
                        continue
                    run.count("append:" + ("ordered" if b <= c else "other"))
                    yield (f"append {alph} ~{p} {loc} {enc_prog([('sl', a, b, None)])} "
                           f"{loc} {enc_prog([('sl', c, d, None)])}")
            yield f"append {alph} ~{p} {loc} {enc_prog([('rc',)])} {loc} {enc_prog([])}"
            yield f"append {alph} ~{p} {loc} {enc_prog([])} {loc} {enc_prog([])}"
    # 4 random larger inputs -------------------------------------------------------------------------------
    nrand = 250 if quick else 6000
    for _ in range(nrand):
        blocks = gen_loc.random_layout(rng, max_blocks=6, max_coord=rng.choice([12, 30, 60]))
        for tag in gen_loc.classify(blocks):
            run.count("rand-layout:" + tag)
        hi = max(e for _, e in blocks)
        alph = rng.choice(NT)
        no_u = rng.random() < 0.6
        p = rand_seq(rng, alph, hi + rng.randint(0, 5), no_u=no_u) or "A"
        st = rng.choice("+-")
        loc = enc_loc("C", st, blocks) if len(blocks) > 1 or rng.random() < 0.5 else enc_loc("S", st, blocks)
        n = loc_len(blocks)
        yield f"extract {alph} ~{p} {loc}"
        yield f"revstrand {alph} ~{p} {loc}"
        yield f"split {alph} ~{p} {loc} {rng.randint(0, n)}"
        yield f"xform {alph} ~{p} {loc} {rng.choice(['rs +', 'rs -', 'rev2', 'rp', 'opt', 'sh0'])}"
        # a random chain of steps
        prog = []
        cur = n
        for _ in range(rng.randint(1, 4)):
            r = rng.random()
            if r < 0.55:
                a = rng.randint(0, cur)
                b = rng.randint(a, cur)
                if rng.random() < 0.2:
                    a, b = rng.choice([(None, b), (a, None), (None, None), (a - cur, b), (a, b - cur - 1), (a, cur + 3), (b, a)])
                prog.append(("sl", a, b, None if rng.random() < 0.9 else rng.choice([1, 2, -1])))
                cur = len(range(*slice(a, b).indices(cur)))
            elif r < 0.7 and cur > 0:
                prog.append(("ix", rng.randint(0, cur - 1)))
                cur = 1
            else:
                prog.append(("rc",))
        run.count("prog:len=%d" % len(prog))
        yield f"seqprog {alph} ~{p} {loc} {enc_prog(prog)}"
        # append of two independent sub-locations (ordered or not), optionally both reverse-complemented
        if n >= 2 and no_u:
            a = rng.randint(0, n - 1)
            b = rng.randint(a, n)
            c = rng.randint(0, n)
            d = rng.randint(c, n)
            tail = [("rc",)] if rng.random() < 0.25 else []
            run.count("append:rand-" + ("ordered" if b <= c else "other"))
            yield (f"append {alph} ~{p} {loc} {enc_prog([('sl', a, b, None)] + tail)} "
                   f"{loc} {enc_prog([('sl', c, d, None)] + tail)}")
        # two separate locations on the same parent
        if len(blocks) >= 2 and no_u:
            cut = rng.randint(1, len(sorted(blocks)) - 1)
            sb = sorted(blocks)
            l1 = enc_loc("C" if cut > 1 else "S", st, sb[:cut])
            l2 = enc_loc("C" if len(sb) - cut > 1 else "S", st, sb[cut:])
            first, second = (l1, l2) if st == "+" else (l2, l1)
            if rng.random() < 0.2:
                first, second = second, first
            yield f"append {alph} ~{p} {first} 0 {second} 0"
