"""C01 — location <-> parent coordinate maps."""
import itertools

from harness import gen_loc
from harness.impl_loc import impl_loc_op, enc_loc, strip_history, XFORMS, FLIP

ID = "C01"
ERR_CLASS = True
LEAN_MODULE = "BioCantor.Props.C01"
DESIGN_REF = "4/C01"
# Gen kernels (regenerated from source) = hand-written model; C01Ties2 = the block loops of CompoundInterval
EXTRA_LEAN_MODULES = ["BioCantor.Props.C01Ties", "BioCantor.Props.C01Ties2"]
GEN_NEEDS = ["SingleInterval_", "Strand_", "CompoundInterval_scan_blocks", "CompoundInterval_parent_to_relative_pos",
             "CompoundInterval_relative_to_parent_pos", "CompoundInterval_relative_interval_to_parent_location",
             "CompoundInterval_is_overlapping", "CompoundInterval_has_overlap", "CompoundInterval_combine_blocks",
             "CompoundInterval_optimize_blocks", "CompoundInterval_optimize_and_combine_blocks",
             "CompoundInterval_gap_list"]   # ("SingleInterval_" covers SingleInterval_has_overlap)
DRIVER = "drivers/C01.lean"
SPEC_DRIVER = "drivers/SpecC01.lean"
DRIVER_MODULES = ["BioCantor.Driver.Main", "BioCantor.Driver.Loc"]
SPEC_DRIVER_MODULES = ["BioCantor.Driver.Main", "BioCantor.Driver.SpecLoc"]
RULE = ("exhaustive small layouts (see exhaustive_scope) x every position / sub-interval, then random layouts "
        "with up to 8 blocks; a case is non-trivial when the location has >= 2 blocks and the real library "
        "answered ok; distinct = distinct operation lines")
EXHAUSTIVE_NOTE = ""
TRUSTED = ["Model/Location.lean is hand-written; tied to location_impl.py by this run's correspondence",
           "Gen/Kernels.lean (SingleInterval kernels and the CompoundInterval block loops) regenerated from source, "
           "proved equal to the model (Props/C01Ties, C01Ties2) and executed against the real library (ops gp2r/gr2p/grelint)",
           "GenPrelude.lean: the CI view of a parent-less CompoundInterval (guarded by translate.py: ci_view_guards)"]
ASSUMPTIONS = ["locations without parents (parent gates are C02/C04)",
               "coordinates are non-negative ints; Python ints modelled as unbounded Int/Nat"]
MODEL_OPS = None
STRANDS = ["+", "-"]
G_OPS = {"gp2r", "gr2p", "grelint", "goptimize", "goptcombine", "ggaplist", "gisov", "ghasov"}
G_TWIN = {"p2r": "gp2r", "r2p": "gr2p", "relint": "grelint"}


def _with_twins(lines, run, share):
    """every line, plus — for a `share` of the p2r/r2p/relint lines — the twin line whose model answer comes from the
    GENERATED kernels (same real-library call on the implementation side)"""
    hshare = 0.08 if run.tier == "quick" else 0.2
    for ln in lines:
        yield ln
        op, _, rest = ln.partition(" ")
        if op in ("r2p", "p2r", "relint", "locrel", "optimize", "len") and run.rng.random() < hshare:
            h = _hist_twin(ln, run.rng)
            if h:
                run.count("history-twin:" + h.split()[2])
                yield h
        if op in G_TWIN and run.rng.random() < share:
            run.count("gen-twin:" + G_TWIN[op])
            yield f"{G_TWIN[op]} {rest}"


def impl(line):
    return impl_loc_op(line)


def lean_line(line):
    """history-free form of a line for the Lean drivers (see engine.evaluate)"""
    return " ".join(strip_history(line.split())) if " H " in line else line


def _hist_twin(line, rng):
    """the same mathematical operation reached through a CALL HISTORY: the location is first built on another strand
    (or the same), asked every argument-less question (blocks, is_overlapping, maps, … : caches warm), and only then
    brought to the strand of the line by reset_strand / reverse_strand / shift_position(0) / reset_parent"""
    t = line.split()
    if len(t) < 4 or t[1] not in ("S", "C"):
        return None
    st = t[2]
    xf = rng.choice(["rs" + st, "rs" + st, "rv", "rv2", "sh0", "rp"])
    if xf.startswith("rs"):
        inner = rng.choice([x for x in "+-." if x != st] + [st])
    elif xf == "rv":
        inner = FLIP[st]
    else:
        inner = st
    return " ".join([t[0], "H", xf, t[1], inner] + t[3:])


# the interval-class wrappers of the coordinate maps (sequence_pos_to_feature / feature_pos_to_sequence and the interval
# forms, on whole-chromosome, parent-less and sequence-chunk parents) are observed through C06's operations
BORROW = [dict(prop="c06", max=6000,
               ops={"c2t", "t2c", "ci2t", "ti2c", "kc2t", "kt2c", "kci2t", "cr2t", "t2cr", "cri2t", "ti2cr"},
               why="C01 observe_at: AbstractFeatureInterval.sequence_pos_to_feature / feature_pos_to_sequence wrappers")]


def spec_skip(line):
    """Spec.bases materialises every covered position: skip the spec on huge coordinates / many blocks
    (those cases are compared against the model only)."""
    t = strip_history(line.split())
    if t[0] in G_OPS:      # answered by the generated kernels on the model side; the spec judges the twin p2r/r2p/relint line
        return True
    return len(t) > 400 or any(len(x) > 4 for x in t[2:])


def nontrivial(line, ans):
    t = strip_history(line.split())
    if not ans.startswith("ok"):
        return None
    if t[1] == "C" and int(t[3]) >= 2:
        return line
    return None


def _ops_for(kind, st, blocks, run, dense=True):
    loc = enc_loc(kind, st, blocks)
    ln = sum(e - s for s, e in blocks)
    hi = max(e for _, e in blocks)
    for r in range(-1, ln + 2):
        yield f"r2p {loc} {r}"
    for p in range(-1, hi + 2):
        yield f"p2r {loc} {p}"
    pairs = [(a, b) for a in range(0, ln + 1) for b in range(a, ln + 1)]
    pairs += [(-1, 0), (1, 0), (0, ln + 1), (ln, ln + 1), (ln + 1, ln + 1)]
    if not dense and len(pairs) > 12:
        pairs = run.rng.sample(pairs, 12)
    for (a, b) in pairs:
        for rst in ("+", "-", "."):
            yield f"relint {loc} {a} {b} {rst}"


def cases(run):
    yield from _with_twins(_cases(run), run, 0.25 if run.tier == "quick" else 0.5)


def _cases(run):
    global EXHAUSTIVE_NOTE
    scopes = [(2, 5), (3, 3)] if run.tier == "quick" else [(2, 7), (3, 5), (4, 3)]
    EXHAUSTIVE_NOTE = "all layouts (incl. zero-length, adjacent, nested, duplicate blocks) with " + ", ".join(
        f"<= {k} blocks on a genome of length {g}" for k, g in scopes) + \
        "; strands + - and .; every relative position in [-1, len+1], every parent position in [-1, end+1], " \
        "every 0<=s<=e<=len plus 5 out-of-range requests x relative strand + - ."
    seen = set()
    for k, g in scopes:
        for blocks in gen_loc.layouts_exhaustive(k, g):
            key = tuple(blocks)
            if key in seen:
                continue
            seen.add(key)
            for tag in gen_loc.classify(blocks):
                run.count("layout:" + tag)
            for st in ("+", "-", "."):
                kinds = ["S", "C"] if len(blocks) == 1 else ["C"]
                for kind in kinds:
                    if st == "." and len(blocks) > 2:
                        continue
                    yield from _ops_for(kind, st, blocks, run)
                    if kind == "C" and run.rng.random() < 0.5:
                        # the generated _combine_blocks loop (optimize_blocks / optimize_and_combine_blocks) vs the library
                        yield f"goptimize {enc_loc(kind, st, blocks)}"
                        yield f"goptcombine {enc_loc(kind, st, blocks)}"
                        yield f"ggaplist {enc_loc(kind, st, blocks)}"
                        yield f"gisov {enc_loc(kind, st, blocks)}"
                        hi = max(e for _, e in blocks)
                        s0 = run.rng.randint(0, hi + 1)
                        yield (f"ghasov {enc_loc(kind, st, blocks)} "
                               f"{enc_loc('S', run.rng.choice('+-.'), [(s0, run.rng.randint(s0, hi + 2))])} "
                               f"{run.rng.choice('01')}")
    # relative-location form: all ordered pairs of small layouts
    pg = 3 if run.tier == "quick" else 4
    small = list(gen_loc.layouts_exhaustive(2, pg))
    for a in small:
        for b in small:
            for sa in "+-":
                for sb in "+-":
                    ka = "S" if len(a) == 1 else "C"
                    kb = "S" if len(b) == 1 else "C"
                    yield f"locrel {enc_loc(ka, sa, a)} {enc_loc(kb, sb, b)} {run.rng.choice('01')}"
    run.count("locrel-pairs", len(small) ** 2 * 4)
    run.exhaustive = True
    # random larger layouts
    n = 150 if run.tier == "quick" else 4000
    for _ in range(n):
        scale = run.rng.choice([40, 200, 5000, 10**6])
        blocks = gen_loc.random_layout(run.rng, max_blocks=8, max_coord=scale)
        for tag in gen_loc.classify(blocks):
            run.count("rand-layout:" + tag)
        st = run.rng.choice(STRANDS)
        loc = enc_loc("C", st, blocks)
        ln = sum(e - s for s, e in blocks)
        hi = max(e for _, e in blocks)
        for _ in range(6):
            yield f"r2p {loc} {run.rng.randint(-1, ln + 1)}"
            yield f"p2r {loc} {run.rng.randint(0, hi + 1)}"
            a = run.rng.randint(0, ln)
            b = run.rng.randint(a, ln)
            yield f"relint {loc} {a} {b} {run.rng.choice('+-.')}"
        yield f"goptimize {loc}"
        yield f"goptcombine {loc}"
        yield f"ggaplist {loc}"
        yield f"gisov {loc}"
        s0 = run.rng.randint(0, hi + 1)
        yield (f"ghasov {loc} {enc_loc('S', run.rng.choice('+-.'), [(s0, run.rng.randint(s0, hi + 2))])} "
               f"{run.rng.choice('01')}")
        s1 = run.rng.randint(0, hi + 1)
        yield (f"ghasov {enc_loc('S', run.rng.choice('+-.'), [(s1, run.rng.randint(s1, hi + 2))])} "
               f"{enc_loc('S', run.rng.choice('+-.'), [(s0, run.rng.randint(s0, hi + 2))])} {run.rng.choice('01')}")
        if scale <= 5000:
            other = gen_loc.random_layout(run.rng, max_blocks=6, max_coord=scale, p_overlap=0.05)
            yield f"locrel {loc} {enc_loc('C', run.rng.choice(STRANDS), other)} {run.rng.choice('01')}"
            yield f"locrel {enc_loc('C', run.rng.choice(STRANDS), other)} {loc} {run.rng.choice('01')}"
    # many-block location (F-C19c regression: one recursive call per block)
    big = [(3 * i, 3 * i + 2) for i in range(1500)]
    for st in STRANDS:
        yield f"r2p {enc_loc('C', st, big)} 2999"
        yield f"r2p {enc_loc('C', st, big)} 0"
