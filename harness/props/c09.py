"""C09 — collection queries return exactly the specified members, self-consistently."""
import itertools

WARM_TWINS = {"quick": 0.004, "thorough": 0.02}      # engine: call-history twins (harness/warm.py)
DECOY_TWINS = {"quick": 0.03, "thorough": 0.1}     # engine: decoy twins (harness/decoy.py) ...


def DECOY_PICK(line):
    """... on the lines whose collection sits on a parent WITH sequence (whole chromosome `W`, chunk `K`): only there can
    an answer carry bases that belong to another object"""
    t = line.split(" ", 2)
    return len(t) > 1 and t[1] in ("W", "K")


ID = "C09"
LEAN_MODULE = "BioCantor.Props.C09"
DESIGN_REF = "4/C09"
DRIVER = "drivers/C09.lean"
SPEC_DRIVER = "drivers/SpecC09.lean"
DRIVER_MODULES = ["BioCantor.Driver.Main", "BioCantor.Driver.Query"]
SPEC_DRIVER_MODULES = ["BioCantor.Driver.Main", "BioCantor.Driver.SpecQuery"]
GEN_NEEDS = ["bins", "CoordFmt", "SingleInterval_parent_to_relative_pos"]
ERR_CLASS = True
RULE = ("one case = one query on one REAL AnnotationCollection (genes with transcripts, feature collections, variant "
        "collections; no parent / sequence-less parent / whole chromosome / sequence chunk; bounds taken from the "
        "parent or explicit start=/end= in every relation to the sequence). (1) exhaustive: every "
        "single-child collection on a tiny genome x parents x ALL ranges (incl. None, negative, start == end, out of "
        "bounds) x all 8 flag combinations; (2) random collections of <= 4 children on a genome of length <= 12 x "
        "ALL ranges x all flags; (3) GUID / interval-GUID / identifier queries for all subsets of ids (plus unknown "
        "and repeated ids) and child-level query_by_guids; (4) synthetic coordinates around multiples of 2^17 .. 2^29 "
        "(and past 2^29) for the bin pre-filter, plus a boundary-value scope: members whose start / end sit at "
        "k*2^17 + {-1,0,1} (k in 1,2,7,8,9), 2^23 +- 1, 2^26 +- 1 with query bounds from the same values and offsets "
        "inside the same finest bin, strict and relaxed, expanded or not. non-trivial = the library returned a collection and the source has "
        ">= 1 child; distinct = distinct operation lines")
EXHAUSTIVE_NOTE = ""
TRUSTED = ["Model/Query.lean is hand-written; tied to gene/collections.py, gene.py, feature.py, variants.py by this run's "
           "correspondence (exact answers incl. exception classes); the bin pre-filter and parent_to_relative_pos it "
           "executes are the GENERATED Gen.bins / Gen.SingleInterval_parent_to_relative_pos",
           "harness/shims.py (marshmallow post_dump) only to import the gene package",
           "harness/impl_query.py renders the real result (guids, coordinates, to_dict equality, spliced sequences)"]
ASSUMPTIONS = ["cgranges is not installed: the pure-Python branch `_query_by_position` (bin pre-filter) is what runs; "
               "`_optimized_query_by_position` is covered by proof only (Props.C09.optimized_branch_agrees, under the "
               "documented overlap semantics of the interval tree); its one divergence — a zero-length child inside a "
               "relaxed range — is Props.C09.optimized_branch_differs_on_empty_span",
               "all members are built on the collection's own parent (strict_parent_compare never fails)",
               "grandchildren are single-block intervals; children carry explicit distinct GUIDs (content-hash GUID "
               "collisions are not explored)",
               "variant collections do not overlap genes / feature collections of the same collection (variant "
               "incorporation at construction time is C13's subject and fails on many overlapping layouts)",
               "whole-chromosome and chunk parents come from seq_to_parent / seq_chunk_to_parent (plus strand); "
               "collections take their bounds from the parent or carry explicit start=/end= (any relation to the "
               "sequence; sources the constructor refuses are answered n/a by the specification)",
               "id lists are sets in the property; lists with a repeated id are compared with the model only"]

G = "ACGTTGCAAGCTGATTCCAG"          # no short period: a shifted or shortened slice is visible
IDENTS = ["-", "-", "a", "b", "c", "a,b", "b,a", "c,a"]
UNKNOWN = 999


def impl(line):
    from harness.impl_query import impl_query_op
    return impl_query_op(line)


def nontrivial(line, ans):
    if ans.startswith("ok") and " coll 0" not in line:
        return line
    return None


# ------------------------------------------------------------------------------------------------
# descriptions

def enc_child(kind, coding, idents, gcs):
    s = min(g[0] for g in gcs)
    e = max(g[1] for g in gcs)
    return f"{kind} {s} {e} {1 if coding else 0} {idents} {len(gcs)}" + "".join(f" {a} {b} {st}" for a, b, st in gcs)


def enc_coll(kids):
    return f"coll {len(kids)}" + "".join(" " + enc_child(*k) for k in kids)


def span(k):
    return min(g[0] for g in k[3]), max(g[1] for g in k[3])


def overlaps(a, b):
    return a[0] < a[1] and b[0] < b[1] and a[0] < b[1] and b[0] < a[1]


def variants_ok(kids):
    """variant collections must not overlap a gene / feature collection (see ASSUMPTIONS)"""
    vs = [span(k) for k in kids if k[0] == "v"]
    os_ = [span(k) for k in kids if k[0] != "v"]
    return not any(overlaps(v, o) for v in vs for o in os_)


def rand_child(rng, lo, hi, kinds="ggffv", maxk=3):
    kind = rng.choice(kinds)
    k = rng.randint(1, maxk)
    gcs = []
    if kind == "v":
        pts = sorted(rng.sample(range(lo, hi + 1), min(2 * k, hi - lo + 1) // 2 * 2))
        gcs = [(pts[2 * i], pts[2 * i + 1], "+") for i in range(len(pts) // 2)]
        if not gcs:
            gcs = [(lo, lo + 1, "+")]
        coding = False
    else:
        for _ in range(k):
            a = rng.randint(lo, hi)
            b = a if rng.random() < 0.12 else rng.randint(a, hi)
            gcs.append((a, b, rng.choice("+-")))
        coding = kind == "g" and rng.random() < 0.5 and any(b > a for a, b, _ in gcs)
        if kind == "g" and rng.random() < 0.5:
            # isoforms: only some transcripts carry a CDS (`c`), one may be flagged primary (`p`) — often a
            # NON-coding one in a gene that has a coding isoform
            nonempty = [i for i, (a, b, _) in enumerate(gcs) if b > a]
            cod = set()
            if coding:
                cod = {i for i in nonempty if rng.random() < 0.5} or {rng.choice(nonempty)}
            prim = None
            if rng.random() < 0.6:
                non = [i for i in range(len(gcs)) if i not in cod]
                prim = rng.choice(non) if non and rng.random() < 0.7 else rng.randrange(len(gcs))
            gcs = [(a, b, st + ("c" if i in cod else "") + ("p" if i == prim else "")) for i, (a, b, st) in enumerate(gcs)]
    return (kind, coding, rng.choice(IDENTS), gcs)


def rand_coll(rng, lo, hi, nmax=4, kinds="ggffv"):
    for _ in range(50):
        n = rng.choice([0, 1, 1, 2, 2, 3, 3, 4][: 2 * nmax]) if nmax < 4 else rng.choice([0, 1, 2, 2, 3, 3, 4, 4])
        kids = [rand_child(rng, lo, hi, kinds) for _ in range(n)]
        if variants_ok(kids):
            return kids
    return [k for k in kids if k[0] != "v"]


def parents_for(rng, L, all_windows=False, n_windows=2):
    """SRC strings for a collection living on [0, L]"""
    out = ["N - -", f"N 0 {L}", f"W {G[:L]} - -"]
    wins = [(cs, ce) for cs in range(0, L) for ce in range(cs + 1, L + 1)]
    if not all_windows:
        wins = rng.sample(wins, min(n_windows, len(wins)))
    out += [f"K {cs} {G[cs:ce]} - -" for cs, ce in wins]
    return out


def bounded_parents(rng, L, n):
    """sequence parents with EXPLICIT start=/end=: inside / equal to / wider than / partly on / off the sequence,
    zero-length; rarely not constructible (end beyond the chromosome, start > end)"""
    out = []
    for _ in range(n):
        if rng.random() < 0.4:
            bs = rng.randint(0, L)
            be = rng.randint(bs, L)
            if rng.random() < 0.06:
                be = L + rng.randint(1, 2)            # not constructible on a whole chromosome
            if rng.random() < 0.04:
                bs, be = be + 1, bs                   # start > end
            out.append(f"W {G[:L]} {bs} {be}")
        else:
            cs = rng.randint(0, L - 1)
            ce = rng.randint(cs + 1, L)
            mode = rng.choice(["in", "in", "eq", "wide", "wide", "left", "right", "off", "zero"])
            if mode == "in":
                bs = rng.randint(cs, ce - 1); be = rng.randint(bs + 1, ce)
            elif mode == "eq":
                bs, be = cs, ce
            elif mode == "wide":
                bs = rng.randint(0, cs); be = rng.randint(ce, L + 1)
            elif mode == "left":
                bs = rng.randint(0, cs); be = rng.randint(cs, ce)
            elif mode == "right":
                bs = rng.randint(cs, ce); be = rng.randint(ce, L + 1)
            elif mode == "off":
                bs, be = (0, rng.randint(0, cs)) if rng.random() < 0.5 else (rng.randint(ce, L + 1), L + 2)
            else:
                bs = be = rng.randint(0, L)
            out.append(f"K {cs} {G[cs:ce]} {bs} {be}")
    return out


def all_ranges(lo, hi):
    vals = list(range(lo, hi + 1))
    rs = [(str(s), str(e)) for s in vals for e in vals]
    rs += [("N", "N")] + [("N", str(e)) for e in vals] + [(str(s), "N") for s in vals]
    return rs


FLAGS = [f"{co} {cw} {ex}" for co in "01" for cw in "01" for ex in "01"]


def pos_lines(src, coll, ranges, flags=FLAGS):
    for s, e in ranges:
        for fl in flags:
            yield f"qpos {src} {coll} {s} {e} {fl}"


def guid_numbers(kids):
    cg = [i + 1 for i in range(len(kids))]
    gg = [1000 + 100 * i + j for i, k in enumerate(kids) for j in range(len(k[3]))]
    return cg, gg


def subsets(xs, rng, cap):
    xs = list(xs)
    if 2 ** len(xs) <= cap:
        for r in range(len(xs) + 1):
            yield from (list(c) for c in itertools.combinations(xs, r))
    else:
        yield []
        yield xs
        for x in xs:
            yield [x]
        for _ in range(cap - len(xs) - 2):
            yield [x for x in xs if rng.random() < 0.5]


def id_lines(rng, src, kids, cap=64, run=None):
    coll = enc_coll(kids)
    cg, gg = guid_numbers(kids)

    def fmt(ids):
        return f"{len(ids)}" + "".join(f" {x}" for x in ids)

    for sub in subsets(cg + [UNKNOWN], rng, cap):
        if rng.random() < 0.3:
            rng.shuffle(sub)
        yield f"qguid {src} {coll} {fmt(sub)}"
    # a grandchild guid given to query_by_guids / a child guid given to the interval queries: ignored
    mixed = gg[:2] + cg[:1]
    yield f"qguid {src} {coll} {fmt(mixed)}"
    for sub in subsets(gg + [UNKNOWN], rng, cap):
        if rng.random() < 0.3:
            rng.shuffle(sub)
        op = rng.choice(["qig", "qig", "qtg", "qfg"]) if 2 ** (len(gg) + 1) > cap else None
        for o in ([op] if op else ["qig", "qtg", "qfg"]):
            yield f"{o} {src} {coll} {fmt(sub)}"
    yield f"qig {src} {coll} {fmt(mixed)}"
    for sub in subsets(["a", "b", "c", "z"], rng, 16):
        yield f"qfid {src} {coll} {fmt(sub)}"
    for i, k in enumerate(kids):
        own = [1000 + 100 * i + j for j in range(len(k[3]))]
        for sub in subsets(own + [UNKNOWN], rng, 16):
            if rng.random() < 0.3:
                rng.shuffle(sub)
            yield f"cqg {src} {coll} {i} {fmt(sub)}"
    # repeated ids (outside the property's quantifier; model correspondence only).  Not of a transcript flagged
    # primary: its copy trips "Multiple primary features" before the duplicate-GUID check (flags are not modelled)
    if cg:
        yield f"qguid {src} {coll} {fmt([cg[0], cg[0]])}"
    if gg and not any("p" in st[1:] for _, _, st in kids[0][3]):
        yield f"qig {src} {coll} {fmt([gg[0], gg[0]])}"
        yield f"cqg {src} {coll} 0 {fmt([gg[0], gg[0]])}"
        if len(gg) > 1:
            yield f"qig {src} {coll} {fmt([gg[0], gg[-1], gg[0]])}"


# ------------------------------------------------------------------------------------------------
# bin path: coordinates around the bin boundaries

def band_points(rng, tier):
    pts = set()
    for k in (17, 20, 23, 26, 29):
        n = 2 ** (29 - k)
        mult = {0, 1, 2, 3, n - 2, n - 1, n, n + 1} & set(range(0, n + 2))
        if tier == "thorough":
            mult |= {4, 7, 8, 9, n // 2, n // 2 + 1}
        for m in mult:
            for d in (-2, -1, 0, 1, 2):
                if m * 2 ** k + d >= 0:
                    pts.add(m * 2 ** k + d)
    return sorted(pts)


def bin_cases(run, n_colls):
    rng = run.rng
    pts = band_points(rng, run.tier)
    top = 2 ** 30 + 10
    for _ in range(n_colls):
        # 1..3 children, each with 1..3 grandchildren whose ends sit on / next to bin boundaries
        kids = []
        anchor = rng.choice(pts)
        near = [p for p in pts if abs(p - anchor) <= rng.choice([4, 2 ** 17 + 4, 2 ** 20 + 4, 2 ** 30])]
        for _c in range(rng.randint(1, 3)):
            kind = rng.choice("gf")
            gcs = []
            for _g in range(rng.randint(1, 3)):
                a = rng.choice(near)
                b = rng.choice([a, a + 1, a + rng.randint(0, 5), rng.choice(near), a + 2 ** 17, a + 2 ** 17 - 1])
                a, b = min(a, b), max(a, b)
                gcs.append((a, b, rng.choice("+-")))
            coding = kind == "g" and rng.random() < 0.3 and any(b > a for a, b, _ in gcs)
            kids.append((kind, coding, "-", gcs))
        coll = enc_coll(kids)
        src = rng.choice(["N - -", f"N 0 {top}", f"N 1 {top}", "P - -" if rng.random() < 0.05 else f"N 0 {top}"])
        cand = set()
        for k in kids:
            s, e = span(k)
            for g in k[3] + [(s, e, "+")]:
                for d in (-1, 0, 1):
                    cand.add(g[0] + d)
                    cand.add(g[1] + d)
        cand |= {0, 1, top, rng.choice(pts), 2 ** 29 - 1, 2 ** 29, 2 ** 29 + 1}
        cand = sorted(c for c in cand if c >= 0)
        ranges = [(s, e) for s in cand for e in cand if s < e]
        rng.shuffle(ranges)
        for s, e in ranges[: 40 if run.tier == "quick" else 120]:
            for fl in ("0 1 0", "0 0 0", "1 1 0") if rng.random() < 0.8 else FLAGS:
                run.count("bins:query" + ("-past-2^29" if e >= 2 ** 29 else ""))
                yield f"qpos {src} {coll} {s} {e} {fl}"


def boundary_cases(run):
    """boundary-value scope for the bin PRE-FILTER (`completely_within and start and end`): members whose start / end
    sit at k*2^17 + {-1,0,+1}, k in {1,2,7,8,9} (8*2^17 = 2^20), at 2^23 +- 1 and 2^26 +- 1; query bounds from the
    same values plus offsets inside the same finest bin (-600, -3000) and the member's own coordinates +- 1; both
    completely_within values, expansion on and off; sequence-less parent / no parent (no big strings)."""
    rng = run.rng
    quick = run.tier == "quick"
    B = 2 ** 17
    V = sorted({k * B + d for k in (1, 2, 7, 8, 9) for d in (-1, 0, 1)}
               | {2 ** 23 + d for d in (-1, 0, 1)} | {2 ** 26 + d for d in (-1, 0, 1)})
    QV = sorted(set(V) | {v - 600 for v in V} | {v - 3000 for v in V})
    top = 2 ** 27
    flags4 = ["0 1 0", "0 0 0", "0 1 1", "0 0 1"]

    def ranges_for(kids, cap):
        lo = min(span(k)[0] for k in kids)
        hi = max(span(k)[1] for k in kids)
        cand = {q for q in QV if lo - 4000 < q < hi + 4000}
        for k in kids:
            for a, b, _ in k[3] + [span(k) + ("+",)]:
                cand |= {a - 1, a, a + 1, b - 1, b, b + 1, a - 90}
        cand = sorted(c for c in cand if c >= 0)
        rs = [(x, y) for x in cand for y in cand if x < y]
        # the ranges that END on a member end / START on a member start are always kept
        ends = {span(k)[1] for k in kids} | {g[1] for k in kids for g in k[3]}
        starts = {span(k)[0] for k in kids} | {g[0] for k in kids for g in k[3]}
        must = [r for r in rs if r[1] in ends or r[0] in starts]
        rest = [r for r in rs if not (r[1] in ends or r[0] in starts)]
        rng.shuffle(rest)
        rng.shuffle(must)
        return must[: cap] + rest[: cap // 3]

    # (a) one member that ends (or starts) exactly on / next to a boundary value
    for v in V:
        for a, b in ((v - 1, v), (v - 510, v), (v - 2001, v), (v, v + 300), (v - 131072, v)):
            if a < 0:
                continue
            for kind in "gf":
                variants = [[(a, b, "+")]]
                if b - a > 2:
                    variants.append([(a, b, "-"), (a + 1, b, "+")])      # every grandchild ends on the value
                    variants.append([(a, b - 1, "+"), (a + 1, b, "-")])    # only one does
                for gcs in (variants if not quick else variants[:1] + variants[1:][: 1 if rng.random() < 0.5 else 0]):
                    coding = kind == "g" and rng.random() < 0.4
                    kids = [(kind, coding, "-", gcs)]
                    coll = enc_coll(kids)
                    for src in (f"P 1 {top}", "N - -"):
                        run.count("boundary:single (coll,parent)")
                        for x, y in ranges_for(kids, 14 if quick else 60):
                            for fl in (flags4 + (["1 1 0"] if coding else [])):
                                run.count("boundary:query" + (" strict,start!=0" if fl[2] == "1" and x != 0 else ""))
                                yield f"qpos {src} {coll} {x} {y} {fl}"
    # (b) 1-3 members with coordinates from the value set
    for _ in range(40 if quick else 600):
        kids = []
        for _c in range(rng.randint(1, 3)):
            kind = rng.choice("gf")
            gcs = []
            for _g in range(rng.randint(1, 2)):
                a, b = sorted((rng.choice(QV), rng.choice(QV)))
                if rng.random() < 0.6:
                    b = rng.choice([q for q in V if q >= a] or [b])
                    a = rng.choice([b - 1, b - 510, b - 2001, a])
                a, b = max(0, min(a, b)), max(a, b)
                gcs.append((a, b, rng.choice("+-")))
            coding = kind == "g" and rng.random() < 0.3 and any(b > a for a, b, _ in gcs)
            kids.append((kind, coding, "-", gcs))
        coll = enc_coll(kids)
        src = rng.choice([f"P 1 {top}", f"P 0 {top}", f"N 1 {top}", "P - -"])
        run.count("boundary:multi (coll,parent)")
        for x, y in ranges_for(kids, 20 if quick else 60):
            for fl in flags4:
                run.count("boundary:query" + (" strict,start!=0" if fl[2] == "1" and x != 0 else ""))
                yield f"qpos {src} {coll} {x} {y} {fl}"


# ------------------------------------------------------------------------------------------------

def single_children(L):
    """every child with ONE grandchild on [0, L]: gene (non-coding / coding), feature collection, variant collection"""
    out = []
    for a in range(0, L + 1):
        for b in range(a, L + 1):
            st = "+" if (a + b) % 2 == 0 else "-"
            out.append(("g", False, "-", [(a, b, st)]))
            out.append(("f", False, "a", [(a, b, st)]))
            if b > a:
                out.append(("g", True, "a,b", [(a, b, st)]))
                out.append(("v", False, "-", [(a, b, "+")]))
    return out


def cases(run):
    global EXHAUSTIVE_NOTE
    rng = run.rng
    quick = run.tier == "quick"

    # (0) regression lines that do not depend on the generator
    yield "qpos N - - coll 0 0 1 0 1 0"                       # F-C19f: an empty collection has no bounds
    yield "qguid N - - coll 0 0"
    yield f"qpos W {G[:12]} - - coll 0 2 5 0 1 0"              # an empty collection on a chromosome answers
    yield "qpos N 0 12 coll 0 2 5 0 0 1"
    yield "qpos N - - coll 1 v 4 5 0 - 1 4 5 + 4 5 0 1 0"      # only variants: `is_empty`, no bounds
    yield "qpos N 0 12 coll 2 g 2 8 1 a 1 2 8 + v 9 10 0 - 1 9 10 + 0 12 1 1 0"   # F-C09a (repaired): coding_only x variants
    yield f"qguid K 3 {G[3:9]} - - coll 1 f 6 10 0 a 1 6 10 - 1 1"                # F-C09c end clamp loses a base
    yield "qpos P - - coll 1 g 2 8 0 - 1 2 8 + 3 8 0 0 0"      # F-C09b sequence-less parent
    yield "qpos N 0 12 coll 1 g 3 3 0 - 1 3 3 + 2 4 0 0 0"     # zero-length child is never returned
    yield "qpos N 0 12 coll 1 g 3 3 0 - 1 3 3 + 2 4 0 1 0"

    # (1) exhaustive: single-child collections on a tiny genome
    L1 = 3 if quick else 4
    kids1 = single_children(L1)
    wins = [(cs, ce) for cs in range(0, L1) for ce in range(cs + 1, L1 + 1)]
    if quick:
        wins = [(1, 3), (0, 2), (1, 2)]
    srcs1 = ["N - -", f"N 0 {L1 + 1}", f"W {G[:L1]} - -"] + [f"K {cs} {G[cs:ce]} - -" for cs, ce in wins]
    # explicit bounds on sequence parents: narrower than / wider than / off the sequence
    srcs1 += [f"W {G[:L1]} 1 {L1 - 1}", f"K 1 {G[1:L1]} 0 {L1 + 1}", f"K 1 {G[1:L1 - 1]} 1 {L1}", f"K 1 {G[1:2]} 2 {L1}"]
    ranges1 = all_ranges(-1, L1 + 1)
    EXHAUSTIVE_NOTE = (f"every collection of ONE child (non-coding gene, coding gene, feature collection, variant "
                       f"collection) with one grandchild [a,b), 0 <= a <= b <= {L1}, x parents {{none (bounds inferred), "
                       f"none with bounds (0,{L1 + 1}), whole chromosome, chunk windows {wins}, 4 sequence parents with explicit bounds (narrower / wider / partly "
                       f"on / off the sequence)}} x ALL ranges "
                       f"start,end in [-1,{L1 + 1}] u {{None}} x all 8 (coding_only, completely_within, expand) "
                       "combinations; plus, per random collection of <= 4 children on a genome of length <= 12, ALL "
                       "ranges x all flag combinations, and all subsets of child / grandchild GUIDs and identifiers")
    for k in kids1:
        coll = enc_coll([k])
        for src in srcs1:
            run.count("exh:single-child (coll,parent)")
            yield from pos_lines(src, coll, ranges1)
    run.exhaustive = True

    # (1c) isoforms: a gene whose transcript flagged PRIMARY is non-coding while another isoform carries a CDS —
    #      the gene is coding (`any(tx.is_coding)`), whatever its primary transcript is
    spans = [(a, b) for a in range(0, L1 + 1) for b in range(a + 1, L1 + 1)]
    iso = [("g", True, "a", [(a, b, "+p"), (c, d, "-c")]) for a, b in spans for c, d in spans]
    rng.shuffle(iso)
    for k in iso[: 10 if quick else len(iso)]:
        for src in ("N - -", f"N 0 {L1 + 1}", f"W {G[:L1]} - -"):
            run.count("isoforms:(coll,parent)")
            yield from pos_lines(src, enc_coll([k]), all_ranges(0, L1 + 1), ["1 0 0", "1 1 0", "1 0 1", "0 1 0"])
        yield from id_lines(rng, f"N 0 {L1 + 1}", [k], cap=8)

    # (1b) two-child collections on the tiny genome: all pairs (sampled in quick), all ranges, strict/relaxed
    pairs = [(a, b) for a in kids1 for b in kids1 if variants_ok([a, b])]
    rng.shuffle(pairs)
    for a, b in pairs[: 40 if quick else 900]:
        coll = enc_coll([a, b])
        src = rng.choice(srcs1)
        run.count("pairs (coll,parent)")
        yield from pos_lines(src, coll, all_ranges(0, L1 + 1), rng.sample(FLAGS, 4))

    # (2) random collections x ALL ranges x all flags
    n2 = 10 if quick else 160
    for i in range(n2):
        L = rng.choice([5, 8, 10, 12, 12])
        kids = rand_coll(rng, 0, L)
        coll = enc_coll(kids)
        srcs = parents_for(rng, L, n_windows=1 if quick else 2)
        for src in (rng.sample(srcs, 2) if quick else srcs):
            run.count("rand:(coll,parent) " + src.split()[0])
            yield from pos_lines(src, coll, all_ranges(-1, L + 1))
        if rng.random() < 0.15:
            run.count("rand:(coll,parent) P")
            yield from pos_lines("P - -", coll, all_ranges(0, L), rng.sample(FLAGS, 2))

    # (2b) sequence parents with explicit bounds x ALL ranges x 4 flag combinations, and the id queries
    for i in range(8 if quick else 100):
        L = rng.choice([6, 9, 12])
        kids = rand_coll(rng, 0, L, nmax=3)
        coll = enc_coll(kids)
        for src in bounded_parents(rng, L, 2 if quick else 3):
            run.count("explicit-bounds:(coll,parent) " + src.split()[0])
            yield from pos_lines(src, coll, all_ranges(-1, L + 2), rng.sample(FLAGS, 4))
            yield from id_lines(rng, src, kids, cap=16)

    # (3) id / guid / interval-guid / identifier queries
    n3 = 60 if quick else 900
    for i in range(n3):
        L = rng.choice([6, 10, 12])
        kids = rand_coll(rng, 0, L)
        if not kids and rng.random() < 0.8:
            continue
        b0 = rng.randint(0, L)
        srcs = parents_for(rng, L, n_windows=2) + ["P - -", f"N {b0} {rng.randint(b0, L + 2)}"]
        for src in rng.sample(srcs, 2 if quick else 3):
            run.count("ids:(coll,parent) " + src.split()[0])
            yield from id_lines(rng, src, kids, cap=32 if quick else 64)

    # (3b) chunked results queried again: a relaxed query result has children reaching beyond its chunk;
    #      the same situation is built directly: children beyond the chunk window, all ranges inside the window
    for i in range(6 if quick else 90):
        L = 12
        kids = rand_coll(rng, 0, L, kinds="ggff")
        cs = rng.randint(1, 5)
        ce = rng.randint(cs + 2, 11)
        src = f"K {cs} {G[cs:ce]} - -"
        run.count("chunk-with-members-beyond")
        yield from pos_lines(src, enc_coll(kids), all_ranges(cs - 1, ce + 1), rng.sample(FLAGS, 4))
        yield from id_lines(rng, src, kids, cap=16)

    # (4) bin path
    yield from bin_cases(run, 60 if quick else 900)
    # (4b) boundary values of the bin scheme
    yield from boundary_cases(run)
