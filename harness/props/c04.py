"""C04 — lift-over through nested coordinate systems composes and preserves sequence; chunk round trips."""
from harness import gen_loc
from harness.impl_loc import enc_loc

ID = "C04"
LEAN_MODULE = "BioCantor.Props.C04"
DESIGN_REF = "4/C04"
DRIVER = "drivers/C04.lean"
SPEC_DRIVER = "drivers/SpecC04.lean"
DRIVER_MODULES = ["BioCantor.Driver.Main", "BioCantor.Driver.Lift"]
SPEC_DRIVER_MODULES = ["BioCantor.Driver.Main", "BioCantor.Driver.SpecLift"]
RULE = ("exhaustive: every (placement, child) pair of layouts with <= 2 blocks on a genome of length 4 (quick; 5 "
        "thorough) x all strand pairs for one-level lifts, every chunk window x every layout <= 2 blocks on length 6 "
        "for chunk-down; random hierarchies of depth 1..4 with consistent sequences (each level's sequence is the "
        "extraction of its placement), random re-chunking. non-trivial = the library answered ok and the child or a "
        "placement has >= 2 blocks or a minus strand is involved; distinct = distinct operation lines")
EXHAUSTIVE_NOTE = "one-level lifts and chunk windows as described in `rule`"
TRUSTED = ["Model/Lift.lean is hand-written; tied to parent.py/location.py/interval.py by this run's correspondence",
           "harness/shims.py (io.parser import needs the marshmallow shim)"]
ASSUMPTIONS = ["hierarchies are built so that each level's sequence equals the extraction of its placement from the level "
               "above (Sequence.__init__ itself only checks lengths)", "sequences over ACGT in this leg (alphabets are C03/C15)"]

COMP = {"A": "T", "C": "G", "G": "C", "T": "A"}


def impl(line):
    from harness.impl_lift import impl_lift_op
    return impl_lift_op(line)


def nontrivial(line, ans):
    if not ans.startswith("ok") or ans == "ok E":
        return None
    if " - " in line or " C + 2" in line or " C - 2" in line or " C + 3" in line:
        return line
    return None


def bases(blocks, strand):
    bs = sorted(blocks, key=(lambda b: (b[0], b[1])) if strand == "+" else (lambda b: (b[0], -b[1])))
    if strand == "-":
        out = []
        for s, e in reversed(bs):
            out += list(range(e - 1, s - 1, -1))
        return out
    return [p for s, e in bs for p in range(s, e)]


def extract(seq, blocks, strand):
    bs = bases(blocks, strand)
    return "".join(COMP[seq[i]] if strand == "-" else seq[i] for i in bs)


def enc_level(lid, ltype, seq, place):
    return f"{lid} {ltype} {seq if seq else '-'} " + (enc_loc(*place) if place else "N")


def random_hierarchy(rng, depth, with_seq=True, allow_overlap=False):
    """levels nearest-first; returns (levels tokens list, length of level 0, level infos)"""
    top_len = rng.randint(12, 40)
    top_seq = "".join(rng.choice("ACGT") for _ in range(top_len))
    infos = [("L%d" % depth, rng.choice(["chromosome", "chromosome", "sequence_chunk", "T"]), top_seq, None)]
    cur_len, cur_seq = top_len, top_seq
    for d in range(depth - 1, -1, -1):
        k = rng.choice([1, 1, 2, 3])
        blocks = gen_loc.random_layout(rng, max_blocks=k, max_coord=max(4, cur_len), p_overlap=0.15 if allow_overlap else 0.0)
        blocks = [(min(s, cur_len), min(e, cur_len)) for s, e in blocks]
        if sum(e - s for s, e in blocks) == 0:
            blocks = [(0, max(1, cur_len // 2))]
        st = rng.choice("+-")
        kind = "S" if len(blocks) == 1 and rng.random() < 0.7 else "C"
        seq = extract(cur_seq, blocks, st)
        # types repeat on purpose (a chunk cut out of a chunk): "first ancestor of type" and "ancestor holding
        # this sequence" then differ
        ltype = rng.choice(["sequence_chunk", "sequence_chunk", "T", "T%d" % d])
        # placement of level d on the level above is stored WITH the upper level
        infos[-1] = infos[-1][:3] + ((kind, st, blocks),)
        infos.append(("L%d" % d, ltype, seq, None))
        cur_len, cur_seq = len(seq), seq
    infos.reverse()   # nearest first; infos[i][3] = placement of level i-1 on level i
    return infos


def cases(run):
    rng = run.rng
    g = 4 if run.tier == "quick" else 5
    lay = list(gen_loc.layouts_exhaustive(2, g))
    # ---- one-level lifts, exhaustive
    for pl in lay:
        plen = sum(e - s for s, e in pl)
        if plen == 0:
            continue
        kids = [c for c in gen_loc.layouts_exhaustive(2, min(plen, g)) if True]
        for pst in "+-":
            for c in kids:
                for cst in "+-":
                    pk = "S" if len(pl) == 1 else "C"
                    ck = "S" if len(c) == 1 else "C"
                    lv = f"2 L0 T0 - N {enc_level('L1', 'chromosome', None, (pk, pst, pl))}"
                    yield f"lifttype chromosome {enc_loc(ck, cst, c)} {lv}"
    run.count("one-level-exhaustive", 1)
    # ---- chunk windows, exhaustive
    G = 6
    for l in gen_loc.layouts_exhaustive(2, G):
        for st in "+-":
            k = "S" if len(l) == 1 else "C"
            for ws in range(0, G + 1):
                for we in range(ws + 1, G + 1):
                    for wst in "+-":
                        yield f"chunkdown {enc_loc(k, st, l)} {ws} {we} {wst}"
    run.exhaustive = True
    # ---- random hierarchies
    n = 600 if run.tier == "quick" else 20000
    for _ in range(n):
        depth = rng.randint(1, 4)
        allow_ov = rng.random() < 0.15
        infos = random_hierarchy(rng, depth, allow_overlap=allow_ov)
        run.count(f"depth={depth}")
        l0 = len(infos[0][2])
        with_seq = rng.random() < 0.85 and not allow_ov   # a self-overlapping placement is longer than its parent
        # child on level 0
        cb = gen_loc.random_layout(rng, max_blocks=rng.choice([1, 2, 3]), max_coord=max(2, l0),
                                   p_overlap=0.1 if allow_ov else 0.0)
        cb = [(min(s, l0), min(e, l0)) for s, e in cb]
        cst = rng.choice("+-") if rng.random() < 0.95 else "."
        ck = "S" if len(cb) == 1 and rng.random() < 0.6 else "C"
        # occasionally break things: missing placement, child out of range without sequences
        missing = rng.random() < 0.05
        if not with_seq and rng.random() < 0.3:
            cb = [(s + rng.randint(0, 3), e + rng.randint(3, 6)) for s, e in cb]
            run.count("child-out-of-range")
        lv = []
        for i, (lid, lt, sq, place) in enumerate(infos):
            pl = place
            if missing and i == len(infos) - 1:
                pl = None
                run.count("missing-placement")
            lv.append(enc_level(lid, lt, sq if with_seq else None, pl if i > 0 else None))
        chain = f"{len(infos)} " + " ".join(lv)
        child = enc_loc(ck, cst, cb)
        types = [x[1] for x in infos]
        target = rng.choice(types + ["chromosome", "nosuch"])
        yield f"lifttype {target} {child} {chain}"
        if with_seq:
            j = rng.randrange(len(infos))
            lid, lt, sq, _ = infos[j]
            if rng.random() < 0.1:
                sq = sq[::-1] + "A"
            yield f"liftseq {lid} {lt} {sq} {child} {chain}"
    # ---- random chunking / re-chunking on a longer chromosome
    for _ in range(400 if run.tier == "quick" else 10000):
        blocks = gen_loc.random_layout(rng, max_blocks=5, max_coord=60, p_overlap=0.1)
        st = rng.choice("+-")
        hi = max(e for _, e in blocks)
        ws = rng.randint(0, hi + 2)
        we = rng.randint(ws + 1, hi + 6)
        wst = rng.choice("+-")
        yield f"chunkdown {enc_loc('C', st, blocks)} {ws} {we} {wst}"
        # chunk-relative location inside chunk 1, moved to chunk 2
        a1 = rng.randint(0, 30)
        b1 = a1 + rng.randint(5, 40)
        rel = gen_loc.random_layout(rng, max_blocks=4, max_coord=b1 - a1, p_overlap=0.0)
        rel = [(min(s, b1 - a1), min(e, b1 - a1)) for s, e in rel]
        a2 = rng.randint(0, 40)
        b2 = a2 + rng.randint(1, 50)
        s1 = rng.choice('+-')
        s2 = rng.choice('+-')
        mode = rng.random()
        if mode < 0.25:            # the same window on the other strand (chunk ids do not spell out the strand)
            a2, b2, s2 = a1, b1, ('-' if s1 == '+' else '+')
            run.count("rechunk:same-window-other-strand")
        elif mode < 0.35:          # the identical chunk
            a2, b2, s2 = a1, b1, s1
        elif mode < 0.5:           # windows sharing one end
            a2 = a1
        yield f"rechunk {enc_loc('C', rng.choice('+-'), rel)} {a1} {b1} {s1} {a2} {b2} {s2}"
