"""C04 — lift-over through nested coordinate systems composes and preserves sequence; chunk round trips."""
from harness import gen_loc
from harness.impl_loc import enc_loc

WARM_TWINS = {"quick": 0.02, "thorough": 0.05}      # engine: call-history twins (harness/warm.py)
DECOY_TWINS = {"quick": 0.03, "thorough": 0.08}     # engine: decoy twins (harness/decoy.py)
ID = "C04"
LEAN_MODULE = "BioCantor.Props.C04"
DESIGN_REF = "4/C04"
DRIVER = "drivers/C04.lean"
SPEC_DRIVER = "drivers/SpecC04.lean"
DRIVER_MODULES = ["BioCantor.Driver.Main", "BioCantor.Driver.Lift"]
SPEC_DRIVER_MODULES = ["BioCantor.Driver.Main", "BioCantor.Driver.SpecLift"]
RULE = ("exhaustive: every (placement, child) pair of layouts with <= 2 blocks on a genome of length 4 (quick; 5 "
        "thorough) x all strand pairs for one-level lifts, every chunk window x every layout <= 2 blocks on length 6 "
        "for chunk-down; random hierarchies of depth 1..4 with consistent sequences (each level's sequence is the "
        "extraction of its placement), random re-chunking. relocate (liftover_location_to_seq_chunk_parent with real "
        "sequence, answer = location + extracted letters; every call is preceded by building and discarding the same "
        "chunk windows of a decoy genome of the same name): exhaustive on a genome of length 8 for a child directly on "
        "chunk A (every window x strand of A, every non-overlapping child layout <= 2 blocks x strand; thorough: "
        "zero-length blocks too) and on a genome of length 5 (thorough: 6) for a child on a spliced sequence on chunk "
        "A (every window x strand, every non-overlapping placement <= 2 blocks x strand, every child layout <= 2 "
        "blocks x strand), each onto 3 targets: the whole chromosome, the same window on the other strand, an inner "
        "window; random: genome 40..120, 1..3 blocks per level, depth 2 / depth 3 half each, targets chunk / "
        "chromosome, a few broken hierarchies (window off the chromosome, child or placement beyond its parent). "
        "non-trivial = the library answered ok and the child or a "
        "placement has >= 2 blocks or a minus strand is involved; distinct = distinct operation lines")
EXHAUSTIVE_NOTE = "one-level lifts, chunk windows and the two relocate scopes as described in `rule`"
TRUSTED = ["Model/Lift.lean is hand-written; tied to parent.py/location.py/interval.py by this run's correspondence",
           "harness/shims.py (io.parser import needs the marshmallow shim)"]
ASSUMPTIONS = ["hierarchies are built so that each level's sequence equals the extraction of its placement from the level "
               "above (Sequence.__init__ itself only checks lengths)", "sequences over ACGT in this leg (alphabets are C03/C15)"]

# a slice / reverse complement / concatenation of a LOCATED sequence is a new level of a hierarchy: its placement on the
# parent (the coordinates every later lift composes through) is observed through C03's sequence programs
BORROW = [dict(prop="c03", max=4000, ops={"seqprog", "append"},
               why="hierarchy levels made by Sequence.__getitem__ / reverse_complement / append (sequence/sequence.py is "
                   "one of C04's anchors): the slice's location on its parent must compose like any other placement")]

COMP = {"A": "T", "C": "G", "G": "C", "T": "A"}


def impl(line):
    from harness.impl_lift import impl_lift_op
    return impl_lift_op(line)


def lean_line(line):
    """` @r`: the same hierarchy written in the REF style (each level's location on the next one carries a light
    reference - id and type - to that level, as `seq_chunk_to_parent` writes it); implementation side only"""
    return line[:-3] if line.endswith(" @r") else line


def decoys(line):
    """property-specific decoys (engine: harness/decoy.py): the same levels in a hierarchy without its top level and in
    one with an extra level on top, played before the real line in the same process"""
    if line.split(" ", 1)[0] in ("lifttype", "liftseq"):
        return ["@depth-1 " + line, "@depth+1 " + line]
    return []


def nontrivial(line, ans):
    if not ans.startswith("ok") or ans == "ok E":
        return None
    if " - " in line or " C + 2" in line or " C - 2" in line or " C + 3" in line:
        return line
    return None


def bases(blocks, strand):
    bs = sorted(blocks, key=(lambda b: (b[0], b[1])) if strand == "+" else (lambda b: (b[0], -b[1])))
    if strand == "-":
        out = []
        for s, e in reversed(bs):
            out += list(range(e - 1, s - 1, -1))
        return out
    return [p for s, e in bs for p in range(s, e)]


def extract(seq, blocks, strand):
    bs = bases(blocks, strand)
    return "".join(COMP[seq[i]] if strand == "-" else seq[i] for i in bs)


def enc_level(lid, ltype, seq, place):
    return f"{lid} {ltype} {seq if seq else '-'} " + (enc_loc(*place) if place else "N")


def random_hierarchy(rng, depth, with_seq=True, allow_overlap=False):
    """levels nearest-first; returns (levels tokens list, length of level 0, level infos)"""
    top_len = rng.randint(12, 40)
    top_seq = "".join(rng.choice("ACGT") for _ in range(top_len))
    infos = [("L%d" % depth, rng.choice(["chromosome", "chromosome", "sequence_chunk", "T"]), top_seq, None)]
    cur_len, cur_seq = top_len, top_seq
    for d in range(depth - 1, -1, -1):
        k = rng.choice([1, 1, 2, 3])
        blocks = gen_loc.random_layout(rng, max_blocks=k, max_coord=max(4, cur_len), p_overlap=0.15 if allow_overlap else 0.0)
        blocks = [(min(s, cur_len), min(e, cur_len)) for s, e in blocks]
        if sum(e - s for s, e in blocks) == 0:
            blocks = [(0, max(1, cur_len // 2))]
        st = rng.choice("+-")
        kind = "S" if len(blocks) == 1 and rng.random() < 0.7 else "C"
        seq = extract(cur_seq, blocks, st)
        # types repeat on purpose (a chunk cut out of a chunk): "first ancestor of type" and "ancestor holding
        # this sequence" then differ
        ltype = rng.choice(["sequence_chunk", "sequence_chunk", "T", "T%d" % d])
        # placement of level d on the level above is stored WITH the upper level
        infos[-1] = infos[-1][:3] + ((kind, st, blocks),)
        infos.append(("L%d" % d, ltype, seq, None))
        cur_len, cur_seq = len(seq), seq
    infos.reverse()   # nearest first; infos[i][3] = placement of level i-1 on level i
    return infos


def tight_layouts(max_blocks, length, zero_len=False):
    """non-overlapping sorted layouts (gap 0 allowed) with 1..max_blocks blocks on [0, length]"""
    return [l for l in gen_loc.layouts_exhaustive(max_blocks, length, allow_overlap=False)
            if zero_len or all(e > s for s, e in l)]


def enc_auto(strand, blocks):
    return enc_loc("S" if len(blocks) == 1 else "C", strand, blocks)


def rand_tight(rng, length, nmax, p_adjacent=0.25):
    """1..nmax non-overlapping positive blocks on [0, length]; neighbours may touch"""
    n = max(1, min(rng.randint(1, nmax), length // 2))
    while True:
        cuts = sorted(rng.randint(0, length) for _ in range(2 * n))
        blocks = [(cuts[i], cuts[i + 1]) for i in range(0, 2 * n, 2)]
        if all(e > s for s, e in blocks):
            if rng.random() < p_adjacent or all(blocks[i][1] < blocks[i + 1][0] for i in range(n - 1)):
                return blocks


def relocate_targets(G, a, b, st):
    other = "-" if st == "+" else "+"
    inner = (1, G - 1) if G > 2 else (0, G)
    return ["W", f"{a} {b} {other}", f"{inner[0]} {inner[1]} {other if (a + b) % 2 else st}"]


def relocate_cases(run):
    rng = run.rng
    thorough = run.tier != "quick"

    def genome(n):
        while True:
            g = "".join(rng.choice("ACGT") for _ in range(n))
            if len(set(g)) == 4 or n < 6:
                return g

    # ---- exhaustive, child directly on chunk A (depth 2 below the chromosome)
    G = 8
    g = genome(G)
    for a in range(G + 1):
        for b in range(a + 1, G + 1):
            kids = tight_layouts(2, b - a, zero_len=thorough)
            for st in "+-":
                tg = relocate_targets(G, a, b, st)
                for c in kids:
                    for cst in "+-":
                        for t in tg:
                            yield f"relocate {g} {a} {b} {st} N {enc_auto(cst, c)} {t}"
    run.count("relocate:depth2-exhaustive", 1)
    # ---- exhaustive, child on a spliced sequence on chunk A (depth 3)
    G = 6 if thorough else 5
    g = genome(G)
    for a in range(G + 1):
        for b in range(a + 1, G + 1):
            for st in "+-":
                tg = relocate_targets(G, a, b, st)
                for tx in tight_layouts(2, b - a):
                    kids = tight_layouts(2, sum(e - s for s, e in tx))
                    for txst in "+-":
                        for c in kids:
                            for cst in "+-":
                                for t in tg:
                                    yield f"relocate {g} {a} {b} {st} {enc_auto(txst, tx)} {enc_auto(cst, c)} {t}"
    run.count("relocate:depth3-exhaustive", 1)
    # ---- degenerate inputs, fixed
    g = genome(8)
    for t in ("W", "1 7 -", "3 3 +", "2 12 +"):
        for tx in ("N", "C - 2 0 2 3 5", "S + 1 1"):
            for c in ("E", "S + 1 1", "C - 2 0 0 2 2", "S - 0 1", "S + 0 9", "C + 2 0 1 4 6"):
                for w in ("1 7 +", "1 7 -", "4 4 +", "5 11 -"):
                    yield f"relocate {g} {w} {tx} {c} {t}"
    # ---- random, larger
    for _ in range(600 if not thorough else 20000):
        n = rng.randint(40, 120)
        g = genome(n)
        a = rng.randint(0, n - 8)
        b = rng.randint(a + 6, n)
        st = rng.choice("+-")
        la = b - a
        depth3 = rng.random() < 0.5
        broken = rng.random() < 0.06
        if depth3:
            tx = rand_tight(rng, la, 3)
            txst = rng.choice("+-")
            l0 = sum(e - s for s, e in tx)
            txtok = enc_auto(txst, tx) if rng.random() < 0.8 else enc_loc("C", txst, tx)
        else:
            l0, txtok = la, "N"
        c = rand_tight(rng, l0, 3)
        if rng.random() < 0.08:                         # zero-length block somewhere
            z = rng.randint(0, l0)
            c = sorted(c + [(z, z)])
        if rng.random() < 0.05 and len(c) > 1:          # self-overlapping child: compared as a multiset
            s0, e0 = c[0]
            c = sorted(c + [(s0, min(l0, e0 + 1))])
            run.count("relocate:self-overlapping-child")
        cst = rng.choice("+-")
        ctok = enc_auto(cst, c) if rng.random() < 0.8 else enc_loc("C", cst, c)
        mode = rng.random()
        if mode < 0.3:
            t = "W"
        elif mode < 0.45:
            t = f"{a} {b} {'-' if st == '+' else '+'}"
        elif mode < 0.55:
            t = f"{a} {b} {st}"
        else:
            a2 = rng.randint(0, n - 1)
            b2 = rng.randint(a2 + 1, n)
            if rng.random() < 0.5:                       # make sure the windows share something
                a2 = rng.randint(0, b - 1)
                b2 = rng.randint(max(a2, a) + 1, n)
            t = f"{a2} {b2} {rng.choice('+-')}"
        if broken:
            k = rng.randrange(4)
            run.count("relocate:broken")
            if k == 0:
                b = n + rng.randint(1, 5)               # chunk A not on the chromosome
            elif k == 1 and t != "W":
                p = t.split()
                t = f"{p[0]} {n + rng.randint(1, 5)} {p[2]}"
            elif k == 2:
                ctok = enc_loc("C", cst, c + [(l0, l0 + rng.randint(1, 3))])
            elif depth3:
                txtok = enc_loc("C", txst, tx + [(la, la + rng.randint(1, 3))])
        run.count("relocate:depth3" if depth3 else "relocate:depth2")
        run.count("relocate:onto-chromosome" if t == "W" else "relocate:onto-chunk")
        yield f"relocate {g} {a} {b} {st} {txtok} {ctok} {t}"


def cases(run):
    for ln in base_cases(run):
        yield ln
        # REF-style twin of hierarchies with at least two levels
        if ln.startswith(("lifttype ", "liftseq ")) and " L1 " in ln and run.rng.random() < 0.15:
            run.count("ref-style-twin")
            yield ln + " @r"
    yield from relocate_cases(run)


def base_cases(run):
    rng = run.rng
    g = 4 if run.tier == "quick" else 5
    lay = list(gen_loc.layouts_exhaustive(2, g))
    # ---- one-level lifts, exhaustive
    for pl in lay:
        plen = sum(e - s for s, e in pl)
        if plen == 0:
            continue
        kids = [c for c in gen_loc.layouts_exhaustive(2, min(plen, g)) if True]
        for pst in "+-":
            for c in kids:
                for cst in "+-":
                    pk = "S" if len(pl) == 1 else "C"
                    ck = "S" if len(c) == 1 else "C"
                    lv = f"2 L0 T0 - N {enc_level('L1', 'chromosome', None, (pk, pst, pl))}"
                    yield f"lifttype chromosome {enc_loc(ck, cst, c)} {lv}"
    run.count("one-level-exhaustive", 1)
    # ---- chunk windows, exhaustive
    G = 6
    for l in gen_loc.layouts_exhaustive(2, G):
        for st in "+-":
            k = "S" if len(l) == 1 else "C"
            for ws in range(0, G + 1):
                for we in range(ws + 1, G + 1):
                    for wst in "+-":
                        yield f"chunkdown {enc_loc(k, st, l)} {ws} {we} {wst}"
    run.exhaustive = True
    # ---- random hierarchies
    n = 600 if run.tier == "quick" else 20000
    for _ in range(n):
        depth = rng.randint(1, 4)
        allow_ov = rng.random() < 0.15
        infos = random_hierarchy(rng, depth, allow_overlap=allow_ov)
        run.count(f"depth={depth}")
        l0 = len(infos[0][2])
        with_seq = rng.random() < 0.85 and not allow_ov   # a self-overlapping placement is longer than its parent
        # child on level 0
        cb = gen_loc.random_layout(rng, max_blocks=rng.choice([1, 2, 3]), max_coord=max(2, l0),
                                   p_overlap=0.1 if allow_ov else 0.0)
        cb = [(min(s, l0), min(e, l0)) for s, e in cb]
        cst = rng.choice("+-") if rng.random() < 0.95 else "."
        ck = "S" if len(cb) == 1 and rng.random() < 0.6 else "C"
        # occasionally break things: missing placement, child out of range without sequences
        missing = rng.random() < 0.05
        if not with_seq and rng.random() < 0.3:
            cb = [(s + rng.randint(0, 3), e + rng.randint(3, 6)) for s, e in cb]
            run.count("child-out-of-range")
        lv = []
        for i, (lid, lt, sq, place) in enumerate(infos):
            pl = place
            if missing and i == len(infos) - 1:
                pl = None
                run.count("missing-placement")
            lv.append(enc_level(lid, lt, sq if with_seq else None, pl if i > 0 else None))
        chain = f"{len(infos)} " + " ".join(lv)
        child = enc_loc(ck, cst, cb)
        types = [x[1] for x in infos]
        target = rng.choice(types + ["chromosome", "nosuch"])
        yield f"lifttype {target} {child} {chain}"
        if with_seq:
            j = rng.randrange(len(infos))
            lid, lt, sq, _ = infos[j]
            if rng.random() < 0.1:
                sq = sq[::-1] + "A"
            yield f"liftseq {lid} {lt} {sq} {child} {chain}"
    # ---- random chunking / re-chunking on a longer chromosome
    for _ in range(400 if run.tier == "quick" else 10000):
        blocks = gen_loc.random_layout(rng, max_blocks=5, max_coord=60, p_overlap=0.1)
        st = rng.choice("+-")
        hi = max(e for _, e in blocks)
        ws = rng.randint(0, hi + 2)
        we = rng.randint(ws + 1, hi + 6)
        wst = rng.choice("+-")
        yield f"chunkdown {enc_loc('C', st, blocks)} {ws} {we} {wst}"
        # chunk-relative location inside chunk 1, moved to chunk 2
        a1 = rng.randint(0, 30)
        b1 = a1 + rng.randint(5, 40)
        rel = gen_loc.random_layout(rng, max_blocks=4, max_coord=b1 - a1, p_overlap=0.0)
        rel = [(min(s, b1 - a1), min(e, b1 - a1)) for s, e in rel]
        a2 = rng.randint(0, 40)
        b2 = a2 + rng.randint(1, 50)
        s1 = rng.choice('+-')
        s2 = rng.choice('+-')
        mode = rng.random()
        if mode < 0.25:            # the same window on the other strand (chunk ids do not spell out the strand)
            a2, b2, s2 = a1, b1, ('-' if s1 == '+' else '+')
            run.count("rechunk:same-window-other-strand")
        elif mode < 0.35:          # the identical chunk
            a2, b2, s2 = a1, b1, s1
        elif mode < 0.5:           # windows sharing one end
            a2 = a1
        yield f"rechunk {enc_loc('C', rng.choice('+-'), rel)} {a1} {b1} {s1} {a2} {b2} {s2}"
