"""C17 — NCBI feature-table (.tbl) export lists the model's genes 5'->3', partial marks correct."""
import itertools

from harness import gen_c17 as G
from harness.impl_tbl import impl_tbl_op

WARM_TWINS = {"quick": 0.02, "thorough": 0.05}      # engine: call-history twins (harness/warm.py)
DECOY_TWINS = {"quick": 0.02, "thorough": 0.05}     # engine: decoy twins (harness/decoy.py)
ID = "C17"
LEAN_MODULE = "BioCantor.Props.C17"
DESIGN_REF = "4/C17"
DRIVER = "drivers/C17.lean"
SPEC_DRIVER = "drivers/SpecC17.lean"
DRIVER_MODULES = ["BioCantor.Driver.Main", "BioCantor.Driver.Tbl"]
SPEC_DRIVER_MODULES = ["BioCantor.Driver.Main", "BioCantor.Driver.SpecTbl"]
GEN_NEEDS = ["startCodons", "aacodons", "gencode"]
MODEL_OPS = {"locstr", "quals", "cdsfeat", "tblgene", "locustags", "seed"}
ERR_CLASS = False
RULE = ("one case = one operation: one `_location_to_str` / `_qualifiers_to_str` call, one CDSTblFeature of a "
        "one-transcript gene (`cdsfeat`), one TblGene (`tblgene`), one locus-tag run over several collections, or one "
        "generated collection with sequence exported by collection_to_tbl (twice with the same seed) and read back by "
        "the independent reader of Spec/Tbl.lean (`coll`).  Non-trivial: locstr with >= 2 blocks or minus strand or a "
        "partial mark; cdsfeat/tblgene/coll that exported; locustags with >= 2 genes; distinct = distinct lines")
EXHAUSTIVE_NOTE = ""
TRUSTED = ["Model/Tbl.lean is hand-written (on top of Model/CDS.lean and Model/Location.lean); tied to "
           "io/ncbi/tbl_writer.py, gene/cds.py by this run's correspondence (ops locstr, quals, cdsfeat, tblgene, "
           "locustags); start/stop codon tables are the regenerated Gen.startCodons / Gen.aacodons / Gen.gencode",
           "harness/shims.py (marshmallow post_dump) to import the gene / io packages",
           "Python's `random` (reproducibility for a fixed seed is checked by exporting twice, not proved)"]
ASSUMPTIONS = ["block lists are ascending, non-empty blocks, non-overlapping (0-bp gaps included); a CDS is its "
               "transcript's exons clipped to a coding range, optionally cut further into adjacent blocks inside an exon",
               "chromosome letters are ACGT in either case (the writer's predicates upper-case them)",
               "sequence names, locus-tag prefixes, qualifier keys and values contain no tab / line break (the writer "
               "does no escaping); sequence names contain no space (SeqIds do not)",
               "genes whose isoforms are all coding or all non-coding (a mixed gene is refused by the writer with "
               "NoncodingTranscriptError: counted, not a violation); every CDS holds at least one complete codon",
               "the whole-file theorems quantify over arbitrary extra qualifiers (gene symbols, notes, products, the "
               "random gnl|lab|… identifiers are carried as data, not derived)"]

KEYS = ["gene", "mRNA", "CDS", "ncRNA", "misc_RNA", "tRNA", "rRNA"]


def impl(line):
    return impl_tbl_op(line)


def nontrivial(line, ans):
    if not ans.startswith("ok"):
        return None
    t = line.split(" ")
    op = t[0]
    if op == "locstr":
        return line if (int(t[5]) >= 2 or t[2] == "-" or t[3] == "1" or t[4] == "1") else None
    if op == "quals":
        return line if t[3] != "0" else None
    if op == "locustags":
        return line if sum(int(x) for x in t[4:]) >= 2 else None
    return line


def layouts(k, g, lo=0):
    if k == 0:
        yield []
        return
    for s in range(lo, g):
        for e in range(s + 1, g + 1):
            for rest in layouts(k - 1, g, e):
                yield [(s, e)] + rest


def locstr_line(key, st, si, ei, bl):
    return f"locstr {key} {st} {int(si)} {int(ei)} {G.enc_blocks(bl)}"


QUAL_KEYS = ["gene", "locus_tag", "gene_synonym", "db_xref", "note", "protein_id", "transcript_id", "product",
             "codon_start", "ncRNA_class", "pseudo", "other", "Gene"]
QUAL_CHARS = list("abZ019_-|:. ") + ["[", "]", "(", ")", ";", "~", "\\", "é", "a", "B"]


def quals_line(rng, run):
    key = rng.choice(KEYS)
    n = rng.randint(0, 4)
    keys = rng.sample(QUAL_KEYS, n)
    parts = []
    for k in keys:
        nv = rng.choice([0, 1, 1, 1, 2, 3])
        vals = []
        for _ in range(nv):
            r = rng.random()
            if r < 0.12:
                vals.append(None)
            elif r < 0.17:
                vals.append("")
            else:
                vals.append("".join(rng.choice(QUAL_CHARS) for _ in range(rng.randint(1, 6))))
        parts.append(f"{G.enc(k)} {len(vals)}" + "".join(" " + G.enc(v) for v in vals))
        run.count(f"quals:values={nv}")
    return f"quals {key} {rng.choice('01')} {n}" + "".join(" " + p for p in parts)


FIRST = ["ATG", "CTG", "TTG", "GTG", "ATA", "ATC", "ATT", "AAA", "TAA"]
LAST = ["TAA", "TAG", "TGA", "TGG", "AAA"]
MID = ["", "GCT", "TAG", "CCCTGAGGG"]


def cdsfeat_line(table, strand, genome, blocks, frames):
    return (f"cdsfeat {table} {strand} {genome} {len(blocks)}"
            + "".join(f" {s} {e} {f}" for (s, e), f in zip(blocks, frames)))


def rc(s):
    return "".join(G.COMP[c] for c in reversed(s))


def cdsfeat_designed(run):
    """designed reading frames: first codon x last codon x middle x trailing bases x start frame x strand x table x
    layout (one block / split into two adjacent blocks / split with a gap)"""
    rng = run.rng
    for first, last, mid, tail, frame, strand, table, layout in itertools.product(
            FIRST, LAST, MID, (0, 1, 2), (0, 1, 2), "+-", (0, 1, 11), ("one", "adjacent", "gapped", "gapped3")):
        if run.tier == "quick" and rng.random() > 0.09:
            continue
        lead = "".join(rng.choice("ACGT") for _ in range(frame))
        cds = lead + first + mid + last + "".join(rng.choice("ACG") for _ in range(tail))
        n = len(cds)
        pad5 = "".join(rng.choice("ACGT") for _ in range(rng.randint(0, 4)))
        pad3 = "".join(rng.choice("ACGT") for _ in range(rng.randint(0, 4)))
        if layout == "one":
            pieces = [cds]
        elif layout == "gapped3":
            if n < 5:
                continue
            a, b = sorted(rng.sample(range(1, n), 2))
            pieces = [cds[:a], cds[a:b], cds[b:]]
        else:
            cut = rng.randint(1, n - 1)
            pieces = [cds[:cut], cds[cut:]]
        gap = "" if layout == "adjacent" else "".join(rng.choice("ACGT") for _ in range(rng.randint(1, 3)))
        text = pad5
        blocks = []
        for i, pc in enumerate(pieces):
            if i:
                text += gap
            blocks.append((len(text), len(text) + len(pc)))
            text += pc
        text += pad3
        if strand == "-":
            L = len(text)
            text = rc(text)
            blocks = sorted((L - e, L - s) for s, e in blocks)
        if rng.random() < 0.08:
            text = text.lower()
        shift = 0
        if len(blocks) > 1 and rng.random() < 0.1:
            shift = rng.randrange(1, len(blocks))
        frames = [G.FRAME_NAMES.index(f) for f in G.frames_for(blocks, strand, frame, shift)]
        run.count(f"cdsfeat:layout={layout}")
        run.count(f"cdsfeat:table={table}")
        run.count(f"cdsfeat:frame={frame}")
        if shift:
            run.count("cdsfeat:frameshift-vector")
        yield cdsfeat_line(table, strand, text, blocks, frames)


COLL_PARAMS = [
    dict(genome_len=150, gene_span=90),
    dict(genome_len=150, gene_span=90, p_adjacent=0.6, max_exons=5),
    dict(genome_len=200, gene_span=120, max_tx=4, p_coding=0.8, p_ifs=0.5),
    dict(genome_len=120, gene_span=60, p_coding=0.3, ttypes="own"),
    dict(genome_len=90, gene_span=40, max_exons=2, n_genes=1),
    dict(genome_len=1300, gene_span=200, offset=950),
    dict(genome_len=150, gene_span=90, mixed_strands=0.4),
]


def coll_case(rng, run, p=None, **kw):
    p = dict(p or rng.choice(COLL_PARAMS))
    coll = G.gen_collection(rng, p)
    flavor = kw.get("flavor") or rng.choice("EP")
    table = kw.get("table", rng.choice([0, 1, 11, 11]))
    seed = kw.get("seed", rng.choice([None, 1, 7, 123, 2 ** 40, -5]))
    prefix = kw.get("prefix", rng.choice(["LT", "test", "A1B2C", "x_y", "p-q.r"]))
    step = kw.get("step", rng.choice([1, 2, 5, 5, 10, 1000]))
    lab = rng.choice(["lab", None, "inscripta"])
    for tag in G.classify(coll, table):
        run.count(tag)
    run.count(f"coll:flavour={flavor}")
    run.count(f"coll:table={table}")
    run.count("coll:seed=" + ("none" if seed is None else "given"))
    return coll, G.coll_line(flavor, table, prefix, step, seed, lab, coll)


def cases(run):
    global EXHAUSTIVE_NOTE
    rng = run.rng
    quick = run.tier == "quick"
    g = 6 if quick else 7
    EXHAUSTIVE_NOTE = (f"locstr: all layouts of 1..3 non-empty ascending non-overlapping blocks on [0,{g}] (0-bp gaps "
                       "included) x strand {+,-,.} x both partial marks x feature class (rotating); cdsfeat: the designed "
                       "product first codon(9) x last codon(5) x middle(4) x trailing bases(3) x start frame(3) x strand "
                       "x table {0,1,11} x layout(4)" + (" sampled at 9% in quick" if quick else " complete"))
    # ---- regression inputs (repaired defects F-C17a/b, F-C19e; open finding F-C17c; documented refusals)
    ncgene = "lncRNA g0 1 ~ + 1 3 9 0"
    yield f"coll E 0 LT 5 0 lab chr1 {'ACGT' * 8} 1 protein_coding g0 1 protein_coding + 1 2 11 1 2 11 0 0"   # seed 0 (F-C17a, repaired)
    yield f"coll E 0 LT 5 7 lab chr1 {'ACGT' * 8} 1 {ncgene}"                                                    # F-C17b (repaired)
    yield f"tblgene 0 {'ACGT' * 8} {ncgene}"
    yield f"coll E 0 LT 5 7 lab chr1 {'ACGT' * 8} 1 protein_coding g0 1 protein_coding + 1 0 3 1 0 3 2 0"      # F-C19e (repaired)
    yield f"cdsfeat 0 + {'ACGT' * 8} 1 0 3 2"
    yield (f"coll E 0 LT 5 7 lab chr1 {'ACGT' * 8} 1 protein_coding g0 2 protein_coding + 1 2 11 1 2 11 0 0 "
           "lncRNA + 1 2 9 0")                                                                                # mixed gene
    yield f"coll E 0 LT 5 7 lab ~ {'ACGT' * 8} 1 lncRNA g0 1 lncRNA + 1 3 9 0"                                  # no seq name
    yield f"coll E 0 LT 5 7 lab chr1 {'ACGT' * 8} 1 lncRNA g0 1 lncRNA - 2 3 9 9 12 0"                          # F-C17c
    # one exon, CDS of two / three ADJACENT blocks inside it (seeded change "single-exon transcripts skip merging")
    for st in "+-":
        for fr in (0, 1, 2):
            yield (f"coll {'EP'[fr % 2]} 11 LT 5 7 lab chr1 {'ACGT' * 8} 1 protein_coding g0 1 protein_coding {st} "
                   f"1 2 30 2 4 13 13 28 {fr} 0")
            yield f"tblgene 11 {'ACGT' * 8} protein_coding g0 1 protein_coding {st} 1 2 30 3 4 9 9 13 13 28 {fr} 0"
    # ---- locstr: exhaustive small scope
    i = 0
    for k in (1, 2, 3):
        for bl in layouts(k, g):
            for st in "+-.":
                for si in (0, 1):
                    for ei in (0, 1):
                        i += 1
                        run.count(f"locstr:blocks={k}")
                        yield locstr_line(KEYS[i % len(KEYS)], st, si, ei, bl)
    # ---- locstr: random, many blocks, many digits
    for _ in range(400 if quick else 20000):
        k = rng.randint(1, 9)
        scale = rng.choice([40, 1000, 10 ** 5, 10 ** 9, 10 ** 12])
        pts = sorted(rng.sample(range(0, scale + 1), 2 * k))
        bl = [(pts[2 * j], pts[2 * j + 1]) for j in range(k)]
        if rng.random() < 0.3:
            b2 = [bl[0]]
            for s, e in bl[1:]:
                b2.append((b2[-1][1], e) if rng.random() < 0.5 else (s, e))
            bl = b2
        run.count(f"locstr:rand-blocks={min(k, 5)}{'+' if k > 5 else ''}")
        yield locstr_line(rng.choice(KEYS), rng.choice("+-+-."), rng.random() < 0.5, rng.random() < 0.5, bl)
    run.exhaustive = True
    # ---- quals
    for _ in range(300 if quick else 4000):
        yield quals_line(rng, run)
    # ---- cdsfeat: designed product
    yield from cdsfeat_designed(run)
    # ---- seeding (`if random_seed is not None:`; F-C17a before /repo 2007fc1)
    for sd in ["~", "0", "1", "-1", "7", "123", str(2 ** 40), "00"]:
        run.count("seed-op")
        yield f"seed {sd}"
    # ---- locus tags
    for prefix in ["LT", "test", "a_b", "X9"]:
        for step in [1, 2, 5, 10, 1000, 0, -3]:
            for ns in ([1], [3], [2, 3], [1, 0, 4], [0], [7, 5]):
                run.count(f"locustags:step={step}")
                yield f"locustags {G.enc(prefix)} {step} {len(ns)} " + " ".join(map(str, ns))
    # ---- one call over several collections: sequence names repeat / interleave; list, tuple and one-shot iterators
    import itertools
    names = ["chrA", "chrB", "chrC"]
    for m in (1, 2, 3, 4):
        for combo in itertools.product(names[:min(m, 3)], repeat=m):
            for how in (("list", "tuple", "iter", "gen") if m <= 3 else ("list", "iter")):
                ns = [rng.choice([0, 1, 2, 3]) for _ in combo]
                run.count(f"headers:{how}")
                yield f"headers {how} {m} " + " ".join(f"{nm} {n}" for nm, n in zip(combo, ns))
    # ---- whole collections and their genes
    n = 900 if quick else 30000
    for _ in range(n):
        coll, line = coll_case(rng, run)
        yield line
        gene = rng.choice(coll["genes"])
        run.count("tblgene")
        yield f"tblgene {rng.choice([0, 1, 11])} {coll['genome']} {G.enc_gene(gene)}"
    # ---- guaranteed share: CDS block structure differs from the exon structure (both strands, all start frames)
    #   one exon with a CDS of 2-3 adjacent blocks; multi-exon transcripts with a CDS block boundary inside an exon;
    #   CDS blocks adjacent across a 0-bp exon boundary
    shapes = [dict(max_exons=1, split_cds=1.0, p_coding=1.0, max_tx=2, genome_len=150, gene_span=90),
              dict(max_exons=3, split_cds=1.0, p_coding=1.0, max_tx=2, genome_len=150, gene_span=90, p_adjacent=0.0),
              dict(max_exons=3, split_cds=0.5, p_coding=1.0, max_tx=2, genome_len=150, gene_span=90, p_adjacent=1.0)]
    for i in range(150 if quick else 3000):
        coll, line = coll_case(rng, run, shapes[i % 3])
        run.count("coll:cds-structure-differs-from-exons")
        yield line
        run.count("tblgene")
        yield f"tblgene {rng.choice([0, 1, 11])} {coll['genome']} {G.enc_gene(rng.choice(coll['genes']))}"
    # seed 0 (F-C17a, repaired in /repo 2007fc1)
    for _ in range(6 if quick else 40):
        _, line = coll_case(rng, run, dict(genome_len=150, gene_span=90, p_adjacent=0.0, p_coding=1.0), seed=0)
        yield line
    # missing transcript types (F-C17b, repaired), mixed coding / non-coding genes (documented refusal)
    for _ in range(12 if quick else 100):
        _, line = coll_case(rng, run, dict(genome_len=150, gene_span=90, ttypes="none", p_coding=0.4))
        yield line
        _, line = coll_case(rng, run, dict(genome_len=150, gene_span=90, allow_mixed=True, p_coding=1.0, max_tx=3))
        yield line
