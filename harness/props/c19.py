"""C19 — invalid input is refused with documented errors; nothing ill-formed is built."""
import itertools

from harness import impl_validate as V

ID = "C19"
LEAN_MODULE = "BioCantor.Props.C19"
EXTRA_LEAN_MODULES = ["BioCantor.Props.C19Ties"]   # regenerated scan_windows validation = Model.Validate.scanWinCount
GEN_NEEDS = ["Location_scan_windows_checks", "Strand_", "CDSFrame_from_int", "CDSPhase_from_int", "codonAlphabet"]
DESIGN_REF = "4/C19"
DRIVER = "drivers/C19.lean"
SPEC_DRIVER = "drivers/SpecC19.lean"
DRIVER_MODULES = ["BioCantor.Driver.Main", "BioCantor.Driver.Validate"]
SPEC_DRIVER_MODULES = ["BioCantor.Driver.Main", "BioCantor.Driver.SpecValidate"]
ERR_CLASS = True          # the model must raise the SAME documented class as the constructor (and `err!` only where it does)
MODEL_OPS = set(V.MODEL_OPS)  # the grid lines (ctor / call) are judged by the spec driver only
RULE = ("deterministic grid: (A) every constructor x every applicable corruption kind of every argument, on well-formed "
        "bases drawn from VERIF_SEED; (B) every public property / method (found by introspection) x boundary argument "
        "tuples derived from the signature; plus the plain-data form of the grid points of the Lean-modelled constructors "
        "and exhaustive small scopes of those.  Non-trivial = a corrupted constructor call, a method call with arguments, "
        "or a plain-data line; distinct = distinct operation lines")
EXHAUSTIVE_NOTE = ""
TRUSTED = ["harness/wf_checks.py (independent well-formedness predicates) and the exception classifier of "
           "harness/impl_validate.py (explicit `raise` of the library / Enum lookup = documented)",
           "Model/Validate.lean is hand-written; tied to the constructors by this run's correspondence (exception class included)",
           "harness/shims.py (third-party API drift) for the gene / io classes"]
ASSUMPTIONS = ["'never an internal error' is decided on the grid (all public members x boundary tuples), not proved for CPython",
               "ill-typed arguments (None / wrong Python type against the annotation): Python's own TypeError counts as the "
               "documented refusal; anything else is reported",
               "the Lean constructors are parent-less except for the sequence length of a direct parent"]


def _tiny_cds(line):
    """C05 operation lines about a CDS of total length <= 7 (the lengths around one codon, every start frame)"""
    t = line.split()
    try:
        off = 2 if t[0] == "codons" else 1
        k = int(t[off + 2])
        vals = [int(x) for x in t[off + 3: off + 3 + 3 * k]]
        total = sum(vals[3 * i + 1] - vals[3 * i] for i in range(k))
        if t[0] == "codons":
            return total <= 7 and t[-1] == "-"
        return total <= 7
    except (ValueError, IndexError):
        return False


# the codon queries of a CDS that is shorter than / as long as / one base longer than a codon have KNOWN answers (0 or 1
# codons, the empty / one-letter translation): they are judged by C05's model and specification inside this run
BORROW = [dict(prop="c05", max=4000, pick=_tiny_cds,
               ops={"numcodons", "codons", "scancodons", "cdsseq", "cdsseqc", "translate", "hasstop", "inframestop",
                    "canonstart", "startin"},
               why="C19 'no internal error on any public operation': the codon queries of tiny CDSs (total length <= 7, "
                   "every start frame, 1-2 exons, both strands) must ANSWER - with the values of C05's reading-frame "
                   "specification (a codon-less CDS has 0 codons), not with a leaked error")]


def impl(line):
    return V.impl(line)


TALLY = {}
GRID = {}
BOUNDARY_STRIDE = 8


def _outcome(ans):
    if ans.startswith("err!") or ans.startswith("ok illformed"):
        return "flagged"          # internal error / ill-formed result: a finding or a violation
    if ans.startswith("err "):
        return "refused"          # documented exception class
    return "well_formed"          # `ok wf`, or a plain-data answer (judged by the Lean spec predicate)


def nontrivial(line, ans):
    t = line.split()
    fam = t[0] + (":" + t[1] if t[0] in ("ctor", "call", "bcall", "hier", "hierx", "hiers") else "")
    d = TALLY.setdefault(fam, {"refused": 0, "well_formed": 0, "flagged": 0})
    d[_outcome(ans)] += 1
    if t[0] == "ctor":
        return line if t[4] != "none" else None
    if t[0] in ("call", "bcall"):
        return line if t[4] != "prop" else None
    return line


def spec_skip(line):
    return False


def extra_checks(run):
    """auditable coverage: exact grid dimensions and, per family, how the real library answered"""
    fam = {}
    for k, d in sorted(TALLY.items()):
        top = k.split(":")[0]
        agg = fam.setdefault(top, {"refused": 0, "well_formed": 0, "flagged": 0})
        for o, n in d.items():
            agg[o] += n
    tot = {o: sum(d[o] for d in fam.values()) for o in ("refused", "well_formed", "flagged")}
    n = max(1, sum(tot.values()))
    run.extra["grid"] = {
        "dimensions": GRID.get("dimensions", {}),
        "outcomes_by_family": fam,
        "outcomes_by_class": {k: d for k, d in sorted(TALLY.items()) if ":" in k},
        "outcome_shares": {o: round(v / n, 4) for o, v in tot.items()},
        "legend": "refused = documented exception class; well_formed = `ok wf` / a plain-data answer accepted by the Lean "
                  "spec predicate unless listed under spec_failures; flagged = internal error or ill-formed result on the "
                  "implementation side - every flagged point is either matched by a finding (known_findings_hit) or a "
                  "VIOLATION",
    }


# ----------------------------------------------------------------------------------------------
# exhaustive small scopes of the plain-data constructor lines

def _lists(vals, maxlen):
    for n in range(maxlen + 1):
        yield from itertools.product(vals, repeat=n)


def _il(l):
    return " ".join([str(len(l))] + [str(x) for x in l])


def _small_scopes(run):
    thorough = run.tier != "quick"
    # SingleInterval
    for s in range(-1, 5):
        for e in range(-1, 5):
            for st in "+-.":
                for pl in ("_", "0", "2", "4"):
                    yield f"mksingle {s} {e} {st} {pl}"
    # CompoundInterval: every pair of lists (unequal lengths included)
    coords = (-1, 0, 1, 2, 3)
    ll = list(_lists(coords, 3 if thorough else 2))
    for ss in ll:
        for es in ll:
            if thorough and len(ss) == 3 and len(es) == 3 and (ss[0] + es[1]) % 2:
                continue
            for st in "+-":
                for pl in ("_", "2"):
                    yield f"mkcompound {st} {_il(ss)} {_il(es)} {pl}"
    for st in ".":
        for ss in _lists((0, 2), 2):
            for es in _lists((1, 2, 3), 2):
                yield f"mkcompound {st} {_il(ss)} {_il(es)} _"
    # Parent
    ids, tys, sts = ("_", "a", "b"), ("_", "t"), ("_", "+", "-")
    locs = ("_", "E", "L + 1 2 5 _ _", "L - 1 2 5 a _", "L + 1 3 3 _ _", "L + 2 0 2 4 6 b t", "L . 1 0 9 _ t")
    seqs = ("_", "Q 4 _ _ _", "Q 6 a t _", "Q 6 b _ K a _", "Q 6 _ _ K c chromosome", "Q 0 _ _ _")
    pars = ("_", "K a _ _", "K c chromosome _", "K c chromosome 5", "K a _ 9")
    for combo in itertools.product(ids, tys, sts, locs, seqs, pars):
        yield "mkparent " + " ".join(combo)
    # Sequence
    alph = ("NT_STRICT", "NT_STRICT_GAPPED", "AA", "GENERIC")
    for al in alph:
        for d in _lists("AcN-x*", 3):
            for pl in ("_", "N", "0", "2", "3"):
                yield f"mkseq {al} ~{''.join(d)} {pl}"
    for d in ("ACGTacgt", "ACGTX", "XACGT", "AC GT".replace(" ", "."), "acgtn", "ACGU", "zACGT", "ACGTz", "AC{GT", "AC`GT", "@CGT", "AC[T"):
        for al in ("NT_STRICT", "NT_EXTENDED", "NT_STRICT_UNKNOWN", "GENERIC"):
            yield f"mkseq {al} ~{d} {len(d)}"
    # CDSInterval
    cl = list(_lists((-1, 0, 2, 3), 2))
    fpl = ("0", "1 F0", "2 F0 F1", "2 F0 P1", "2 P0 P2", "3 F0 F0 F0", "1 P1", "1 F-1", "2 P2 F0")
    for ss in cl:
        for es in cl:
            for fp in fpl:
                for st in ("+-" if len(ss) == 2 else "+"):
                    yield f"mkcds {st} {_il(ss)} {_il(es)} {fp}"
    # TranscriptInterval
    exons = (((5, 15), (10, 20)), ((15, 5), (20, 10)), ((5,), (10,)), ((5, 15), (10,)), ((), ()), ((-1, 15), (10, 20)),
             ((5,), (3,)), ((5, 10), (10, 20)))
    csl = ("_", "0", "1 7", "2 7 15", "1 4", "2 7 16", "1 5", "2 15 7")
    cel = ("_", "0", "1 9", "1 13", "2 10 18", "1 21", "1 20", "2 18 10", "2 10 20")
    cfl = ("_", "0", "1 0", "2 0 1", "1 2")
    for ex in exons:
        for cs, ce, cf in itertools.product(csl, cel, cfl):
            yield f"mktx + {_il(ex[0])} {_il(ex[1])} {cs} {ce} {cf}"
    for ex in exons[:3]:
        yield f"mktx - {_il(ex[0])} {_il(ex[1])} 2 7 15 2 10 18 2 0 1"
        yield f"mktx . {_il(ex[0])} {_il(ex[1])} 1 7 1 9 1 0"
    # VariantIntervalCollection
    pairs = [(a, b) for a in range(-1, 5) for b in range(-1, 5)]
    yield "mkvarcoll 0"
    for p in pairs:
        yield f"mkvarcoll 1 {p[0]} {p[1]}"
    good = [(a, b) for a, b in pairs if 0 <= a <= b]
    for p in good:
        for q in good:
            yield f"mkvarcoll 2 {p[0]} {p[1]} {q[0]} {q[1]}"
    tri = [(a, b) for a, b in good if a < b]
    for p, q, r in itertools.product(tri, repeat=3):
        if thorough or (p[0] + 2 * q[0] + r[1]) % 4 == 0:
            yield f"mkvarcoll 3 {p[0]} {p[1]} {q[0]} {q[1]} {r[0]} {r[1]}"
    # VariantInterval with its ALT sequence
    for a in range(-1, 4):
        for b in range(-1, 4):
            for alt in ("", "A", "acgn", "AX", "x", "N-", "ATGCN"):
                yield f"mkvar {a} {b} ~{alt}"
    # FeatureInterval
    quals = ("_", "L0", "L1", "D 0", "D 2 1 1", "D 2 1 0", "D 1 0")
    for ss in cl:
        for es in cl:
            for q in quals:
                yield f"mkfeat {'-' if (len(ss) + len(es)) % 2 else '+'} {_il(ss)} {_il(es)} {q}"
    # GeneInterval / FeatureIntervalCollection over a pool of children (start end guid primary)
    pool = [f"{a} {b} {g} {p}" for (a, b) in ((0, 3), (2, 5), (4, 4), (1, 9)) for g in (0, 1) for p in (0, 1)]
    for op in ("mkgene", "mkfcoll"):
        for q in ("_", "L1", "D 1 0"):
            yield f"{op} 0 {q}"
            for c in pool:
                yield f"{op} 1 {c} {q}"
        for c1 in pool:
            for c2 in pool:
                yield f"{op} 2 {c1} {c2} _"
        for i, c1 in enumerate(pool):
            for j, c2 in enumerate(pool):
                for k, c3 in enumerate(pool):
                    if (i + 3 * j + 5 * k) % (7 if thorough else 29) == 0:
                        yield f"{op} 3 {c1} {c2} {c3.replace(' 0 ', ' 2 ', 1) if k % 2 else c3} _"
    # AnnotationCollection: bounds given / inferred, duplicate children
    kidpool = ("0 3 0", "2 7 1", "2 7 0", "5 5 2")
    kidlists = [()] + [(k,) for k in kidpool] + [(k1, k2) for k1 in kidpool for k2 in kidpool]
    for a in ("_", "-1", "0", "5", "9"):
        for b in ("_", "-1", "0", "5", "9"):
            for kl in kidlists:
                yield ("mkannot " + a + " " + b + " " + " ".join([str(len(kl))] + list(kl))).rstrip()
    # Codon
    for d in _lists("AtX-N", 4):
        yield f"mkcodon ~{''.join(d)}"
    for d in ("AUG", "ryk", "atgc", "A G", "ÄTG"):
        if " " not in d and d.isascii():
            yield f"mkcodon ~{d}"
    # Enum lookups
    for which in ("strand", "frame", "phase"):
        for v in range(-3, 4):
            yield f"fromint {which} {v}"
    for d in _lists("+-.x", 2):
        yield f"fromsym ~{''.join(d)}"
    # scan_windows
    locs = ("S + 0 6", "S - 2 7", "S . 0 4", "S + 3 3", "C + 2 0 3 5 8", "C - 3 0 2 2 4 7 9", "C + 2 5 5 7 7", "C . 2 0 2 4 6", "E",
            "C + 2 0 5 3 8")
    for loc in locs:
        n = {"S + 0 6": 6, "S - 2 7": 5, "S . 0 4": 4, "S + 3 3": 0, "C + 2 0 3 5 8": 6, "C - 3 0 2 2 4 7 9": 6,
             "C + 2 5 5 7 7": 0, "C . 2 0 2 4 6": 4, "E": 0, "C + 2 0 5 3 8": 10}[loc]
        for w in range(-1, n + 3):
            for step in (-1, 0, 1, 2, n, n + 1):
                for sp in range(-1, n + 2):
                    yield f"scanwin {loc} {w} {step} {sp}"


def _pair_grids(run):
    """(1) Sequence.append over ALL ordered pairs of non-empty located pieces of a short parent, all strand pairs;
    (2) every multi-operand operation over ALL pairs (from_single_intervals: also triples) of the parent-kind pool."""
    n = 7 if run.tier == "quick" else 9
    ivs = [(a, b) for a in range(n) for b in range(a + 1, n + 1)]
    for (a1, b1) in ivs:
        for (a2, b2) in ivs:
            for st1, st2 in (("+", "+"), ("-", "-"), ("+", "-"), ("-", "+")):
                yield f"sappend {n} {st1} {a1} {b1} {st2} {a2} {b2} 0"
            if (a1 + b2) % 3 == 0:
                yield f"sappend {n} - {a1} {b1} - {a2} {b2} 1"
                yield f"sappend {n} + {a1} {b1} - {a2} {b2} 1"
    for (a1, b1), (a2, b2) in (((0, 3), (3, 6)), ((0, 3), (2, 6)), ((3, 6), (0, 3))):
        for st1 in "+-.":
            for st2 in "+-.":
                yield f"sappend {n} {st1} {a1} {b1} {st2} {a2} {b2} 0"
    K = V.PARENT_KINDS
    for op in list(V.PCONS_OPS) + ["append", "mkpar"]:
        for i in range(K):
            for j in range(K):
                yield f"pcons {op} 2 {i} {j}"
    for i in range(K):
        for j in range(K):
            for k in range(K):
                # triples with at least two equal kinds, or drawn from the kinds that differ only in an ancestor's location
                if i == j or j == k or i == k or min(i, j, k) >= 10:
                    yield f"pcons fsi 3 {i} {j} {k}"


# ----------------------------------------------------------------------------------------------
# the grid

CTOR_DATA_CLASSES = ("SingleInterval", "CompoundInterval", "Parent", "Sequence", "CDSInterval", "TranscriptInterval",
                     "VariantIntervalCollection")


def cases(run):
    global EXHAUSTIVE_NOTE
    seeds_per_template = 1 if run.tier == "quick" else 4
    seen = set()

    def emit(line):
        if line not in seen:
            seen.add(line)
            return True
        return False

    dims = {"ctor": {}, "call": {}}
    TALLY.clear()
    # (A) constructors x corruption kinds -------------------------------------------------------
    n_ctor = 0
    for cn, spec in V.CLASSES.items():
        d = dims["ctor"].setdefault(cn, {"bases": 0, "corruption_kinds": set(), "points": 0})
        for tname in spec.templates:
            for _ in range(seeds_per_template):
                bid = f"{tname}.{run.rng.randint(0, 10 ** 6)}"
                d["bases"] += 1
                for param, kind in V.ctor_points(cn, bid):
                    line = f"ctor {cn} {bid} {param} {kind}"
                    if emit(line):
                        n_ctor += 1
                        d["points"] += 1
                        d["corruption_kinds"].add(f"{param}:{kind}")
                        run.count(f"ctor:{cn}:{kind}")
                        yield line
                    if cn in CTOR_DATA_CLASSES:
                        a = V.corrupt(spec, spec.base(bid), param, kind)
                        dl = V.data_line(cn, a) if a is not None else None
                        if dl and emit(dl):
                            run.count("data-line-from-grid:" + dl.split()[0])
                            yield dl
    # (B) methods x boundary arguments -----------------------------------------------------------
    n_call = 0
    for cn in V.CALL_CLASSES:
        bases = [f"{s}.0" for s in V.SPECIALS[cn]]
        if cn in V.CLASSES:
            for tname in V.CLASSES[cn].templates:
                for _ in range(seeds_per_template):
                    bases.append(f"{tname}.{run.rng.randint(0, 10 ** 6)}")
        for bid in bases:
            try:
                obj = V.call_object(cn, bid)
                points = V.method_points(obj)
            except Exception as e:  # noqa  (a base must always build: report it as a grid point that fails)
                yield f"ctor {cn} {bid} - none"
                run.notes.append(f"base {cn} {bid} did not build: {type(e).__name__}")
                continue
            if bid.startswith("x_big1200") and run.tier == "quick":
                # the quick tier keeps the coordinate maps and the structural members of the 1200-block location
                keep = ("relative_to_parent_pos", "parent_to_relative_pos", "relative_interval_to_parent_location",
                        "scan_windows", "gap_list", "gaps_location", "optimize_blocks", "optimize_and_combine_blocks",
                        "merge_overlapping", "reverse", "shift_position", "extend_absolute", "__len__", "__str__", "__hash__",
                        "blocks", "is_overlapping", "is_contiguous", "num_blocks", "start", "end", "length")
                points = [p for p in points if p[0] in keep]
            d = dims["call"].setdefault(cn, {"bases": 0, "members": set(), "argument_tuples": set(), "points": 0})
            d["bases"] += 1
            for m, argid in points:
                line = f"call {cn} {bid} {m} {argid}"
                if emit(line):
                    n_call += 1
                    d["points"] += 1
                    d["members"].add(m)
                    d["argument_tuples"].add(f"{m} {argid}")
                    run.count(f"call:{cn}")
                    yield line
    # (B') the same members on the boundary objects (every property / argument-less member of every object; the
    # argument tuples of member j on object i when (i + j) % stride == 0 - everything in the thorough tier) --------
    n_bcall, n_bobj = 0, 0
    stride = BOUNDARY_STRIDE if run.tier == "quick" else 1
    for cn, table in V.BOUNDARY.items():
        d = dims["call"].setdefault("boundary:" + cn, {"bases": 0, "members": set(), "argument_tuples": set(), "points": 0})
        for i, (name, (_fn, res)) in enumerate(table.items()):
            d["bases"] += 1
            n_bobj += 1
            for m, argid in V.boundary_points(cn, name, i, stride):
                line = f"bcall {cn} {name}.0 {m} {argid} {res}"
                if emit(line):
                    n_bcall += 1
                    d["points"] += 1
                    d["members"].add(m)
                    d["argument_tuples"].add(f"{m} {argid}")
                    run.count(f"bcall:{cn}")
                    yield line
    # operand-pair grids ---------------------------------------------------------------------------
    n_pair = 0
    for line in _pair_grids(run):
        if emit(line):
            n_pair += 1
            run.count("pair-grid:" + " ".join(line.split()[:2 if line.startswith("pcons") else 1]))
            yield line
    # parser entry points on malformed-but-parseable feature lists --------------------------------
    n_parse = 0
    for line in V.gb_lines():
        if emit(line):
            n_parse += 1
            run.count("parser-grid:gbparse")
            yield line
    # every interval / collection constructor x every shape of parent hierarchy -----------------
    n_hier = 0
    for line in V.hier_lines():
        if emit(line):
            n_hier += 1
            run.count("hierarchy-grid:" + line.split()[0])
            yield line
    # plain-data constructor lines: exhaustive small scopes ---------------------------------------
    n_small = 0
    for line in _small_scopes(run):
        if emit(line):
            n_small += 1
            run.count("small-scope:" + line.split()[0])
            yield line
    run.exhaustive = True
    GRID["dimensions"] = {
        "constructor_grid": {cn: {"bases": d["bases"], "corruption_kinds": len(d["corruption_kinds"]), "points": d["points"]}
                             for cn, d in dims["ctor"].items()},
        "method_grid": {cn: {"bases": d["bases"], "members": len(d["members"]), "member_x_argument_tuples": len(d["argument_tuples"]),
                             "points": d["points"]} for cn, d in dims["call"].items()},
        "totals": {"constructor_points": n_ctor, "method_points": n_call, "boundary_objects": n_bobj,
                   "boundary_method_points": n_bcall, "operand_pair_points": n_pair,
                   "parser_points": n_parse, "parent_hierarchy_points": n_hier,
                   "plain_data_constructor_lines": n_small},
    }
    EXHAUSTIVE_NOTE = (f"grid A: {n_ctor} constructor x corruption points over {len(V.CLASSES)} classes; grid B: {n_call} "
                       f"member x argument-tuple points over {len(V.CALL_CLASSES)} classes (every public property/method found "
                       f"by introspection); {n_pair} operand-pair points (Sequence.append over all ordered pairs of located "
                       f"pieces of a {7 if run.tier == 'quick' else 9}-base parent x strand pairs; every multi-operand operation over all pairs / triples of "
                       f"{V.PARENT_KINDS} parent kinds); {n_small} plain-data constructor lines enumerated exhaustively (SingleInterval "
                       f"coords -1..4 x parent length; CompoundInterval all list pairs of length <= {2 if run.tier == 'quick' else 3} "
                       f"over -1..3; Parent 3x2x3x7x6x5 argument combinations; Sequence all strings of length <= 3 over 6 letters x 4 "
                       f"alphabets x 5 parents; CDS / transcript / variant-collection / scan_windows small scopes)")
