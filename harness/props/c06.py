"""C06 — genome, transcript and CDS coordinate systems of a transcript commute."""
import itertools

WARM_TWINS = {"quick": 0.02, "thorough": 0.05}      # engine: call-history twins (harness/warm.py)
DECOY_TWINS = {"quick": 0.02, "thorough": 0.05}     # engine: decoy twins (harness/decoy.py)
ID = "C06"
LEAN_MODULE = "BioCantor.Props.C06"
DESIGN_REF = "4/C06"
DRIVER = "drivers/C06.lean"
SPEC_DRIVER = "drivers/SpecC06.lean"
DRIVER_MODULES = ["BioCantor.Driver.Main", "BioCantor.Driver.Transcript"]
SPEC_DRIVER_MODULES = ["BioCantor.Driver.Main", "BioCantor.Driver.SpecTranscript"]
RULE = ("exhaustive: every exon structure (non-overlapping, 0-bp gaps allowed) in the scope of `exhaustive_scope`, "
        "both strands, x every CDS placement that is a contiguous stretch of the transcript (+ non-coding) x every "
        "position of each source system plus out-of-range positions; every interval for a sample of structures; "
        "random transcripts with up to 8 exons. One line = one API method (or a two-call composition) mapped over a "
        "position range. non-trivial = the library answered ok and the transcript has >= 2 exons; "
        "distinct = distinct operation lines")
EXHAUSTIVE_NOTE = ""
TRUSTED = ["Model/Transcript.lean is hand-written; tied to gene/transcript.py, gene/interval.py, gene/cds.py, "
           "location_impl.py (gap_list) by this run's correspondence",
           "harness/shims.py (gene.transcript imports io modules that need the marshmallow shim)"]
ASSUMPTIONS = ["exon and CDS lists are passed in ascending order (as every parser of the library produces them)",
               "whole-chromosome parent (sequence length >= every coordinate), no parent, or a sequence-chunk parent "
               "(seq_chunk_to_parent) for the k*/cr* ops; codons / sequences / identity on chunks are C07",
               "cds_frames take every value (start frame 0/1/2 rotated over the placements; every frame vector on the small "
               "'reading frames' scope); lines without `F …` use consistent frames starting at ZERO"]
MODEL_OPS = None


def impl(line):
    from harness.impl_transcript import impl_tx_op
    return impl_tx_op(line)


def lean_line(line):
    """` @l`: the chunk-built transcript is reached through `liftover_to_parent_or_seq_chunk_parent` of a questioned
    whole-chromosome transcript (implementation side only; the model and the specification see the same operands)"""
    return line[:-3] if line.endswith(" @l") else line


def nontrivial(line, ans):
    if not ans.startswith("ok"):
        return None
    t = line.split()
    if int(t[3]) >= 2:
        return line
    return None


# ------------------------------------------------------------------------------------------------
# generators

def structures(max_exons, G, allow_empty=False):
    """all ascending non-overlapping exon lists (0-bp gaps allowed) with 1..max_exons exons on [0, G]"""
    def rec(start, k):
        if k == 0:
            return
        for s in range(start, G + 1):
            for e in range(s if allow_empty else s + 1, G + 1):
                yield [(s, e)]
                for rest in rec(e, k - 1):
                    yield [(s, e)] + rest
    yield from rec(0, max_exons)


def tx_bases(exons, st):
    if st == "+":
        return [p for s, e in exons for p in range(s, e)]
    return [p for s, e in reversed(exons) for p in range(e - 1, s - 1, -1)]


def cds_blocks(exons, st, a, b):
    """blocks (ascending) of the CDS covering transcript positions [a, b)"""
    pos = set(tx_bases(exons, st)[a:b])
    out = []
    for s, e in exons:
        ps = [p for p in range(s, e) if p in pos]
        if ps:
            out.append((min(ps), max(ps) + 1))
    return out


def enc_tx(plen, st, exons, cds, frames=None):
    """`frames` = cds_frames as handed to the constructor (one per CDS block, in the order of the blocks);
    None = consistent frames starting at ZERO (computed by the implementation side)"""
    s = f"{'N' if plen is None else plen} {st} {len(exons)} " + " ".join(f"{a} {b}" for a, b in exons)
    if cds is None:
        return s + " nc"
    s += f" {len(cds)} " + " ".join(f"{a} {b}" for a, b in cds)
    if frames is not None:
        s += " F " + " ".join(str(f) for f in frames)
    return s


def consistent_frames(cds, st, start_frame):
    """frames of the CDS blocks (in block order) of an uninterrupted reading frame whose 5'-most block has
    `start_frame` (what CDSInterval.construct_frames_from_location computes)"""
    blocks = cds if st != "-" else cds[::-1]
    out, f = [], start_frame
    for s, e in blocks:
        out.append(f)
        f = (f + (e - s)) % 3
    return out if st != "-" else out[::-1]


def placement_kind(exons, st, a, b, L):
    tags = []
    if a == 0:
        tags.append("cds-at-5p-end")
    if b == L:
        tags.append("cds-at-3p-end")
    if a == 0 and b == L:
        tags.append("cds-full-length")
    # exon boundaries in transcript coordinates
    bounds = set(itertools.accumulate(e - s for s, e in (exons if st == "+" else exons[::-1])))
    if a in bounds and a != L:
        tags.append("cds-starts-at-exon-boundary")
    if b in bounds and b != L:
        tags.append("cds-ends-at-exon-boundary")
    return tags


def structure_lines(plen, st, exons, G, full=True):
    tx = enc_tx(plen, st, exons, None)
    L = sum(e - s for s, e in exons)
    hi = max(e for _, e in exons) + 1
    yield f"c2t {tx} -1 {hi}"
    yield f"t2c {tx} -1 {L + 1}"
    yield f"rt_t {tx} -1 {L + 1}"
    yield f"rt_c {tx} -1 {hi}"
    yield f"introns {tx}"
    yield f"span {tx}"
    if full:
        yield f"exloc {tx}"
        # a non-coding transcript refuses every CDS question
        yield f"c2d {tx} -1 {hi}"
        yield f"d2t {tx} -1 1"
        yield f"t2d {tx} -1 1"
        yield f"utr5 {tx}"
        yield f"utr3 {tx}"


def placement_lines(plen, st, exons, cds, full=True, rng=None, frames=None):
    tx = enc_tx(plen, st, exons, cds, frames)
    L = sum(e - s for s, e in exons)
    Ld = sum(e - s for s, e in cds)
    hi = max(e for _, e in exons) + 1
    yield f"c2d {tx} -1 {hi}"
    yield f"d2c {tx} -1 {Ld + 1}"
    yield f"d2t {tx} -1 {Ld + 1}"
    yield f"t2d {tx} -1 {L + 1}"
    yield f"aa {tx} -1 {hi}"
    yield f"c2t2d {tx} -1 {hi}"
    yield f"utr5 {tx}"
    yield f"utr3 {tx}"
    if full or rng.random() < 0.25:
        yield f"rt_d {tx} -1 {Ld + 1}"
        yield f"rt_td {tx} -1 {L + 1}"
    if full:
        yield f"rt_dc {tx} -1 {Ld + 1}"
        yield f"cdsloc {tx}"


def interval_lines(plen, st, exons, cds, G):
    tx = enc_tx(plen, st, exons, cds)
    L = sum(e - s for s, e in exons)
    top = (plen if plen is not None else G + 1)
    for s in range(0, top + 1):
        for e in range(s, top + 2):
            for ist in "+-":
                yield f"ci2t {tx} {s} {e} {ist}"
                if cds is not None:
                    yield f"ci2d {tx} {s} {e} {ist}"
    yield f"ci2t {tx} -1 3 +"
    yield f"ci2t {tx} 3 2 +"
    for a in range(0, L + 1):
        for b in range(a, L + 2):
            for ist in "+-":
                yield f"ti2c {tx} {a} {b} {ist}"
    yield f"ti2c {tx} -1 1 +"
    yield f"ti2c {tx} 2 1 +"
    if cds is not None:
        Ld = sum(e - s for s, e in cds)
        for a in range(0, Ld + 1):
            for b in range(a, Ld + 2):
                for ist in "+-":
                    yield f"di2c {tx} {a} {b} {ist}"
    else:
        yield f"di2c {tx} 0 1 +"
        yield f"ci2d {tx} 0 1 +"


def chunk_lines(plen, st, exons, cds, ws, we, wst, rng, twin_ops=True, frames=None):
    """`_chunk_lines`, and for a share of the lines the ` @l` twin (same operands, the chunk-built transcript reached
    through liftover of a questioned whole-chromosome transcript)"""
    for ln in _chunk_lines(plen, st, exons, cds, ws, we, wst, rng, twin_ops, frames):
        yield ln
        if wst == "+" and rng.random() < 0.12:
            yield ln + " @l"


def _chunk_lines(plen, st, exons, cds, ws, we, wst, rng, twin_ops=True, frames=None):
    """ops on the transcript built on the chunk [ws, we) (strand wst) of a chromosome of length plen"""
    k = f"{enc_tx(plen, st, exons, cds, frames)} {ws} {we} {wst}"
    L = sum(e - s for s, e in exons)
    hi = max(e for _, e in exons) + 1
    wl = we - ws
    yield f"cr2t {k} -1 {wl}"
    yield f"t2cr {k} -1 {L}"
    yield f"kloc {k}"
    if cds is not None:
        Ld = sum(e - s for s, e in cds)
        yield f"cr2d {k} -1 {wl}"
        yield f"d2cr {k} -1 {Ld}"
        yield f"kutr5 {k}"
        yield f"kutr3 {k}"
        yield f"kcdsloc {k}"
    if twin_ops:
        # chromosome-level methods of the chunk-built twin: must answer as the chromosome-built transcript does
        yield f"kc2t {k} -1 {hi}"
        yield f"kt2c {k} -1 {L}"
        if cds is not None:
            yield f"kc2d {k} -1 {hi}"
            yield f"kaa {k} -1 {hi}"
            yield f"kd2t {k} -1 {Ld}"
            yield f"kt2d {k} -1 {L}"
            yield f"kd2c {k} -1 {Ld}"
    elif cds is None:
        yield f"kutr5 {k}"
        yield f"cr2d {k} -1 1"


def chunk_interval_lines(plen, st, exons, cds, ws, we, wst):
    k = f"{enc_tx(plen, st, exons, cds)} {ws} {we} {wst}"
    L = sum(e - s for s, e in exons)
    wl = we - ws
    for s in range(0, wl + 1):
        for e in range(s, wl + 2):
            for ist in "+-":
                yield f"cri2t {k} {s} {e} {ist}"
                if cds is not None:
                    yield f"cri2d {k} {s} {e} {ist}"
    for a in range(0, L + 1):
        for b in range(a, L + 1):
            for ist in "+-":
                yield f"ti2cr {k} {a} {b} {ist}"
                if cds is not None:
                    yield f"di2cr {k} {a} {b} {ist}"
    yield f"kci2t {k} 0 {plen + 3} +"
    yield f"cri2t {k} -1 1 +"


def random_tx(rng, max_exons=8, scale=60):
    k = rng.randint(1, max_exons)
    pos = rng.randint(0, scale // 3)
    exons = []
    for _ in range(k):
        ln = rng.randint(1, max(1, scale // (2 * k)))
        if rng.random() < 0.04:
            ln = 0
        exons.append((pos, pos + ln))
        gap = 0 if rng.random() < 0.12 else rng.randint(1, max(1, scale // (2 * k)))
        pos += ln + gap
    return exons


def cases(run):
    global EXHAUSTIVE_NOTE
    rng = run.rng
    quick = run.tier == "quick"
    # (max exons, genome length, zero-length exons allowed, all placements?)
    if quick:
        scopes = [(3, 8, False, "all"), (3, 10, False, "exact"), (2, 5, True, "all")]
    else:
        scopes = [(3, 10, False, "all"), (3, 12, False, "near"), (3, 6, True, "all")]
    how = {"all": "EVERY CDS placement [a,b) of the transcript",
           "near": "every CDS placement whose two ends are each within 1 base of an exon boundary or a transcript end",
           "exact": "every CDS placement whose two ends are each an exon boundary or a transcript end"}
    EXHAUSTIVE_NOTE = (
        "exon structures = ascending non-overlapping block lists (0-bp gaps allowed), both strands, whole-chromosome "
        "parent of length G+2; " + "; ".join(
            f"<= {k} exons on a genome of length {g}{' incl. zero-length exons' if z else ''} x "
            + how[allp] + " + non-coding"
            for k, g, z, allp in scopes)
        + "; per transcript every chromosome position in [-1, end+1], every transcript position in [-1, len+1], every "
          "CDS position in [-1, len+1]; every chromosome / transcript / CDS interval (and 4 malformed requests) x relative "
          "strand + - for a 1-in-40 sample of structures")
    seen_struct, seen_pl = set(), set()
    for (kmax, G, allow_empty, all_placements) in scopes:
        for exons in structures(kmax, G, allow_empty):
            key = tuple(exons)
            first_time = key not in seen_struct
            seen_struct.add(key)
            L = sum(e - s for s, e in exons)
            plen = G + 2
            for st in "+-":
                if first_time:
                    run.count(f"exh-structure:k={len(exons)}")
                    yield from structure_lines(plen, st, exons, G, full=not quick or len(exons) < 3)
                if L == 0:
                    continue
                acc = list(itertools.accumulate(e - s for s, e in (exons if st == "+" else exons[::-1])))
                near = {0, L} | set(acc)
                if all_placements == "near":
                    near = {x + d for x in near for d in (-1, 0, 1) if 0 <= x + d <= L}
                for a in range(0, L):
                    for b in range(a + 1, L + 1):
                        if all_placements != "all" and not (a in near and b in near):
                            continue
                        pk = (key, st, a, b)
                        if pk in seen_pl:
                            continue
                        seen_pl.add(pk)
                        cds = cds_blocks(exons, st, a, b)
                        for tag in placement_kind(exons, st, a, b, L):
                            run.count("exh-placement:" + tag)
                        run.count(f"exh-placement:cds-blocks={len(cds)}")
                        # the 5'-most CDS block starts in frame 0 / 1 / 2 in turn (5'-partial CDSs included)
                        sf = (a + 2 * b + len(exons)) % 3
                        run.count(f"exh-placement:start-frame={sf}")
                        yield from placement_lines(plen, st, exons, cds, full=not quick, rng=rng,
                                                   frames=consistent_frames(cds, st, sf))
                # intervals: sample of structures, one placement (or non-coding)
                if first_time and rng.random() < (1 / 40):
                    run.count("exh-interval-structures")
                    if rng.random() < 0.3:
                        cds = None
                    else:
                        a = rng.randint(0, L - 1)
                        b = rng.randint(a + 1, L)
                        cds = cds_blocks(exons, st, a, b)
                    yield from interval_lines(plen, st, exons, cds, G)
    # ---- transcripts built on a sequence chunk: EVERY chunk window (both chunk strands) on a small scope
    kG = 4 if quick else 6
    kk = 2
    EXHAUSTIVE_NOTE += (f"; chunk-built transcripts: <= {kk} exons on a genome of length {kG} (chromosome length {kG + 2}), both "
                        "strands, EVERY CDS placement + non-coding, built on EVERY chunk window [ws,we) of the chromosome on "
                        "both chunk strands: every chunk position, every in-chunk transcript / CDS position, both UTRs, the "
                        "two chunk-relative locations, and the chromosome-level conversions of the chunk-built twin"
                        + "; every chunk / transcript / CDS interval for a 1-in-150 sample")
    for exons in structures(kk, kG, False):
        L = sum(e - s for s, e in exons)
        plen = kG + 2
        for st in "+-":
            placements = [None] + [cds_blocks(exons, st, a, b) for a in range(L) for b in range(a + 1, L + 1)]
            for pi, cds in enumerate(placements):
                fr = None if cds is None else consistent_frames(cds, st, pi % 3)
                for ws in range(0, plen):
                    for we in range(ws + 1, plen + 1):
                        for wst in "+-":
                            run.count("chunk:windows")
                            cut = ws > exons[0][0] or we < exons[-1][1]
                            run.count("chunk:cuts-transcript" if cut else "chunk:contains-transcript")
                            yield from chunk_lines(plen, st, exons, cds, ws, we, wst, rng,
                                                   twin_ops=True, frames=fr)
                            if rng.random() < 1 / 150:
                                run.count("chunk:interval-samples")
                                yield from chunk_interval_lines(plen, st, exons, cds, ws, we, wst)
    # ---- reading frames: EVERY frame vector (each CDS block 0/1/2, consistent or not) on a small scope
    fG = 6 if quick else 8
    EXHAUSTIVE_NOTE += (f"; reading frames: <= 2 exons on a genome of length {fG}, both strands, EVERY CDS placement, EVERY "
                        "assignment of a frame 0/1/2 to each CDS block (uninterrupted, frameshifted, 5'-partial): amino-acid "
                        "index and the CDS position conversions, chromosome-built and built on one chunk; the main scopes "
                        "rotate the start frame 0/1/2 over the placements")
    for exons in structures(2, fG, False):
        L = sum(e - s for s, e in exons)
        plen = fG + 2
        hi = max(e for _, e in exons) + 1
        for st in "+-":
            for a in range(L):
                for b in range(a + 1, L + 1):
                    cds = cds_blocks(exons, st, a, b)
                    Ld = b - a
                    for frames in itertools.product((0, 1, 2), repeat=len(cds)):
                        run.count("frames:vectors")
                        if list(frames) != consistent_frames(cds, st, frames[0] if st == "+" else frames[-1]):
                            run.count("frames:frameshifted")
                        if (frames[0] if st == "+" else frames[-1]) != 0:
                            run.count("frames:5p-partial")
                        tx = enc_tx(plen, st, exons, cds, frames)
                        yield f"aa {tx} -1 {hi}"
                        yield f"c2d {tx} -1 {hi}"
                        yield f"d2c {tx} -1 {Ld}"
                        if (a + b + sum(frames)) % 4 == 0:
                            ws = rng.randint(0, plen - 1)
                            we = rng.randint(ws + 1, plen)
                            k = f"{tx} {ws} {we} {rng.choice('+-')}"
                            yield f"kaa {k} -1 {hi}"
                            yield f"kc2d {k} -1 {hi}"
                            yield f"cr2d {k} -1 {we - ws}"
                            yield f"t2d {tx} -1 {L}"
    run.exhaustive = True

    # ---- CDSs whose blocks OVERLAP (the library's model of a -1 / -2 programmed frameshift: exons abut or overlap, the
    # CDS block of the first runs 1-2 bases into the second): every CDS-relative interval, every transcript-relative
    # interval, both strands (outside the claimed scope of the specification: model vs implementation)
    for exons, cds in (([(2, 6), (6, 10)], [(3, 7), (6, 9)]), ([(2, 6), (6, 10)], [(2, 8), (6, 10)]),
                       ([(1, 5), (4, 9)], [(2, 5), (4, 8)]), ([(0, 4), (4, 7), (9, 12)], [(1, 5), (4, 7), (9, 11)])):
        for st in "+-":
            tx = enc_tx(14, st, exons, cds)
            Ld = sum(e - s_ for s_, e in cds)
            run.count("overlapping-cds-blocks")
            for a in range(0, Ld + 1):
                for b in range(a, Ld + 1):
                    yield f"di2c {tx} {a} {b} +"
                    yield f"di2c {tx} {a} {b} -"
            yield f"d2c {tx} -1 {Ld}"
            yield f"cdsloc {tx}"
    # ---- random larger transcripts
    n = 250 if quick else 6000
    for _ in range(n):
        scale = rng.choice([30, 60, 200, 1500])
        exons = random_tx(rng, 8, scale)
        st = rng.choice("+-") if rng.random() < 0.97 else "."
        L = sum(e - s for s, e in exons)
        top = max(e for _, e in exons)
        plen = None if rng.random() < 0.4 else top + rng.randint(0, 5)
        run.count(f"rand:k={len(exons)}")
        if L == 0:
            yield from structure_lines(plen, st, exons, top)
            continue
        r = rng.random()
        if r < 0.12:
            cds = None
        else:
            # placements biased to exon boundaries / transcript ends
            acc = [0] + list(itertools.accumulate(e - s for s, e in (exons if st != "-" else exons[::-1])))
            def pick():
                if rng.random() < 0.6:
                    return min(L, max(0, rng.choice(acc) + rng.choice([-1, 0, 0, 1])))
                return rng.randint(0, L)
            a, b = sorted((pick(), pick()))
            if a == b:
                a, b = (a, a + 1) if a < L else (a - 1, a)
            cds = cds_blocks(exons, "+" if st == "." else st, a, b)
            for tag in placement_kind(exons, "+" if st == "." else st, a, b, L):
                run.count("rand-placement:" + tag)
            if r > 0.95:
                # a CDS that is NOT a stretch of the transcript (reaches into an intron / past the ends):
                # outside the claimed scope, kept for the model/implementation correspondence
                s0, e0 = cds[0]
                cds = [(max(0, s0 - rng.randint(1, 3)), e0 + rng.randint(0, 2))] + cds[1:]
                if plen is not None:
                    plen = max(plen, max(e for _, e in cds))
                run.count("rand:cds-not-a-stretch")
            elif r > 0.88 and len(cds) > 1:
                # a CDS block that runs 1-2 bases past its exon end: it overlaps the next CDS block when the two exons
                # abut (the library's model of a -1 / -2 programmed frameshift) or reaches into the intron otherwise
                j = rng.randrange(0, len(cds) - 1)
                cds = cds[:j] + [(cds[j][0], cds[j][1] + rng.randint(1, 2))] + cds[j + 1:]
                if plen is not None:
                    plen = max(plen, max(e for _, e in cds))
                run.count("rand:cds-block-runs-past-its-exon")
            elif rng.random() < 0.15 and len(cds) > 1:
                # adjacent CDS blocks merged into one (same bases)
                merged = [cds[0]]
                for s, e in cds[1:]:
                    if merged[-1][1] == s:
                        merged[-1] = (merged[-1][0], e)
                    else:
                        merged.append((s, e))
                if len(merged) != len(cds):
                    run.count("rand:cds-merged-adjacent-blocks")
                cds = merged
        frames = None
        if cds is not None and rng.random() < 0.8:
            if rng.random() < 0.75:
                frames = consistent_frames(cds, st, rng.randint(0, 2))
            else:
                frames = [rng.randint(0, 2) for _ in cds]
                run.count("rand:frames-as-given")
        tx = enc_tx(plen, st, exons, cds, frames)
        Ld = sum(e - s for s, e in cds) if cds else 0
        # windows of positions around interesting places
        def window(center, span=6):
            lo = center - rng.randint(1, span)
            return lo, lo + rng.randint(2, 2 * span)
        chrom_pts = [exons[0][0], exons[-1][1]] + [rng.choice(exons)[rng.randint(0, 1)] for _ in range(2)]
        for c in chrom_pts:
            lo, hi = window(c)
            lo = max(lo, -1)
            hi = max(hi, lo)
            yield f"c2t {tx} {lo} {hi}"
            yield f"rt_c {tx} {lo} {hi}"
            yield f"c2d {tx} {lo} {hi}"
            yield f"c2t2d {tx} {lo} {hi}"
            if cds is not None:
                yield f"aa {tx} {lo} {hi}"
        for c in (0, L, rng.randint(0, L)):
            lo, hi = window(c)
            lo = max(lo, -2)
            hi = max(hi, lo)
            yield f"t2c {tx} {lo} {hi}"
            yield f"rt_t {tx} {lo} {hi}"
            yield f"t2d {tx} {lo} {hi}"
            yield f"rt_td {tx} {lo} {hi}"
        for c in (0, Ld, rng.randint(0, Ld)):
            lo, hi = window(c)
            lo = max(lo, -2)
            hi = max(hi, lo)
            yield f"d2c {tx} {lo} {hi}"
            yield f"d2t {tx} {lo} {hi}"
            yield f"rt_d {tx} {lo} {hi}"
            yield f"rt_dc {tx} {lo} {hi}"
        for op in ("utr5", "utr3", "introns", "span", "exloc", "cdsloc"):
            yield f"{op} {tx}"
        if st != "." and plen is not None and rng.random() < 0.7:
            # the same transcript on a random chunk (containing it, cutting it, or missing it)
            mode = rng.random()
            if mode < 0.35:
                ws, we = rng.randint(0, exons[0][0]), rng.randint(top, plen)
            else:
                ws = rng.randint(0, max(0, plen - 1))
                we = rng.randint(ws + 1, plen)
            if we > ws:
                run.count("rand:chunk")
                yield from chunk_lines(plen, st, exons, cds, ws, we, rng.choice("+-"), rng, frames=frames)
                k = f"{tx} {ws} {we} {rng.choice('+-')}"
                for _ in range(2):
                    a = rng.randint(0, we - ws)
                    b = rng.randint(a, we - ws + (1 if rng.random() < 0.1 else 0))
                    yield f"cri2t {k} {a} {b} {rng.choice('+-')}"
                    yield f"cri2d {k} {a} {b} {rng.choice('+-')}"
                    a = rng.randint(0, L)
                    b = rng.randint(a, L)
                    yield f"ti2cr {k} {a} {b} {rng.choice('+-')}"
                    yield f"di2cr {k} {a} {b} {rng.choice('+-')}"
        for _ in range(4):
            s = rng.randint(0, top + 1)
            e = rng.randint(s, top + 3)
            yield f"ci2t {tx} {s} {e} {rng.choice('+-')}"
            yield f"ci2d {tx} {s} {e} {rng.choice('+-')}"
            a = rng.randint(0, L)
            b = rng.randint(a, L + (1 if rng.random() < 0.1 else 0))
            yield f"ti2c {tx} {a} {b} {rng.choice('+-.')}"
            a = rng.randint(0, Ld)
            b = rng.randint(a, Ld + (1 if rng.random() < 0.1 else 0))
            yield f"di2c {tx} {a} {b} {rng.choice('+-.')}"
