"""C11 — GFF3 export is well-formed and gene models survive export -> parse."""
import itertools

from harness import gen_collections as G
from harness import gff_check
from harness.impl_gff import (impl_gff_op, arm, enc_quals, enc_rows_line, enc_coll_body, default_guids, guid_str,
                              ROWTYPES)

WARM_TWINS = {"quick": 0.02, "thorough": 0.05}      # engine: call-history twins (harness/warm.py)
DECOY_TWINS = {"quick": 0.02, "thorough": 0.05}     # engine: decoy twins (harness/decoy.py)
ID = "C11"
LEAN_MODULE = "BioCantor.Props.C11"
DESIGN_REF = "4/C11"
DRIVER = "drivers/C11.lean"
SPEC_DRIVER = "drivers/SpecC11.lean"
DRIVER_MODULES = ["BioCantor.Driver.Main", "BioCantor.Driver.Gff"]
SPEC_DRIVER_MODULES = ["BioCantor.Driver.Main", "BioCantor.Driver.SpecGff"]
GEN_NEEDS = ["gffEncodingMap", "gffEncodingMapWithComma", "gff3_GFF_SOURCE", "gff3_NULL_COLUMN",
             "gff3_ATTRIBUTE_SEPARATOR", "gff3_GFF3Headers", "gff3__GFF3ReservedQualifiers",
             "gff3_BioCantorGFF3ReservedQualifiers", "gff3_BioCantorQualifiers", "gff3_BioCantorFeatureTypes",
             "biotype_UNKNOWN_BIOTYPE", "CDSFrame_to_phase", "CDSFrame_shift", "Strand_to_symbol"]
MODEL_OPS = {"esckey", "escval", "attrs", "row", "rows", "gfftext"}
ERR_CLASS = True
RULE = ("one case = one operation: an escape call, one GFFAttributes/GFFRow rendering, one export of an explicit-GUID "
        "collection (`rows`), one whole file of 1..3 collections (`gfftext`: header / pragma / FASTA glue), or one generated collection taken through export -> independent checker -> library "
        "parser -> re-export twice (`coll`).  Non-trivial: the string contains a character that must be escaped / "
        "the attributes hold >= 1 qualifier / the export has >= 4 feature lines / any `coll` case that exported; "
        "distinct = distinct operation lines")
EXHAUSTIVE_NOTE = ""
TRUSTED = ["Model/Gff.lean is hand-written; tied to rows.py / gene/*.py / collections.py / writer.py by this run's "
           "correspondence (escape tables are the regenerated Gen.gffEncodingMap*; every string constant of the model is "
           "proved equal to the regenerated Gen.gff3_* / Gen.biotype_UNKNOWN_BIOTYPE in T0_constants_tie)",
           "harness/gff_check.py: the independent Python GFF3 reader / reference decoder (mirror of Spec/Gff.lean)",
           "gffutils (third-party reader behind parse_standard_gff3) and harness/shims.py (marshmallow post_dump) on "
           "the parse leg"]
ASSUMPTIONS = ["sequence names contain no tab / LF / CR (column 1 is not escaped by the writer)",
               "qualifier keys are non-empty, pairwise distinct after ASCII case folding, and contain no non-ASCII "
               "CASED letter (Python's unicode lower-casing is outside the model)",
               "block lists are ascending, non-empty, non-overlapping (0-bp gaps included); a CDS lies inside its "
               "transcript's exon span; chunk windows contain the whole collection",
               "chunk-relative export is claimed for CDSs without programmed frameshift (the library documents the "
               "loss, cds.py:121-134)",
               "re-parse leg: no comma / double quote in keys, values, identifiers (property text); reproduction of "
               "the file is up to the order of rows with EQUAL start (the writer orders by start only)",
               "feature collections: export clauses only (their re-parse is not claimed, DESIGN 4/C11)"]


def impl(line):
    return impl_gff_op(line)


NEEDS_ESCAPE = set("\t\n\r;=%, >")


def nontrivial(line, ans):
    if not ans.startswith("ok"):
        return None
    t = line.split(" ")
    op = t[0]
    if op in ("esckey", "escval"):
        return line if ("\\" in t[1] or any(c in t[1] for c in ";=%,>")) else None
    if op in ("attrs", "row"):
        return line if " 0" != line[-2:] else None
    if op in ("rows", "gfftext"):
        return line if ans.count("\\n") >= 4 else None
    if op == "coll":
        return line
    return None


# ------------------------------------------------------------------------------------------------------

def _strings(n):
    for k in range(n + 1):
        for tup in itertools.product(G.ADVERSARIAL_ALPHABET, repeat=k):
            yield "".join(tup)


def _attr_case(rng, run):
    style = rng.choice(["plain", "adv", "advkey", "advkey"])
    pool = ["ID", "Name", "Parent", "Note", "Dbxref", "Alias", "note", "name", "id", "Gap", "Target",
            "Ontology_term", "Derives_from"]
    q = G.gen_qualifiers(rng, style, 3, key_pool=pool) or {}
    if rng.random() < 0.15:
        q[G.adversarial_string(rng, 3)] = []                      # empty value set: skipped by the writer
        run.count("attrs:empty-value-set")
    if rng.random() < 0.15:
        k = G.adversarial_string(rng, 3)
        if k.lower() not in {x.lower() for x in q}:
            q[k] = [""] if rng.random() < 0.5 else ["", G.adversarial_string(rng, 3)]   # "" is written `nan`
            run.count("attrs:empty-string-value")
    if any(k in ("ID", "Name", "Parent") and v for k, v in q.items()):
        run.count("attrs:reserved-key-present")
    ident = G.adversarial_string(rng, 5)
    parent = rng.choice([None, None, "", G.adversarial_string(rng, 5)])
    name = rng.choice([None, "", G.adversarial_string(rng, 5), G.plain_string(rng, "n")])
    return f"{rng.choice('01')} {arm(ident)} {arm(parent)} {arm(name)} {enc_quals(q)}"


ROWS_PARAMS = [
    dict(qualifiers="plain", identifiers="full", biotypes="same"),
    dict(qualifiers="adv", identifiers="adv", biotypes="differ"),
    dict(qualifiers="advkey", identifiers="sparse", biotypes="none"),
    dict(qualifiers="adv", identifiers="full", biotypes="same", n_feature_collections=1),
    dict(qualifiers="plain", identifiers="sparse", biotypes="differ", n_feature_collections=2, n_genes=0),
    dict(qualifiers="advkey", identifiers="full", biotypes="same", max_tx=4, max_exons=6, p_adjacent=0.6),
    dict(qualifiers="none", identifiers="full", biotypes="same", n_genes=1, max_tx=1, max_exons=1),
]


def _rows_case(rng, run, small=False):
    p = dict(rng.choice(ROWS_PARAMS))
    if small:
        p.update(genome_len=40, max_tx=2, max_exons=2)
    if rng.random() < 0.2:
        p["key_pool"] = ["ID", "Name", "Parent", "Note", "Dbxref", "gene_id", "Gene_ID", "transcript_id", "product"]
    coll = G.gen_collection(rng, p)
    lo, hi = G.span(coll)
    r = rng.random()
    if r < 0.3:
        par = "N"
    elif r < 0.55:
        par = "W"
    else:
        par = f"K {rng.randint(max(0, lo - 9), lo)} {rng.randint(hi, hi + 9)}"
    mode = "chunk" if (par.startswith("K") and rng.random() < 0.75) or rng.random() < 0.04 else "chrom"
    if rng.random() < 0.04:
        coll["sequence_name"] = rng.choice([None, ""])
        for g in coll["genes"]:
            g["sequence_name"] = coll["sequence_name"]
            for t in g["transcripts"]:
                t["sequence_name"] = coll["sequence_name"]
        for fc in coll["feature_collections"]:
            fc["sequence_name"] = coll["sequence_name"]
            for f in fc["feature_intervals"]:
                f["sequence_name"] = coll["sequence_name"]
        run.count("rows:no-sequence-name")
    elif rng.random() < 0.1:
        coll["sequence_name"] = rng.choice(["c 1", "chr;=1", "λ", "1"])
        for g in coll["genes"]:
            g["sequence_name"] = coll["sequence_name"]
            for t in g["transcripts"]:
                t["sequence_name"] = coll["sequence_name"]
        for fc in coll["feature_collections"]:
            fc["sequence_name"] = coll["sequence_name"]
            for f in fc["feature_intervals"]:
                f["sequence_name"] = coll["sequence_name"]
    guids = default_guids(coll)
    if rng.random() < 0.08 and len(coll["genes"]) >= 2:
        # the hypothesis of the unique-ID clause violated on purpose: two genes share a transcript GUID
        guids[("tx", 1, 0)] = guids[("tx", 0, 0)]
        run.count("rows:colliding-guids")
    for tag in G.classify(coll):
        run.count("rows:" + tag)
    run.count(f"rows:mode={mode}/{par[0]}")
    return enc_rows_line(coll, mode, rng.random() < 0.5, par, guids)


TEXT_NAMES = ["chrB", "chrA", "chr10", "2", "Chr", "chr_b"]


def _text_case(rng, run):
    """`collection_to_gff3` on 1..3 collections with distinct sequence names: header / pragma / FASTA glue"""
    n = rng.choice([1, 2, 2, 3])
    names = rng.sample(TEXT_NAMES, n)
    add_seq, ordered = rng.random() < 0.6, rng.random() < 0.75
    kinds = rng.choice(["W", "K", "mixed", "N"] if not add_seq else ["W", "W", "K", "K", "mixed"])
    chrom_rel = rng.random() < (0.85 if kinds in ("W", "N") else 0.35)
    parts = []
    for ci, name in enumerate(names):
        p = dict(rng.choice(ROWS_PARAMS[:4]))
        p.update(genome_len=rng.choice([40, 61, 120, 130]), max_tx=2, max_exons=3, seqname=name)
        if rng.random() < 0.15:
            p.update(n_genes=0, n_feature_collections=0)            # empty collection: pragma + FASTA only
        coll = G.gen_collection(rng, p)
        L = coll["genome_len"]
        kind = kinds if kinds != "mixed" else rng.choice(["W", "K"])
        if kind == "W":
            par, seq = "W", G.genome(L)
        elif kind == "K":
            sp = G.span(coll) or (5, 20)
            cs, ce = rng.randint(max(0, sp[0] - 9), sp[0]), rng.randint(sp[1], min(L, sp[1] + 70))
            par, seq = f"K {cs} {ce}", G.genome(max(L, ce))[cs:ce]
        else:
            par, seq = "N", None
        parts.append(f"{arm(seq)} " + enc_coll_body(coll, par, default_guids(coll, base=1000 * (ci + 1))))
        run.count(f"gfftext:par={kind}")
    run.count(f"gfftext:collections={n}/addseq={int(add_seq)}/ordered={int(ordered)}/chromrel={int(chrom_rel)}")
    return (f"gfftext {int(add_seq)} {int(ordered)} {int(chrom_rel)} {rng.choice('01')} {n} " + " ".join(parts))


COLL_COMBOS = [("1", "chrom", "W"), ("0", "chrom", "W"), ("1", "chunk", "K"), ("0", "chunk", "K"),
               ("0", "chrom", "K"), ("0", "chrom", "N")]
# documented refusals: chromosome coordinates + sequences on a chunk; chunk-relative without a chunk; FASTA without
# a sequence
COLL_REFUSALS = [("1", "chrom", "K"), ("0", "chunk", "N"), ("0", "chunk", "W"), ("1", "chrom", "N")]


def cases(run):
    global EXHAUSTIVE_NOTE
    rng = run.rng
    quick = run.tier == "quick"
    n = 2 if quick else 3
    EXHAUSTIVE_NOTE = (f"every string of length <= {n} over the 14-letter adversarial alphabet "
                       f"{G.ADVERSARIAL_ALPHABET!r}: escape_key (lower on/off) and escape_value (comma on/off), and as "
                       "the single qualifier key / value of a GFFAttributes (length <= 2)")
    # (a) escaping: exhaustive small scope + random longer strings ---------------------------------------------
    for s in _strings(n):
        if s:
            yield f"esckey {arm(s)} 0"
            yield f"esckey {arm(s)} 1"
        yield f"escval {arm(s)} 0"
        yield f"escval {arm(s)} 1"
        run.count("esc:exhaustive-strings")
    for s in _strings(2):
        if s:
            yield f"attrs 1 {arm(s)} ~ {arm(s)} 1 {arm(s)} 1 {arm(s)}"
            yield f"attrs 1 i {arm(s)} ~ 2 k 2 {arm(s)} x {arm('K' + s)} 1 {arm(s + s)}"
    run.exhaustive = True
    for _ in range(300 if quick else 6000):
        s = G.adversarial_string(rng, rng.choice([4, 8, 30]))
        yield f"esckey {arm(s)} {rng.choice('01')}"
        yield f"escval {arm(s)} {rng.choice('01')}"
        run.count("esc:random-strings")
    # (a) attribute column and whole rows -----------------------------------------------------------------------
    for _ in range(500 if quick else 8000):
        yield "attrs " + _attr_case(rng, run)
    for _ in range(300 if quick else 5000):
        seqid = rng.choice(["chr1", "c 1", "λ", "1", "chr;1"])
        s = rng.randint(1, 10 ** rng.choice([1, 3, 9]))
        e = s + rng.randint(0, 10 ** rng.choice([0, 2, 7]))
        yield (f"row {arm(seqid)} {rng.choice(list(ROWTYPES))} {s} {e} {rng.choice('+-.')} {rng.choice('.012')} "
               + _attr_case(rng, run))
    # (a/b) explicit-GUID collections: model rows vs the real writer, judged by the Lean reference decoder --------
    for i in range(600 if quick else 6000):
        yield _rows_case(rng, run, small=(i % 3 == 0))
    yield f"rows chrom 1 chr1 N 0"                     # empty collection: header only
    # (b) the whole file: header, ##sequence-region, per-collection row blocks ordered by sequence name, ##FASTA ----
    for _ in range(250 if quick else 3000):
        yield _text_case(rng, run)
    # (b)(c)(d) generated collections through the whole pipeline ---------------------------------------------------
    per = 20 if quick else 150
    for profile in gff_check.PROFILES:
        seeds = list(range(3)) + [rng.randrange(10, 10 ** 6) for _ in range(per)]
        for seed in seeds:
            combo = COLL_COMBOS if seed < 3 else [rng.choice(COLL_COMBOS), rng.choice(COLL_COMBOS)]
            for fasta, mode, par in dict.fromkeys(combo):
                run.count(f"coll:{profile}")
                run.count(f"coll:mode={mode}/{par}/fasta={fasta}")
                yield f"coll {seed} {profile} {fasta} {mode} {par}"
    for fasta, mode, par in COLL_REFUSALS:
        yield f"coll 1 base {fasta} {mode} {par}"
