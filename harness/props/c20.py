"""C20 — gene and collection aggregates are the stated functions of their children."""
import itertools

from harness.impl_aggregates import impl_agg_op, enc_children, enc_blocks

WARM_TWINS = {"quick": 0.02, "thorough": 0.05}      # engine: call-history twins (harness/warm.py)
DECOY_TWINS = {"quick": 0.02, "thorough": 0.05}     # engine: decoy twins (harness/decoy.py)
ID = "C20"
LEAN_MODULE = "BioCantor.Props.C20"
DESIGN_REF = "4/C20"
DRIVER = "drivers/C20.lean"
SPEC_DRIVER = "drivers/SpecC20.lean"
DRIVER_MODULES = ["BioCantor.Driver.Main", "BioCantor.Driver.Aggregates"]
SPEC_DRIVER_MODULES = ["BioCantor.Driver.Main", "BioCantor.Driver.SpecAggregates"]
MODEL_OPS = {"gene", "genek", "gmt", "gmc", "fcoll", "fcollk", "fmf", "acoll", "acollp", "acollk"}       # gacc: real objects with sequence vs the spec only
ERR_CLASS = True
RULE = ("genek / fcollk: the gene / fcoll lists with one child fewer, built on 7 sequence-chunk windows x both chunk "
        "strands (members contained in / cut by / outside the chunk); gene / fcoll: every list of <= K children (K=3 quick, 4 thorough) over 8 transcript (6 feature) templates "
        "with ties in CDS size and in spliced length, a zero-length child, adjacent blocks, x primary flag 0/1; "
        "gmt / gmc / fmf: the same lists x strand +/- per child (flags off); acoll: every pair of gene / "
        "feature-collection lists with <= 2 members each over 4 spans x the 4 bound-argument shapes, and with a "
        "chromosome parent (4 parent locations x 36 member lists x 3 bound shapes); gacc: accessors "
        "of the primary member on real objects with sequence; then random larger aggregates (<= 6 children, "
        "<= 4 blocks). non-trivial = >= 2 children / members; distinct = distinct operation lines")
EXHAUSTIVE_NOTE = ""
TRUSTED = ["Model/Aggregates.lean is hand-written; tied to gene/interval.py, gene/gene.py, gene/feature.py, "
           "gene/collections.py by this run's correspondence",
           "Model.unionWithSingle (Model/Algebra.lean, shared with C02) mirrors location_impl.py's union",
           "child attributes (start, end, len, cds_size, is_coding) are recomputed in Lean from the blocks sent",
           "harness/shims.py for the gene package imports"]
ASSUMPTIONS = ["children without parents; collections with at most a sequence-less chromosome parent (op acollp); "
               "sequence accessors: one chromosome parent with sequence (op gacc)",
               "child blocks are valid (start <= end), ascending and non-overlapping; a CDS lies within its exons",
               "variant collections are not part of this property's aggregates"]

# transcript templates: (exon blocks, CDS blocks)
TX = [
    ([(0, 4)], []),                         # len 4
    ([(2, 6)], []),                         # len 4 (tie in length)
    ([(1, 3), (5, 8)], [(1, 3)]),           # len 5, cds 2
    ([(0, 3), (6, 9)], [(2, 3), (6, 7)]),   # len 6, cds 2 (tie in cds size)
    ([(4, 9)], [(4, 9)]),                   # len 5, cds 5
    ([(3, 3)], []),                         # zero length (falsy object)
    ([(5, 8)], [(5, 7)]),                   # len 3, cds 2
    ([(2, 4), (4, 6)], []),                 # adjacent blocks, len 4
]
FEAT = [
    ([(0, 4)], ["a"]),
    ([(2, 6)], ["b", "a"]),
    ([(1, 3), (5, 8)], []),
    ([(3, 3)], ["c"]),
    ([(0, 9)], ["a", "c"]),
    ([(2, 4), (4, 6)], ["b"]),
]
SPANS = [(0, 5), (0, 9), (3, 8), (5, 6)]
CHUNKS = [(0, 12), (0, 5), (3, 9), (4, 6), (1, 4), (5, 10), (7, 8)]


def impl(line):
    return impl_agg_op(line)


def lean_line(line):
    """` @q`: the gene is the result of `query_by_guids` on a larger gene (implementation side only)"""
    return line[:-3] if line.endswith(" @q") else line


def _n_children(t, i):
    return int(t[i])


def nontrivial(line, ans):
    t = line.split()
    op = t[0]
    if op in ("gene", "fcoll", "fmf", "gacc"):
        return line if int(t[1]) >= 2 else None
    if op in ("genek", "fcollk"):
        return line if int(t[4]) >= 2 else None
    if op in ("gmt", "gmc"):
        return line if int(t[2]) >= 2 else None
    if op in ("acollp", "acollk"):
        t = [t[0]] + t[3:]
        op = "acoll"
    if op == "acoll":
        ng = int(t[3])
        nf = int(t[4 + 2 * ng])
        return line if ng + nf >= 2 else None
    return None


def tx_child(k, strand="+", primary=False):
    bl, cds = TX[k]
    return dict(strand=strand, primary=primary, blocks=bl, cds=cds, types=[])


def feat_child(k, strand="+", primary=False):
    bl, types = FEAT[k]
    return dict(strand=strand, primary=primary, blocks=bl, cds=[], types=types)


def _lists(options, kmax):
    for n in range(0, kmax + 1):
        yield from itertools.product(options, repeat=n)


def _exhaustive(run, kmax):
    # primary / span / coding: templates x flag, one strand
    opts = [(k, f) for k in range(len(TX)) for f in (False, True)]
    for sel in _lists(opts, kmax):
        cs = [tx_child(k, "+", f) for k, f in sel]
        flags = sum(1 for _, f in sel if f)
        run.count(f"gene:n{len(sel)}:flags{min(flags, 2)}")
        yield "gene " + enc_children(cs)
        if len(cs) >= 2 and not any(c["primary"] for c in cs) and run.rng.random() < 0.25:
            yield "gene " + enc_children(cs) + " @q"
    opts = [(k, f) for k in range(len(FEAT)) for f in (False, True)]
    for sel in _lists(opts, kmax):
        cs = [feat_child(k, "+", f) for k, f in sel]
        run.count(f"fcoll:n{len(sel)}")
        yield "fcoll " + enc_children(cs)
    # the same aggregates of objects built on a sequence chunk (either strand) that contains / cuts / misses members
    kk = kmax - 1
    opts = [(k, f) for k in range(len(TX)) for f in (False, True)]
    for sel in _lists(opts, kk):
        if not sel:
            continue
        cs = [tx_child(k, "+", f) for k, f in sel]
        for lo, hi in CHUNKS:
            for cst in "+-":
                run.count(f"genek:n{len(sel)}")
                yield f"genek {lo} {hi} {cst} " + enc_children(cs)
    opts = [(k, f) for k in range(len(FEAT)) for f in (False, True)]
    for sel in _lists(opts, kk):
        if not sel:
            continue
        cs = [feat_child(k, "+", f) for k, f in sel]
        for lo, hi in CHUNKS:
            for cst in "+-":
                run.count(f"fcollk:n{len(sel)}")
                yield f"fcollk {lo} {hi} {cst} " + enc_children(cs)
    # merged features: templates x strand
    mk = kmax if kmax <= 3 else 3
    opts = [(k, s) for k in range(len(TX)) for s in "+-"]
    for sel in _lists(opts, mk):
        if not sel:
            continue
        cs = [tx_child(k, s) for k, s in sel]
        mixed = len({s for _, s in sel}) > 1
        run.count("merged:mixed-strands" if mixed else "merged:one-strand")
        yield "gmt 1 " + enc_children(cs)
        yield "gmc 1 " + enc_children(cs)
    if kmax > 3:
        opts4 = [(k, s) for k in (0, 2, 3, 5, 7) for s in "+-"]
        for sel in itertools.product(opts4, repeat=4):
            cs = [tx_child(k, s) for k, s in sel]
            yield "gmt 1 " + enc_children(cs)
            yield "gmc 1 " + enc_children(cs)
    opts = [(k, s) for k in range(len(FEAT)) for s in "+-"]
    for sel in _lists(opts, mk):
        if not sel:
            continue
        yield "fmf " + enc_children([feat_child(k, s) for k, s in sel])
    # gene_type=None (F-C19d)
    for k in (0, 2, 4):
        yield "gmt 0 " + enc_children([tx_child(k)])
        yield "gmc 0 " + enc_children([tx_child(k)])
    yield "gmt 0 " + enc_children([tx_child(0, "+"), tx_child(1, "-")])
    # annotation collections
    member_lists = [list(p) for n in range(0, 3) for p in itertools.product(SPANS, repeat=n)]
    for gl in member_lists:
        for fl in member_lists:
            for bs, be in (("-", "-"), ("0", "20"), ("2", "-"), ("-", "7")):
                run.count("acoll")
                yield f"acoll {bs} {be} {enc_blocks(gl)} {enc_blocks(fl)}"
    # every kind of member, variant collections included (also on their own)
    vspans = [(s, e) for (s, e) in SPANS if e > s]
    vlists = [list(p) for n in range(0, 3) for p in itertools.product(vspans[:4], repeat=n)]
    short = [list(p) for n in range(0, 2) for p in itertools.product(SPANS, repeat=n)]
    for gl in short:
        for fl in short:
            for vl in vlists:
                run.count("aciter")
                yield f"aciter {enc_blocks(gl)} {enc_blocks(fl)} {enc_blocks(vl)}"
    # with a chromosome parent: location inside / around / beside the members, or a parent without location
    small = [list(p) for n in range(0, 2) for p in itertools.product(SPANS, repeat=n)] + [[(3, 8), (0, 5)]]
    for ps, pe in (("0", "50"), ("4", "6"), ("10", "20"), ("-", "-")):
        for gl in small:
            for fl in small:
                for bs, be in (("-", "-"), ("1", "30"), ("2", "-")):
                    run.count("acollp")
                    yield f"acollp {ps} {pe} {bs} {be} {enc_blocks(gl)} {enc_blocks(fl)}"


    # chunk-built collections: members contained in / overhanging the left or right edge of / outside the chunk
    # (iteration order and bounds are functions of the CHROMOSOME coordinates of the members)
    spans_k = [(0, 5), (2, 9), (3, 8), (5, 6), (1, 4), (7, 11)]
    lists_k = [list(p) for n in range(0, 3) for p in itertools.product(spans_k, repeat=n)]
    for lo, hi in ((3, 10), (4, 6), (0, 12)):
        for gl in lists_k:
            for fl in lists_k:
                if len(gl) + len(fl) == 0 or (len(gl) + len(fl) > 3 and run.tier == "quick"):
                    continue
                run.count("acollk")
                yield f"acollk {lo} {hi} - - {enc_blocks(gl)} {enc_blocks(fl)}"


def _rand_blocks(rng, maxb, genome):
    n = rng.randint(1, maxb)
    pts = sorted(rng.randint(0, genome) for _ in range(2 * n))
    if rng.random() < 0.3:
        # force adjacency / zero-length somewhere
        j = rng.randrange(len(pts) - 1)
        pts[j + 1] = pts[j]
        pts.sort()
    return [(pts[2 * i], pts[2 * i + 1]) for i in range(n)]


def _rand_tx(rng, genome, strand, primary):
    bl = _rand_blocks(rng, 4, genome)
    cds = []
    if rng.random() < 0.6:
        nonempty = [b for b in bl if b[1] > b[0]]
        if nonempty:
            i = rng.randrange(len(nonempty))
            j = rng.randrange(i, len(nonempty))
            sub = nonempty[i:j + 1]
            s0 = rng.randint(sub[0][0], sub[0][1] - 1) if len(sub) > 1 else rng.randint(sub[0][0], sub[0][1] - 1)
            sub = [(s0, sub[0][1])] + sub[1:]
            last = sub[-1]
            e0 = rng.randint(last[0] + 1, last[1]) if last[1] > last[0] else last[1]
            sub = sub[:-1] + [(last[0], e0)]
            cds = [b for b in sub if b[1] >= b[0]]
            if any(b[1] <= b[0] for b in cds):
                cds = []
    return dict(strand=strand, primary=primary, blocks=bl, cds=cds, types=[])


def _random(run, n):
    rng = run.rng
    for _ in range(n):
        k = rng.randint(1, 6)
        genome = rng.choice([12, 30, 60])
        one_strand = rng.random() < 0.7
        st0 = rng.choice("+-")
        nflag = rng.choice([0, 0, 0, 1, 1, 2])
        flagged = set(rng.sample(range(k), min(nflag, k)))
        cs = [_rand_tx(rng, genome, st0 if one_strand else rng.choice("+-"), i in flagged) for i in range(k)]
        run.count(f"rand:gene:n{k}")
        yield "gene " + enc_children(cs)
        if len(cs) >= 2 and not any(c["primary"] for c in cs) and run.rng.random() < 0.25:
            yield "gene " + enc_children(cs) + " @q"
        lo = rng.randint(0, genome - 1)
        hi = rng.randint(lo + 1, genome)
        cst = rng.choice("+-")
        run.count("rand:genek")
        yield f"genek {lo} {hi} {cst} " + enc_children(cs)
        plain = [dict(c, primary=False) for c in cs]
        yield "gmt 1 " + enc_children(plain)
        yield "gmc 1 " + enc_children(plain)
        if rng.random() < 0.5:
            yield "gacc " + enc_children(cs)
        fs = []
        for i, c in enumerate(cs):
            fs.append(dict(strand=c["strand"], primary=c["primary"], blocks=c["blocks"], cds=[],
                           types=rng.sample(["a", "b", "c", "Gene", "x y"], rng.randint(0, 3))))
        yield "fcoll " + enc_children(fs)
        yield f"fcollk {lo} {hi} {cst} " + enc_children(fs)
        yield "fmf " + enc_children([dict(c, primary=False) for c in fs])
        ng, nf = rng.randint(0, 4), rng.randint(0, 4)
        gl = [tuple(sorted((rng.randint(0, 30), rng.randint(0, 30)))) for _ in range(ng)]
        fl = [tuple(sorted((rng.randint(0, 30), rng.randint(0, 30)))) for _ in range(nf)]
        run.count("rand:acoll")
        yield f"acoll - - {enc_blocks(gl)} {enc_blocks(fl)}"


def _gacc_grid(run):
    # accessors on real sequence: templates shifted so that CDS lengths vary; flags none / one
    base = [
        dict(strand="+", primary=False, blocks=[(0, 30)], cds=[(3, 27)], types=[]),
        dict(strand="+", primary=False, blocks=[(5, 20), (30, 50)], cds=[(8, 20), (30, 42)], types=[]),
        dict(strand="-", primary=False, blocks=[(10, 40)], cds=[(13, 37)], types=[]),
        dict(strand="+", primary=False, blocks=[(2, 60)], cds=[], types=[]),
        dict(strand="-", primary=False, blocks=[(0, 12), (20, 32)], cds=[], types=[]),
    ]
    for n in (1, 2, 3):
        for sel in itertools.product(range(len(base)), repeat=n):
            for flag in [None] + list(range(n)):
                cs = [dict(base[k], primary=(i == flag)) for i, k in enumerate(sel)]
                run.count("gacc")
                yield "gacc " + enc_children(cs)


def cases(run):
    global EXHAUSTIVE_NOTE
    thorough = run.tier == "thorough"
    kmax = 4 if thorough else 3
    EXHAUSTIVE_NOTE = (f"gene: all lists of <= {kmax} children over 8 transcript templates x primary flag; fcoll: all lists "
                       f"of <= {kmax} over 6 feature templates x flag; gmt/gmc/fmf: all lists of <= 3 over templates x "
                       "strand (+ all 4-lists over 5 templates x strand in thorough); acoll: 21 x 21 member lists x 4 "
                       "bound shapes; gacc: all lists of <= 3 of 5 sequence-bearing transcripts x (no flag | one flag)")
    yield from _exhaustive(run, kmax)
    yield from _gacc_grid(run)
    run.exhaustive = True
    yield from _random(run, 6000 if thorough else 400)
