"""C05 — CDS codons, frame bookkeeping and translation follow one reading-frame model."""
import itertools

from harness import gen_cds as G
from harness import gen_loc
from harness.impl_cds import impl_cds_op, enc_cds, enc_win
from harness.impl_loc import enc_loc

WARM_TWINS = {"quick": 0.008, "thorough": 0.03}     # engine: call-history twins (harness/warm.py)
DECOY_TWINS = {"quick": 0.02, "thorough": 0.05}     # engine: decoy twins (harness/decoy.py)
ID = "C05"
LEAN_MODULE = "BioCantor.Props.C05"
EXTRA_LEAN_MODULES = ["BioCantor.Props.C05Ties2", "BioCantor.Props.C05Ties3"]   # ties: regenerated construct_frames_from_location / frame-cleaning loop = hand model
DESIGN_REF = "4/C05"
DRIVER = "drivers/C05.lean"
SPEC_DRIVER = "drivers/SpecC05.lean"
DRIVER_MODULES = ["BioCantor.Driver.Main", "BioCantor.Driver.CDS"]
SPEC_DRIVER_MODULES = ["BioCantor.Driver.Main", "BioCantor.Driver.SpecCDS"]
GEN_NEEDS = ["CDSInterval_construct_frames_from_location", "CDSFrame_shift", "CDSFrame_to_phase", "CDSPhase_to_frame", "gencode", "startCodons", "aacodons"]
RULE = ("exhaustive small exon layouts (see exhaustive_scope) x both strands x every frame vector (consistent and "
        "frameshifted) x every codon window, then sequence-bearing and random larger CDS (up to 6 exons); a case is "
        "non-trivial when the CDS has at least one complete codon by the reference walk of the generator and the real "
        "library answered ok; distinct = distinct operation lines")
EXHAUSTIVE_NOTE = ""
TRUSTED = ["Model/CDS.lean is hand-written; tied to gene/cds.py by this run's correspondence",
           "Gen.CDSFrame_shift / CDSFrame_to_phase / CDSPhase_to_frame and the codon tables are regenerated from source",
           "Model/Location.lean (C01) for the coordinate maps the CDS code calls"]
# codon listing / windowed codon scans / sequences / translations of CDSs built on a SEQUENCE CHUNK, with and without a
# call history (chunk-relative or chromosome views evaluated first: trailing @k / @c), are driven by C07's operations
BORROW = [dict(prop="c07", max=5000, ops={"ccodons", "kcodons", "kwcodons", "cwcodons", "cdsseq", "prot", "kframes"},
               why="C05 observe_at: codon Location tuples, extract_sequence(), translate(), frames on chunk-built CDSs and "
                   "after earlier codon listings (the lru-cached / flag-switched paths of cds.py)")]

ASSUMPTIONS = ["CDS on a whole chromosome (sequence-chunk parents are C07)",
               "exons of positive length, sorted, not overlapping (0-bp gaps included); frame values 0/1/2",
               "sequence letters are IUPAC nucleotides in either case (no gap characters inside a CDS)",
               "a CDS given by phases is the CDS given by the corresponding frames (frame = (3 - phase) mod 3)"]
MODEL_OPS = None
STRANDS = ["+", "-"]


def impl(line):
    return impl_cds_op(line)


def spec_skip(line):
    return len(line) > 6000


def nontrivial(line, ans):
    if not ans.startswith("ok"):
        return None
    t = line.split()
    try:
        if t[0] == "frames":
            return line if t[1] == "C" and int(t[3]) >= 2 else None
        off = 2 if t[0] == "codons" else 1
        strand, k = t[off], int(t[off + 2])
        vals = [int(x) for x in t[off + 3: off + 3 + 3 * k]]
        exons = [(vals[3 * i], vals[3 * i + 1]) for i in range(k)]
        frames = [vals[3 * i + 2] for i in range(k)]
        if t[off + 1] == "P":
            frames = [(3 - f) % 3 for f in frames]
        if any(f not in (0, 1, 2) for f in frames):
            return None
        return line if len(G.ref_kept(exons, strand, frames)) >= 3 else None
    except Exception:
        return None


def _cds_ops_noseq(exons, st, fv, windows, run, kinds=("c",)):
    lit = enc_cds(st, exons, fv)
    yield f"codons c {lit} -"
    for (ws, we) in windows:
        for x in (False, True):
            for api in kinds:
                yield f"codons {api} {lit} {enc_win((ws, we, x))}"


def _seq_ops(lit, run, light=False):
    yield f"cdsseq {lit}"
    yield f"cdsseqc {lit}"
    yield f"numcodons {lit}"
    yield f"scancodons {lit} 0"
    yield f"scancodons {lit} 1"
    combos = [(0, 0, 1), (1, 0, 1), (0, 1, 0), (1, 11, 0), (0, 11, 1), (1, 1, 1), (0, 0, 0)]
    if light:
        combos = run.rng.sample(combos, 3)
    for (tr, tab, strict) in combos:
        yield f"translate {lit} {tr} {tab} {strict}"
    yield f"hasstop {lit}"
    yield f"inframestop {lit}"
    yield f"canonstart {lit}"
    for tab in ((0, 1, 11) if not light else (run.rng.choice((1, 11)),)):
        yield f"startin {lit} {tab}"


def cases(run):
    global EXHAUSTIVE_NOTE
    quick = run.tier == "quick"
    # (k, max exon length, all windows?)
    scopes = [(1, 6, True), (2, 4, True), (2, 6, False), (3, 3, False)] if quick else \
             [(1, 9, True), (2, 6, True), (3, 2, True), (3, 5, False), (4, 2, False)]
    EXHAUSTIVE_NOTE = ("every exon layout with " + ", ".join(
        f"{k} exon(s) of length 1..{m}" + (" [every window start<end over span+-1 and three empty windows, with and without expand]" if w else
                                          " [no window + 3 random windows, each with and without expand]")
        for k, m, w in scopes) + "; gaps 0/1/2 bp; strands + and -; all 3^k frame vectors")
    seen = set()
    for k, m, allwin in scopes:
        for exons in G.layouts(k, m):
            for st in STRANDS:
                for fv in G.frame_vectors(k):
                    key = (tuple(exons), st, fv)
                    full = key not in seen
                    seen.add(key)
                    if full:
                        for tag in G.classify(exons, st, fv):
                            run.count("cds:" + tag)
                    if allwin:
                        wins = list(G.windows_all(exons))
                    elif full:
                        allw = list(G.windows_all(exons))
                        wins = run.rng.sample(allw, min(3, len(allw)))
                    else:
                        wins = []
                    if full or allwin:
                        ops = _cds_ops_noseq(exons, st, fv, wins, run)
                        if not full:
                            next(ops)       # the window-less op was already issued for this CDS
                        yield from ops
    run.exhaustive = True
    # None bounds, the other two public iterators, phases
    for exons in itertools.chain(G.layouts(1, 5), G.layouts(2, 3)):
        for st in STRANDS:
            for fv in G.frame_vectors(len(exons)):
                lit = enc_cds(st, exons, fv)
                yield f"codons k {lit} -"
                yield f"codons d {lit} -"
                lo, hi = exons[0][0], exons[-1][1]
                mid = (lo + hi) // 2
                for x in (False, True):
                    yield f"codons c {lit} {enc_win((None, mid, x))}"
                    yield f"codons k {lit} {enc_win((mid, None, x))}"
                    yield f"codons c {lit} {enc_win((None, None, x))}"
                litp = enc_cds(st, exons, [G.to_phase(f) for f in fv], kind="P")
                yield f"codons c {litp} -"
    # sequence-bearing small CDS: every layout, three letter streams
    seq_scopes = [(1, 7), (2, 4)] if quick else [(1, 10), (2, 6), (3, 3)]
    for k, m in seq_scopes:
        for exons in G.layouts(k, m):
            for st in STRANDS:
                for fv in G.frame_vectors(k):
                    stream = run.rng.choice(["acgt", "acgt", "iupac", "mixed"])
                    run.count("seq-stream:" + stream)
                    seq = G.random_sequence(run.rng, exons, st, fv, stream)
                    yield from _seq_ops(enc_cds(st, exons, fv, seq), run, light=quick and k > 1)
    # construct_frames_from_location: every small layout x start frame, then random layouts
    for kk, g in ([(2, 5), (3, 4)] if quick else [(2, 7), (3, 5), (4, 4)]):
        for blocks in gen_loc.layouts_exhaustive(kk, g, allow_overlap=False):
            if len(blocks) > 1 and any(s == e for s, e in blocks):
                run.count("frames:zero-length-block")
            for st in ("+", "-", "."):
                for f in (0, 1, 2):
                    kinds = ["S", "C"] if len(blocks) == 1 else ["C"]
                    for kind in kinds:
                        yield f"frames {enc_loc(kind, st, blocks)} {f}"
    # random larger CDS
    n = 250 if quick else 6000
    for _ in range(n):
        exons, st, fv = G.random_cds(run.rng, max_exons=6)
        for tag in G.classify(exons, st, fv):
            run.count("rand-cds:" + tag)
        lit = enc_cds(st, exons, fv)
        yield f"codons c {lit} -"
        lo, hi = max(0, exons[0][0] - 2), exons[-1][1] + 2
        for _ in range(4):
            ws = run.rng.randint(lo, hi)
            we = run.rng.randint(ws, hi)
            yield f"codons {run.rng.choice('ck')} {lit} {enc_win((ws, we, run.rng.random() < 0.4))}"
        stream = run.rng.choice(["acgt", "iupac", "mixed"])
        seq = G.random_sequence(run.rng, exons, st, fv, stream)
        yield from _seq_ops(enc_cds(st, exons, fv, seq), run, light=True)
        blocks = gen_loc.random_layout(run.rng, max_blocks=6, max_coord=60, p_overlap=0.0)
        yield f"frames {enc_loc('C', run.rng.choice('+-'), sorted(blocks))} {run.rng.randrange(3)}"
    # refused constructions (documented errors): empty CDS, start > end, frame count mismatch is not expressible
    for lit in ["+ F 1 5 5 0 _", "+ F 2 5 5 0 7 7 0 _", "- F 1 6 5 0 _", "+ F 2 1 4 0 9 7 1 _", "+ F 1 2 9 3 _",
                "+ P 1 2 9 5 _"]:
        yield f"codons c {lit} -"
        yield f"numcodons {lit}"
