"""C02 — location set algebra equals position-set semantics; results are normalised."""
import itertools

from harness import gen_loc
from harness.impl_loc import strip_history, hist_twin  # noqa
from harness.impl_loc import enc_loc
from harness.impl_algebra import impl_algebra_op, enc_parent

WARM_TWINS = {"quick": 0.02, "thorough": 0.05}      # engine: call-history twins (harness/warm.py)
ID = "C02"
LEAN_MODULE = "BioCantor.Props.C02"
EXTRA_LEAN_MODULES = ["BioCantor.Props.C02Ties", "BioCantor.Props.C02Ties2"]   # Gen kernels (regenerated from source) = hand-written model
GEN_NEEDS = ["SingleInterval_", "Strand_reverse", "Strand_assert_directional", "DistanceType",
             "CompoundInterval_has_overlap", "CompoundInterval_union_single_interval", "CompoundInterval_shift_position",
             "Location_contains_si"]
DESIGN_REF = "4/C02"
DRIVER = "drivers/C02.lean"
SPEC_DRIVER = "drivers/SpecC02.lean"
DRIVER_MODULES = ["BioCantor.Driver.Main", "BioCantor.Driver.Algebra"]
SPEC_DRIVER_MODULES = ["BioCantor.Driver.Main", "BioCantor.Driver.SpecAlgebra"]
ERR_CLASS = True
RULE = ("exhaustive ordered pairs of small layouts x strands x flags x Single/Compound kinds, unary operations on "
        "all small layouts, a parent pool for the gates, then random pairs with up to 6 blocks; a case is "
        "non-trivial when the real library answered ok and some operand has >= 2 blocks (or, for the parent "
        "gate cases, when both operands have a parent); distinct = distinct operation lines")
EXHAUSTIVE_NOTE = ""
TRUSTED = ["Model/Algebra.lean, Model/ParentKey.lean are hand-written; tied to location_impl.py / location.py / "
           "parent.py by this run's correspondence (exception classes compared)",
           "Gen/Kernels.lean SingleInterval kernels (extend_absolute, extend_relative, shift_position, optimize_blocks, "
           "reset_strand, reverse_strand, reverse, reset_parent, distance_to, _distance_to_single_interval, "
           "_has_overlap_single_interval, _intersection_single_interval) regenerated from source and proved equal to "
           "the model (Props/C02Ties.lean)",
           "Spec/Algebra.lean evaluates coverage position by position up to the largest coordinate in the case"]
ASSUMPTIONS = ["parents are abstracted to (id, sequence_type, sequence data, ancestors); ids are None or non-empty "
               "strings; ancestors carry no location of their own",
               "coordinates are non-negative ints; Python ints modelled as unbounded Int/Nat",
               "cgranges is not installed: the pairwise branch of _intersection_compound_interval is the one executed; the "
               "cgranges branch is modelled from the source with the documented query semantics (s < en and st < e) and "
               "proved equal to the pairwise branch for operands without zero-length blocks"]
MODEL_OPS = None

BASES = "ACGT"


def impl(line):
    return impl_algebra_op(line)


def lean_line(line):
    """history-free form of a line for the Lean drivers (see engine.evaluate, impl_loc.parse_loc kind `H`; ` @x` = the
    relaxed parent comparison of the two operands was asked first, impl_algebra._relaxed_first)"""
    if line.endswith(" @x"):
        line = line[:-3]
    return " ".join(strip_history(line.split())) if " H " in line else line


def _lit_starts(t):
    """token indices of the kind tokens of the located literals `P n (id type seq)^n <kind> …` of a line"""
    out, i = [], 1
    while i < len(t):
        if t[i] == "P" and i + 1 < len(t) and t[i + 1].isdigit():
            i += 2 + 3 * int(t[i + 1])
            if i < len(t) and t[i] in ("S", "C", "E"):
                out.append(i)
                i += 1 if t[i] == "E" else (4 if t[i] == "S" else 3 + 2 * int(t[i + 2]))
                continue
        i += 1
    return out


def cases(run):
    """every case, plus — for a share of them — the twin reached through a call history (operands warmed, then rebuilt by
    reset_strand / reverse_strand / shift_position(0) / reset_parent)"""
    share = 0.04 if run.tier == "quick" else 0.1
    for ln in _cases(run):
        yield ln
        if run.rng.random() < share:
            h = hist_twin(ln, run.rng, _lit_starts(ln.split()))
            if h:
                run.count("history-twin")
                yield h
        if ln.split(" ", 1)[0] in ("overlap", "isect", "contains", "union", "unionpo", "minus") and " P 0 " not in " " + ln \
                and run.rng.random() < 2 * share:
            run.count("relaxed-first-twin")
            yield ln + " @x"


def spec_skip(line):
    """the spec enumerates positions: skip it on huge coordinates (model-vs-implementation only there)"""
    t = line.split()
    return any(x.isdigit() and len(x) > 4 for x in t)


def nontrivial(line, ans):
    if not ans.startswith("ok"):
        return None
    if line.endswith(" @x"):
        line = line[:-3]
    t = strip_history(line.split())
    multi = False
    both_par = 0
    i = 1
    # scan located literals
    while i < len(t):
        if t[i] == "P":
            n = int(t[i + 1])
            if n > 0:
                both_par += 1
            i += 2 + 3 * n
            continue
        if t[i] == "C":
            k = int(t[i + 2])
            if k >= 2:
                multi = True
            i += 3 + 2 * k
            continue
        if t[i] == "S":
            i += 4
            continue
        i += 1
    if multi or both_par >= 2:
        return line
    return None


# ------------------------------------------------------------------------------------------------
NOPAR = enc_parent([])


def seq_of(n):
    return "".join(BASES[i % 4] for i in range(n)) if n > 0 else None


def ploc(par, kind, st, blocks):
    if kind == "E":
        return f"{NOPAR} E"
    return f"{par} {enc_loc(kind, st, blocks)}"


def shapes(max_blocks, g):
    """(kind, blocks) for every layout with <= max_blocks blocks on a genome of length g; one-block layouts as
    SingleInterval and as CompoundInterval"""
    out = []
    for blocks in gen_loc.layouts_exhaustive(max_blocks, g):
        if len(blocks) == 1:
            out.append(("S", blocks))
        out.append(("C", blocks))
    return out


STRAND_PAIRS = [("+", "+"), ("+", "-"), ("-", "-"), (".", "."), ("-", "+"), ("+", ".")]
FLAG3 = list(itertools.product("01", repeat=2))   # (ms, fs); strict is exercised in the parent pool


def binary_ops(a, b, ms_fs=FLAG3, dists=("inner", "outer", "starts", "ends"), strict="0"):
    for ms, fs in ms_fs:
        yield f"overlap {a} {b} {ms} {fs} {strict}"
        yield f"isect {a} {b} {ms} {fs} {strict}"
        yield f"contains {a} {b} {ms} {fs} {strict}"
    for ms in sorted({m for m, _ in ms_fs}):
        yield f"minus {a} {b} {ms} {strict}"
    yield f"union {a} {b}"
    yield f"unionpo {a} {b}"
    yield f"eqhash {a} {b}"
    for d in dists:
        yield f"dist {a} {b} {d}"


def unary_ops(par, kind, st, blocks, g, run, dense):
    a = ploc(par, kind, st, blocks)
    for op in ("optimize", "optcombine", "mergeov", "gaplist", "gaps", "reverse", "revstrand"):
        yield f"{op} {a}"
    for ns in "+-.":
        yield f"resetstrand {a} {ns}"
    shifts = (-1, 0, 1, 2) if dense else (-1, 1)
    for k in shifts:
        yield f"shift {a} {k}"
    ext = [(0, 0), (1, 0), (0, 1), (1, 1), (2, 1), (0, 2), (-1, 0), (0, -1)] if dense else [(1, 0), (0, 1), (2, 2)]
    for es, ee in ext:
        yield f"extabs {a} {es} {ee}"
        yield f"extrel {a} {es} {ee}"


def parent_pool(n):
    """parents for the gate behaviour; n = sequence length used for 'with sequence'"""
    s = seq_of(n)
    s2 = seq_of(n + 2)
    return {
        "none": [],
        "chrA": [("chrA", None, None)],
        "chrA+seq": [("chrA", None, s)],
        "chrB": [("chrB", None, None)],
        "chrA:type": [("chrA", "chromosome", None)],
        "chrA+seq2": [("chrA", None, s2)],
        "chrA<g1": [("chrA", None, s), ("g1", None, None)],
        "chrA<g2": [("chrA", None, s), ("g2", None, None)],
        "chrA<g1<gg": [("chrA", None, s), ("g1", None, None), ("gg", None, None)],
        "noid+seq": [(None, None, s)],
        "noid:type": [(None, "chromosome", None)],
    }


def _cases(run):
    global EXHAUSTIVE_NOTE
    quick = run.tier == "quick"
    rng = run.rng
    # ---- 1. exhaustive ordered pairs ------------------------------------------------------------
    g_pairs = 3 if quick else 5
    g_full = 2 if quick else 3
    EXHAUSTIVE_NOTE = (
        f"binary ops (overlap/isect/contains x (match_strand, full_span) in 4 combos, minus x match_strand, union, "
        f"union_preserve_overlaps, ==/hash, distance x 4 types): all ordered pairs of layouts with <= 2 blocks "
        f"(incl. zero-length, adjacent, nested, duplicate blocks; one-block layouts as SingleInterval and as "
        f"CompoundInterval; plus EmptyLocation) on a genome of length {g_full} x 6 strand pairs x all flags; on a genome "
        f"of length {g_pairs} every ordered pair x all flags with the strand pair rotating over the 6 pairs; unary ops "
        f"(optimize, optimize_and_combine, merge_overlapping, gap_list, gaps_location, reverse, reverse_strand, "
        f"reset_strand x 3, shift x 4, extend_absolute/relative x 8) on all layouts with <= 3 blocks on length "
        f"{4 if quick else 5} (with a parent sequence of exactly that length) x 3 strands; parent pool of 11 parents "
        f"(none, id only, +sequence, other id, +type, other sequence, two different grand-parents, great-grand-parent, "
        f"two without id) "
        f"as all ordered pairs x 14 location pairs x strict flag")
    sh_full = shapes(2, g_full) + [("E", [])]
    for (ka, ba), (kb, bb) in itertools.product(sh_full, repeat=2):
        for sa, sb in STRAND_PAIRS:
            if ka == "E" and kb == "E" and (sa, sb) != ("+", "+"):
                continue
            a = ploc(NOPAR, ka, sa, ba)
            b = ploc(NOPAR, kb, sb, bb)
            run.count("pairs-full")
            yield from binary_ops(a, b)
    sh = shapes(2, g_pairs) + [("E", [])]
    idx = 0
    for (ka, ba), (kb, bb) in itertools.product(sh, repeat=2):
        if max([e for _, e in ba + bb] + [0]) <= g_full:
            continue   # already covered above with every strand pair
        sa, sb = STRAND_PAIRS[idx % len(STRAND_PAIRS)]
        idx += 1
        a = ploc(NOPAR, ka, sa, ba)
        b = ploc(NOPAR, kb, sb, bb)
        run.count("pairs-rot")
        for tag in gen_loc.classify(ba) if ba else ["empty"]:
            run.count("pair-a:" + tag)
        yield from binary_ops(a, b)
    # ---- 2. unary operations -------------------------------------------------------------------
    g_un = 4 if quick else 5
    par_seq = enc_parent([("chrA", None, seq_of(g_un))])
    for blocks in gen_loc.layouts_exhaustive(3, g_un):
        for tag in gen_loc.classify(blocks):
            run.count("unary-layout:" + tag)
        kinds = ["S", "C"] if len(blocks) == 1 else ["C"]
        for kind in kinds:
            for st in "+-.":
                dense = len(blocks) <= 2
                par = par_seq if (len(blocks) + blocks[0][0]) % 2 == 0 else NOPAR
                yield from unary_ops(par, kind, st, blocks, g_un, run, dense)
                if dense:
                    yield from unary_ops(par_seq if par == NOPAR else NOPAR, kind, st, blocks, g_un, run, False)
    for op in ("optimize", "optcombine", "mergeov", "gaplist", "gaps", "reverse", "revstrand", "resetstrand", "shift",
               "extabs", "extrel"):
        extra = {"resetstrand": " +", "shift": " 1", "extabs": " 1 1", "extrel": " 1 1"}.get(op, "")
        yield f"{op} {NOPAR} E{extra}"
    # constructor bounds against the parent sequence
    for s in range(0, 4):
        for e in range(0, 5):
            yield f"mk {enc_parent([('chrA', None, seq_of(3))])} S + {s} {e}"
            yield f"mk {enc_parent([('chrA', None, seq_of(3))])} C - 2 0 1 {s} {e}"
    # ---- 3. parent pool ------------------------------------------------------------------------
    n = 6
    pool = parent_pool(n)
    loc_pairs = [
        (("S", "+", [(0, 3)]), ("S", "+", [(2, 5)])),
        (("S", "+", [(0, 3)]), ("S", "-", [(2, 5)])),
        (("S", "+", [(0, 2)]), ("S", "+", [(3, 5)])),
        (("S", "+", [(1, 4)]), ("C", "+", [(0, 2), (3, 6)])),
        (("C", "+", [(0, 2), (3, 6)]), ("S", "+", [(1, 4)])),
        (("C", "+", [(0, 2), (3, 6)]), ("C", "+", [(1, 4), (5, 6)])),
        (("C", "-", [(0, 2), (3, 6)]), ("C", "-", [(1, 4), (5, 6)])),
        (("C", "+", [(0, 3), (1, 2)]), ("C", "+", [(2, 5)])),
        (("S", "+", [(0, 6)]), ("S", "+", [(2, 4)])),
        (("C", "+", [(0, 1), (4, 6)]), ("C", "+", [(2, 3)])),
        (("E", "+", []), ("S", "+", [(2, 4)])),
        (("S", "+", [(2, 4)]), ("E", "+", [])),
        (("C", "+", [(0, 1), (4, 6)]), ("E", "+", [])),
        (("E", "+", []), ("C", "+", [(0, 1), (4, 6)])),
    ]
    for (na, pa), (nb, pb) in itertools.product(pool.items(), repeat=2):
        for (la, lb) in loc_pairs:
            a = ploc(enc_parent(pa), *la)
            b = ploc(enc_parent(pb), *lb)
            run.count(f"parents:{na}|{nb}")
            for strict in "01":
                yield from binary_ops(a, b, ms_fs=[("0", "0"), ("1", "1")] if strict == "1" else FLAG3,
                                      dists=("inner", "starts") if strict == "0" else (), strict=strict)
    # equality / hash of identical blocks under every ordered pair of parents, and Single vs one-block Compound
    for (na, pa), (nb, pb) in itertools.product(pool.items(), repeat=2):
        for la, lb in [(("S", "+", [(1, 4)]), ("S", "+", [(1, 4)])), (("S", "+", [(1, 4)]), ("C", "+", [(1, 4)])),
                       (("C", "-", [(0, 2), (3, 6)]), ("C", "-", [(0, 2), (3, 6)])),
                       (("C", "-", [(0, 2), (3, 6)]), ("C", "+", [(0, 2), (3, 6)])),
                       (("C", "+", [(0, 2), (0, 3)]), ("C", "+", [(0, 3), (0, 2)]))]:
            yield f"eqhash {ploc(enc_parent(pa), *la)} {ploc(enc_parent(pb), *lb)}"
    # unary results keep the parent / respect its bounds
    for name, pa in pool.items():
        for l in [("S", "+", [(1, 4)]), ("C", "-", [(0, 2), (2, 3), (5, 6)]), ("C", "+", [(1, 1), (2, 4), (3, 6)])]:
            yield from unary_ops(enc_parent(pa), *l, n, run, True)
    run.exhaustive = True
    # ---- 4. random larger pairs ----------------------------------------------------------------
    nrand = 250 if quick else 6000
    for _ in range(nrand):
        scale = rng.choice([12, 30, 80, 300, 10 ** 6])
        ba = gen_loc.random_layout(rng, max_blocks=6, max_coord=scale, p_overlap=0.2)
        bb = gen_loc.random_layout(rng, max_blocks=6, max_coord=scale, p_overlap=0.2)
        if rng.random() < 0.5:
            # make the two operands interleave: shift b into a's range
            off = min(s for s, _ in ba) - min(s for s, _ in bb)
            d = off + rng.randint(-3, 3)
            if min(s for s, _ in bb) + d >= 0:
                bb = [(s + d, e + d) for s, e in bb]
        sa = rng.choice("+-.")
        sb = sa if rng.random() < 0.6 else rng.choice("+-.")
        ka = "S" if len(ba) == 1 and rng.random() < 0.5 else "C"
        kb = "S" if len(bb) == 1 and rng.random() < 0.5 else "C"
        hi = max(e for _, e in ba + bb)
        par = rng.choice([NOPAR, NOPAR, enc_parent([("chrA", None, None)])] +
                         ([enc_parent([("chrA", None, seq_of(hi + rng.randint(0, 3)))])] if hi < 400 else []))
        a = ploc(par, ka, sa, ba)
        b = ploc(par, kb, sb, bb)
        for tag in gen_loc.classify(ba):
            run.count("rand-a:" + tag)
        for tag in gen_loc.classify(bb):
            run.count("rand-b:" + tag)
        ms, fs = rng.choice("01"), rng.choice("01")
        yield from binary_ops(a, b, ms_fs=[(ms, fs)], dists=(rng.choice(["inner", "outer", "starts", "ends"]),))
        for l, k, s in ((ba, ka, sa), (bb, kb, sb)):
            x = ploc(par, k, s, l)
            for op in ("optimize", "optcombine", "mergeov", "gaplist", "gaps", "reverse"):
                yield f"{op} {x}"
            yield f"extabs {x} {rng.randint(0, 4)} {rng.randint(0, 4)}"
            yield f"extrel {x} {rng.randint(0, 4)} {rng.randint(0, 4)}"
            yield f"shift {x} {rng.randint(-3, 3)}"
    # ---- 5. operands with MANY blocks and an operand whose edges sit exactly on / next to block edges -------------
    # (bisection / index based fast paths start at some block count and go wrong at `start == other.end - 1`-like edges)
    nmany = 60 if quick else 1500
    for _ in range(nmany):
        k = rng.randint(8, 20)
        ba = gen_loc.random_layout(rng, max_blocks=k, max_coord=12 * k, p_overlap=0.0, p_empty=0.05)
        while len(ba) < 8:
            ba = gen_loc.random_layout(rng, max_blocks=k, max_coord=12 * k, p_overlap=0.0, p_empty=0.05)
        edges = sorted({max(0, v + d) for s_, e_ in ba for v in (s_, e_) for d in (-1, 0, 1)})
        sa = rng.choice("+-")
        par = NOPAR
        a = ploc(par, "C", sa, ba)
        run.count("many-blocks:%d+" % (len(ba) // 4 * 4))
        for _j in range(4):
            x, y = sorted(rng.sample(edges, 2))
            b = ploc(par, "S", sa if rng.random() < 0.8 else rng.choice("+-."), [(x, y)])
            yield from binary_ops(a, b, ms_fs=[(rng.choice("01"), "0")], dists=("inner",))
            yield from binary_ops(b, a, ms_fs=[(rng.choice("01"), "0")], dists=("inner",))
        # two many-block operands sharing edges
        bb = [(s_, e_) for (s_, e_) in ba if rng.random() < 0.6] or ba[:1]
        bb = [(s_ + rng.choice([0, 0, 1]), max(s_ + 1, e_ - rng.choice([0, 0, 1]))) for s_, e_ in bb]
        yield from binary_ops(a, ploc(par, "C" if len(bb) > 1 else "S", sa, bb), ms_fs=[("1", "0")], dists=("inner",))
