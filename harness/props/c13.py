"""C13 — variant haplotypes: alternative sequence and lift-over match the edit model."""
from harness.impl_variants import impl_var_op

WARM_TWINS = {"quick": 0.02, "thorough": 0.05}      # engine: call-history twins (harness/warm.py)
DECOY_TWINS = {"quick": 0.02, "thorough": 0.05}     # engine: decoy twins (harness/decoy.py)
ID = "C13"
LEAN_MODULE = "BioCantor.Props.C13"
EXTRA_LEAN_MODULES = ["BioCantor.Props.C13Ties"]   # regenerated compound lift loop + tail = Model.liftBlocks + assemble
DESIGN_REF = "4/C13"
DRIVER = "drivers/C13.lean"
SPEC_DRIVER = "drivers/SpecC13.lean"
DRIVER_MODULES = ["BioCantor.Driver.Main", "BioCantor.Driver.Variants"]
SPEC_DRIVER_MODULES = ["BioCantor.Driver.Main", "BioCantor.Driver.SpecVariants"]
GEN_NEEDS = ["VariantInterval"]
RULE = ("one case = one call (alternative sequence / lift_over_location / incorporate_variants / "
        "convert_vcf_records_to_model); non-trivial when the real library returned a value and the case has >= 2 "
        "variants, >= 2 blocks or a chunk parent (vcf: >= 2 records); distinct = distinct operation lines")
EXHAUSTIVE_NOTE = ""
TRUSTED = ["Model/Variants.lean is hand-written (the single-interval lift kernel inside it is the GENERATED "
           "definition, and its block loop + assembling tail are proved equal to the GENERATED compound lift, Props/C13Ties); tied to variants.py / feature.py / transcript.py / cds.py / vcf/parser.py by this run's "
           "correspondence",
           "harness/shims.py: marshmallow post_dump, stub `vcf` module (records are duck-typed objects)"]
ASSUMPTIONS = ["parents carry sequence: whole chromosome or plus-strand chunk containing every variant and block",
               "locations: non-empty ascending non-overlapping blocks, strands + and -",
               "the lift-over claim is checked where the property states it: every variant wholly inside one block "
               "or wholly outside all blocks, or every block wholly inside a deleted part; other layouts are "
               "compared model-vs-implementation only",
               "CDS frames after incorporation are not part of this property (C05); the CDS sequence compared is "
               "that of its location",
               "VCF records of one chromosome are contiguous (as in a sorted VCF)"]
def lean_line(line):
    """` @v`: the variant objects of a collection were used on another reference before (implementation side only)"""
    return line[:-3] if line.endswith(" @v") else line


MODEL_OPS = None
ERR_CLASS = False
BASES = "ACGT"


def impl(line):
    return impl_var_op(line)


def nontrivial(line, ans):
    if not ans.startswith("ok"):
        return None
    t = line.split()
    if t[0] == "vcf":
        return line if int(t[1]) >= 2 else None
    if t[0] == "hap":
        return line if int(t[3]) >= 2 else None
    if t[1].startswith("K") or t[3] == "N" and int(t[4]) >= 2:
        return line
    # blocks: find the strand token after the variants
    i = 4 if t[3] == "1" else 5
    nv = 1 if t[3] == "1" else int(t[4])
    i += 3 * nv
    if len(t) > i + 1 and t[i] in "+-" and int(t[i + 1]) >= 2:
        return line
    return None


def enc_vars(vs, coll):
    body = " ".join(f"{s} {e} {a or '.'}" for s, e, a in vs)
    return f"N {len(vs)} {body}" if coll else f"1 {body}"


def enc_blocks(bl):
    return f"{len(bl)}" + "".join(f" {s} {e}" for s, e in bl)


def layouts(k, lo, hi):
    """all k-block layouts s1<e1<=s2<e2... within [lo, hi]"""
    if k == 0:
        yield []
        return
    for s in range(lo, hi):
        for e in range(s + 1, hi + 1):
            for rest in layouts(k - 1, e, hi):
                yield [(s, e)] + rest


def rand_ref(rng, n):
    """reference / allele letters; a quarter of the texts is soft-masked (a lower-case stretch, or all lower case): the
    edit model substitutes alleles literally, case included"""
    t = "".join(rng.choice(BASES) for _ in range(n))
    r = rng.random()
    if n and r < 0.12:
        return t.lower()
    if n and r < 0.25:
        a = rng.randrange(0, n)
        b = rng.randint(a, n)
        return t[:a] + t[a:b].lower() + t[b:]
    return t


def rand_variant(rng, ref, lo, hi):
    """one variant inside ref[lo:hi] (coordinates of ref); returns (s, e, alt)"""
    kind = rng.choice(["snv", "mnv", "ins_pad", "ins", "del_pad", "del", "delins"])
    n = hi - lo
    if kind == "snv" or n < 2:
        s = rng.randrange(lo, hi)
        return s, s + 1, rng.choice([b for b in BASES + BASES.lower() if b != ref[s]])
    if kind == "mnv":
        ln = rng.randint(2, min(3, n))
        s = rng.randint(lo, hi - ln)
        return s, s + ln, rand_ref(rng, ln)
    if kind == "ins_pad":
        s = rng.randrange(lo, hi)
        return s, s + 1, ref[s] + rand_ref(rng, rng.randint(1, 4))
    if kind == "ins":
        s = rng.randrange(lo, hi)
        return s, s + 1, rand_ref(rng, rng.randint(2, 4))
    if kind == "del_pad":
        ln = rng.randint(2, min(5, n))
        s = rng.randint(lo, hi - ln)
        return s, s + ln, ref[s]
    if kind == "del":
        ln = rng.randint(1, min(4, n))
        s = rng.randint(lo, hi - ln)
        return s, s + ln, ""
    ln = rng.randint(2, min(4, n))
    s = rng.randint(lo, hi - ln)
    return s, s + ln, rand_ref(rng, rng.randint(1, 5))


def rand_layout(rng, n, kmax=4):
    k = rng.randint(1, min(kmax, max(1, n // 3)))
    pts = sorted(rng.sample(range(0, n + 1), 2 * k)) if n + 1 >= 2 * k else [0, n]
    bl = [(pts[2 * i], pts[2 * i + 1]) for i in range(len(pts) // 2)]
    if rng.random() < 0.2 and len(bl) > 1:   # some 0-bp gaps
        j = rng.randrange(1, len(bl))
        bl[j] = (bl[j - 1][1], bl[j][1])
    return bl


def rand_variants(rng, ref, blocks, nv):
    """nv non-overlapping variants; biased towards the property's domain (inside a block / outside all)"""
    n = len(ref)
    out = []
    for _ in range(nv * 6):
        if len(out) == nv:
            break
        mode = rng.random()
        if mode < 0.45 and blocks:
            b = rng.choice(blocks)
            v = rand_variant(rng, ref, b[0], b[1])
        elif mode < 0.75:
            gaps = []
            prev = 0
            for s, e in blocks:
                if s > prev:
                    gaps.append((prev, s))
                prev = e
            if prev < n:
                gaps.append((prev, n))
            if not gaps:
                continue
            g = rng.choice(gaps)
            v = rand_variant(rng, ref, g[0], g[1])
        else:
            v = rand_variant(rng, ref, 0, n)
        if all(v[1] <= w[0] or w[1] <= v[0] for w in out):
            out.append(v)
    if not out:
        out.append(rand_variant(rng, ref, 0, n))
    rng.shuffle(out)
    return out


def sub_cds(rng, blocks):
    lo, hi = blocks[0][0], blocks[-1][1]
    a = rng.randint(lo, hi - 1)
    b = rng.randint(a + 1, hi)
    return [(max(s, a), min(e, b)) for s, e in blocks if max(s, a) < min(e, b)]


def shift(vs, off):
    return [(s + off, e + off, a) for s, e, a in vs]


def shiftb(bl, off):
    return [(s + off, e + off) for s, e in bl]


def ops_for(rng, ptok, off, ref, vs, coll, st, bl, which):
    pv = f"{ptok} {ref} {enc_vars(shift(vs, off), coll)}"
    loc = f"{st} {enc_blocks(shiftb(bl, off))}"
    if "altseq" in which:
        yield f"altseq {pv}"
    if "lift" in which:
        yield f"lift {pv} {loc}"
    if "incF" in which:
        yield f"incF {pv} {loc}"
    if "incC" in which:
        yield f"incC {pv} {loc} {rng.choice([0, 1, 2])}"
    if "incT" in which:
        cds = sub_cds(rng, bl) if rng.random() < 0.75 else []
        yield f"incT {pv} {loc} {enc_blocks(shiftb(cds, off))} {rng.choice([0, 1, 2])}"


def cases(run):
    """`_cases`, plus ` @v` twins of lines whose variants form a collection (token `N <n>` after the reference)"""
    for ln in _cases(run):
        yield ln
        t = ln.split(" ", 5)
        if len(t) > 4 and t[0] in ("lift", "altseq", "incF", "incC", "incT") and t[3] == "N" and run.rng.random() < 0.2:
            run.count("prior-use-twin")
            yield ln + " @v"


def _cases(run):
    global EXHAUSTIVE_NOTE
    rng = run.rng
    quick = run.tier == "quick"
    # regression / known findings (DESIGN section 5)
    ref0 = "GCTTCCAAGGTTACGTACGTTTGACC"
    yield f"lift W {ref0} N 2 2 6 CA 13 15 AGG + 1 15 24"          # F-C13a
    yield f"incF W {ref0} N 2 2 6 CA 13 15 AGG + 1 15 24"
    yield f"lift W {ref0} 1 2 6 . + 1 3 5"                          # former F-C13b (repaired: EmptyLocation)
    yield f"lift K:100 {ref0} 1 102 106 C - 1 104 106"              # former F-C13b, padded, chunk
    yield "vcf 2 chr1 5 6 1 none 1 A SNV chr1 9 12 1 none 1 A deletion"   # former F-C13c (repaired: unphased)
    # exhaustive small scope: one variant x every 1..2-block layout
    n = 7 if quick else 9
    ref = "GATCACGTA"[:n]
    alts = ["", "T", "GG", "CAT"]
    EXHAUSTIVE_NOTE = (f"reference {ref}: every single variant [s,e) with 1 <= e-s <= 3 x alt in {alts} x every layout of "
                       f"1..2 non-empty ascending non-overlapping blocks x strands + - x whole chromosome / chunk at 3, "
                       "ops altseq, lift (incF on a sample); every pair of such variants that do not overlap on a "
                       "sample of layouts")
    singles = [(s, e, a) for s in range(n) for e in range(s + 1, min(n, s + 3) + 1) for a in alts]
    lays = [l for k in (1, 2) for l in layouts(k, 0, n)]
    for v in singles:
        for ptok, off in (("W", 0), ("K:3", 3)):
            yield f"altseq {ptok} {ref} {enc_vars(shift([v], off), False)}"
            yield f"altseq {ptok} {ref} {enc_vars(shift([v], off), True)}"
    for v in singles:
        for bl in lays:
            if quick and len(bl) == 2 and rng.random() < 0.5:
                continue
            for st in "+-":
                ptok, off = rng.choice([("W", 0), ("K:3", 3)])
                coll = rng.random() < 0.3
                run.count("exh:lift")
                yield f"lift {ptok} {ref} {enc_vars(shift([v], off), coll)} {st} {enc_blocks(shiftb(bl, off))}"
                if rng.random() < 0.15:
                    run.count("exh:incF")
                    yield f"incF {ptok} {ref} {enc_vars(shift([v], off), coll)} {st} {enc_blocks(shiftb(bl, off))}"
    pairs = [(v, w) for v in singles for w in singles if v[1] <= w[0]]
    for v, w in (rng.sample(pairs, min(len(pairs), 1500 if quick else 12000))):
        ptok, off = rng.choice([("W", 0), ("K:3", 3)])
        yield f"altseq {ptok} {ref} {enc_vars(shift([w, v], off), True)}"
        bl = rng.choice(lays)
        run.count("exh:pair-lift")
        yield f"lift {ptok} {ref} {enc_vars(shift([v, w], off), True)} {rng.choice('+-')} {enc_blocks(shiftb(bl, off))}"
    run.exhaustive = True
    # random: longer references, 1..3 variants, up to 4 blocks
    m = 5000 if quick else 40000
    for _ in range(m):
        ln = rng.randint(5, 40)
        ref = rand_ref(rng, ln)
        bl = rand_layout(rng, ln)
        nv = rng.choice([1, 1, 2, 2, 3])
        vs = rand_variants(rng, ref, bl, nv)
        coll = len(vs) > 1 or rng.random() < 0.4
        st = rng.choice("+-")
        ptok, off = ("W", 0) if rng.random() < 0.5 else (None, rng.choice([1, 7, 100, 12345]))
        if ptok is None:
            ptok = f"K:{off}"
        which = rng.choice([("altseq", "lift"), ("lift", "incF"), ("incT",), ("incC", "lift"), ("altseq", "incT")])
        run.count(f"rand:variants:{len(vs)}")
        run.count(f"rand:blocks:{len(bl)}")
        run.count(f"rand:parent:{ptok[0]}")
        for op in which:
            run.count(f"rand:op:{op}")
        yield from ops_for(rng, ptok, off, ref, vs, coll, st, bl, which)
    # overlapping / degenerate variants (constructor refusals)
    for _ in range(40 if quick else 400):
        ref = rand_ref(rng, 12)
        s = rng.randint(0, 8)
        yield f"altseq W {ref} N 2 {s} {s + 3} A {s + 1} {s + 2} C"
        yield f"altseq W {ref} 1 {s} {s} A"
        yield f"altseq W {ref} 1 {s + 2} {s} A"
        yield f"altseq W {ref} 1 10 14 A"
    # VCF grouping
    for _ in range(800 if quick else 6000):
        nrec = rng.randint(1, 6)
        chroms = sorted(rng.choice(["chr1", "chr2", "II"]) for _ in range(nrec))
        if rng.random() < 0.1:
            rng.shuffle(chroms)
        fmt_has_ps = rng.random() < 0.7
        recs = []
        pos = 0
        for c in chroms:
            pos += rng.randint(1, 9)
            ln = rng.choice([0, 1, 1, 2, 3])
            ps = "."
            if fmt_has_ps:
                ps = str(rng.choice([0, 0, 1, 1, 2, 5, 17]))
                if rng.random() < 0.04:
                    ps = "none"
            nalt = rng.choice([1, 1, 1, 2, 3])
            alts = " ".join(f"{rand_ref(rng, rng.randint(0, 3)) or '.'} {rng.choice(['SNV', 'insertion', 'deletion'])}"
                            for _ in range(nalt))
            recs.append(f"{c} {pos} {pos + ln} {rng.choice([1, 1, 2])} {ps} {nalt} {alts}")
        run.count(f"vcf:records:{nrec}")
        yield f"vcf {nrec} " + " ".join(recs)
    # PS = 0 is a valid phase set id: >= 2 records of one chromosome phased with 0, mixed with positive / missing /
    # absent PS (guaranteed share of the VCF lines)
    for _ in range(120 if quick else 2500):
        nrec = rng.randint(3, 7)
        chroms = sorted(rng.choice(["chr1", "chr2"]) for _ in range(nrec))
        zero_chrom = rng.choice(chroms)
        cand = [i for i, c in enumerate(chroms) if c == zero_chrom]
        if len(cand) < 2:
            chroms = [zero_chrom] * nrec
            cand = list(range(nrec))
        zeros = set(rng.sample(cand, rng.randint(2, len(cand))))
        recs, pos = [], 0
        for i, c in enumerate(chroms):
            pos += rng.randint(1, 9)
            ln = rng.choice([0, 1, 1, 2])
            ps = "0" if i in zeros else rng.choice(["3", "3", "12", "none", "none"])
            nalt = rng.choice([1, 1, 2])
            alts = " ".join(f"{rand_ref(rng, rng.randint(0, 3)) or '.'} {rng.choice(['SNV', 'insertion', 'deletion'])}"
                            for _ in range(nalt))
            recs.append(f"{c} {pos} {pos + ln} 1 {ps} {nalt} {alts}")
        run.count("vcf:ps0-lines")
        yield f"vcf {nrec} " + " ".join(recs)
    # the same without a PS field on some lines is impossible in one VCF (FORMAT is per file in practice), but absent
    # PS mixed with PS = 0 is what a reader yields for records lacking the key: cover it too
    for _ in range(40 if quick else 800):
        pos, recs = 0, []
        n = rng.randint(3, 6)
        for i in range(n):
            pos += rng.randint(1, 9)
            ps = "0" if i in (0, n - 1) else rng.choice([".", "0", "7"])
            recs.append(f"chr1 {pos} {pos + 1} 1 {ps} 1 {rng.choice(BASES)} SNV")
        yield f"vcf {n} " + " ".join(recs)
    # alternative_haplotype_mapping: 2..4 haplotypes x 1..4 members (genes of non-coding transcripts / feature
    # collections), whole chromosome and chunk parents
    yield ("hap W ACGTTGCAAGGCTTACGATCGGATCCTAGCATGCAAGTCGGTACCATTGACGTAGCTAGGCTAACGTTAGC "
           "4 2 4 5 T 14 15 GAA 1 33 36 . 2 24 25 C 31 33 G 1 55 57 A "
           "4 G 2 + 2 2 9 12 20 + 1 2 20 G 1 - 2 30 38 42 50 G 1 + 1 62 68 F 1 - 1 22 28")
    for _ in range(500 if quick else 12000):
        ln = rng.randint(24, 60)
        ref = rand_ref(rng, ln)
        ptok, off = ("W", 0) if rng.random() < 0.5 else (None, rng.choice([3, 100, 12345]))
        if ptok is None:
            ptok = f"K:{off}"
        # members: disjoint regions of the reference, each with 1..2 leaves inside its region
        nm = rng.randint(1, 4)
        cuts = sorted(rng.sample(range(2, ln - 1), nm - 1)) if nm > 1 else []
        regions = [(a, b) for a, b in zip([0] + cuts, cuts + [ln]) if b - a >= 4]
        members = []
        for (a, b) in regions:
            kind = rng.choice("GGF")
            st = rng.choice("+-")
            leaves = []
            for _l in range(rng.choice([1, 1, 2])):
                k = rng.randint(1, min(3, (b - a) // 2))
                pts = sorted(rng.sample(range(a, b + 1), 2 * k))
                bl = [(pts[2 * i], pts[2 * i + 1]) for i in range(k)]
                if bl not in [x[1] for x in leaves]:
                    leaves.append((st, bl))
            members.append((kind, leaves))
        if not members:
            continue
        allblocks = [b for _, ls in members for _, bl in ls for b in bl]
        # haplotypes: distinct variant sets; most have transparent shape (<= 1 length-changing variant, the last one)
        nh = rng.randint(2, 4)
        haps = []
        for _h in range(nh):
            nv = rng.choice([1, 1, 2, 3])
            vs = rand_variants(rng, ref, allblocks, nv)
            vs.sort()
            if rng.random() < 0.7:   # keep only the right-most length change
                vs = [(s, e, a if i == len(vs) - 1 or len(a) == e - s else ref[s:e][::-1]) for i, (s, e, a) in enumerate(vs)]
            haps.append(vs)
        run.count(f"hap:haplotypes:{nh}")
        run.count(f"hap:members:{len(members)}")
        run.count(f"hap:parent:{ptok[0]}")
        hs = " ".join(f"{len(vs)} " + " ".join(f"{s + off} {e + off} {a or '.'}" for s, e, a in vs) for vs in haps)
        ms = " ".join(f"{kind} {len(ls)} " + " ".join(f"{st} {enc_blocks(shiftb(bl, off))}" for st, bl in ls)
                      for kind, ls in members)
        yield f"hap {ptok} {ref} {nh} {hs} {len(members)} {ms}"
