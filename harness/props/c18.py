"""C18 — identifier/qualifier extraction is order-independent and priority-respecting."""
import itertools

from harness.impl_qualifiers import impl_qual_op, enc, enc_dict, enc_list

ID = "C18"
LEAN_MODULE = "BioCantor.Props.C18"
DESIGN_REF = "4/C18"
DRIVER = "drivers/C18.lean"
SPEC_DRIVER = "drivers/SpecC18.lean"
DRIVER_MODULES = ["BioCantor.Driver.Main", "BioCantor.Driver.Qualifiers"]
SPEC_DRIVER_MODULES = ["BioCantor.Driver.Main", "BioCantor.Driver.SpecQualifiers"]
GEN_NEEDS = ["featureNameQualifiers", "featureIdQualifiers", "FeatureInterval",
             "features_FEATURE_INTERVAL_NAME_QUALIFIERS", "features_FEATURE_INTERVAL_ID_QUALIFIERS",
             "features_FEATURE_TYPE_IDENTIFIERS", "gff3_BioCantorQualifiers", "gff3_BioCantorGFF3ReservedQualifiers",
             "genbank_GENBANK_GENE_FEATURES", "genbank_GeneFeatures", "genbank_TranscriptFeatures",
             "genbank_GeneIntervalFeatures", "genbank_KnownQualifiers"]
MODEL_OPS = {"extract", "types", "merge", "fsq", "ltgroup", "gbiotype", "xq"}      # gbperm: spec + real parser only
RULE = ("extract: every subset of size <= K of the 9 recognised keys + the look-alikes genes/xname/ID2/Gene/NAME "
        "(K=4 quick, 5 thorough) in EVERY ordering, pairwise distinct values; the /note grid; newline look-alikes; "
        "random larger dicts with random letter case and multi-valued keys. types/merge/fsq: exhaustive small key "
        "universes x orderings, then random. xq: export_qualifiers(parent_qualifiers) of feature / transcript / CDS "
        "intervals over all own x parent dictionaries of a 2-key universe x identifier attributes. ltgroup: every sequence of <= N features over tags {a,b,ab} x kinds "
        "gene/transcript/CDS/other (every permutation of every record is itself in the scope; a tag with only "
        "other-kind features yields no group), then random longer "
        "records. gbiotype: every sequence of <= 3 (4) transcript feature types on one locus through the real parser. "
        "gbperm: full LocusTagGenBankParser.parse() of a record against every/random permutations. "
        "non-trivial = >= 2 recognised keys (extract), >= 1 type-like key (types), a shared key (merge), a kept and a "
        "dropped key (fsq), >= 2 features sharing a tag (ltgroup/gbperm); distinct = distinct operation lines")
EXHAUSTIVE_NOTE = ""
TRUSTED = ["Model/Qualifiers.lean is hand-written; tied to io/features/__init__.py, gff3/parser.py, genbank/parser.py "
           "by this run's correspondence",
           "every constant of the model is a Gen table regenerated from /repo on every run (priority enums, regex key "
           "sets, FEATURE_TYPE_IDENTIFIERS, BioCantorQualifiers / BioCantorGFF3ReservedQualifiers, GenBank feature "
           "enums); Props.C18.gen_tables_match_documented_order / type_identifiers_tie / reserved_terms_tie / "
           "genbank_kinds_tie fail to compile if one of them changes against the documented values",
           "harness/shims.py (marshmallow / Biopython / vcf drift) for the GFF3 and GenBank parser imports",
           "Bio.SeqFeature / SeqRecord objects are built in memory (no GenBank text is read in this check)"]
ASSUMPTIONS = ["qualifier keys and values are ASCII (str.upper/lower and re.IGNORECASE are modelled on ASCII)",
               "a qualifier dictionary is a Python dict: keys pairwise distinct, iteration in insertion order",
               "locus_tag qualifiers hold exactly one value"]

NAME_KEYS = ["feature_name", "standard_name", "name", "gene", "gene_name", "label", "operon"]
ID_KEYS = ["feature_id", "id"]
LOOKALIKES = ["genes", "xname", "ID2", "Gene", "NAME"]
RECOGNISED = {k.lower() for k in NAME_KEYS + ID_KEYS}


def impl(line):
    return impl_qual_op(line)


def _dec_keys(t, i):
    """keys of the dict starting at token index i; returns (keys, next index)"""
    from harness.impl_qualifiers import dec
    n = int(t[i])
    i += 1
    keys = []
    for _ in range(n):
        keys.append(dec(t[i]))
        m = int(t[i + 1])
        i += 2 + m
    return keys, i


def nontrivial(line, ans):
    t = line.split()
    op = t[0]
    if not ans.startswith("ok"):
        return None
    if op == "extract":
        keys, _ = _dec_keys(t, 1)
        return line if sum(1 for k in keys if k.lower() in RECOGNISED) >= 2 else None
    if op == "types":
        i = 2 + int(t[1])
        keys, _ = _dec_keys(t, i)
        return line if any(("_class" in k.lower() or "gbkey" in k.lower() or "_type" in k.lower()) for k in keys) else None
    if op == "merge":
        a, i = _dec_keys(t, 1)
        b, _ = _dec_keys(t, i)
        return line if set(a) & set(b) else None
    if op == "fsq":
        keys, _ = _dec_keys(t, 1)
        return line if ans != "ok None" and len(ans.split()) > 2 and int(ans.split()[1]) < len(keys) else None
    if op == "ltgroup":
        n = int(t[1])
        tags = [t[2 + 3 * j] for j in range(n)]
        return line if len(set(tags)) < len(tags) else None
    if op == "gbiotype":
        return line if int(t[1]) >= 2 else None
    if op == "xq":
        own, i = _dec_keys(t, 2)
        if t[i] == "N":
            return None
        par, _ = _dec_keys(t, i + 1)
        return line if set(own) & set(par) else None
    if op == "gbperm":
        n = int(t[1])
        tags = [t[2 + 4 * j] for j in range(n)]
        return line if len(set(tags)) < len(tags) else None
    return None


def extract_line(items):
    return "extract " + enc_dict(items)


def _extract_exhaustive(run, kmax):
    universe = NAME_KEYS + ID_KEYS + LOOKALIKES
    for k in range(0, kmax + 1):
        for subset in itertools.combinations(range(len(universe)), k):
            for order in itertools.permutations(subset):
                run.count(f"extract:size{k}")
                yield extract_line([(universe[i], [f"v{i}"]) for i in order])


NOTE_VALUES = ["word", "two words", "  (foo), bar", "\tx\ty", "...", "", "   ", "a.b", "'q'", "x\nrest", "-lead trail-"]


def _note_grid(run):
    for nv in NOTE_VALUES:
        for extra in ([], [("genes", ["g"])], [("gene", ["G"])], [("id", ["I"])], [("Note", ["N"])],
                      [("gene", ["G"]), ("id", ["I"])], [("xname", ["x"]), ("ID2", ["y"])]):
            for pos in range(len(extra) + 1):
                items = list(extra)
                items.insert(pos, ("note", [nv, "second"]))
                run.count("extract:note")
                yield extract_line(items)
    yield extract_line([("note", [])])
    yield extract_line([("note", []), ("genes", ["x"])])
    yield extract_line([("NOTE", ["abc"])])
    yield extract_line([("notes", ["abc"])])
    yield extract_line([])


def _newline_lookalikes(run):
    """keys that differ from a recognised key by a trailing / leading newline or blank (F-C18b)"""
    for base in ("gene", "id", "feature_name", "ID"):
        for k in (base + "\n", base + "\n\n", "\n" + base, base + " ", base + "\t", base + "\r\n"):
            for others in ([], [("label", ["L"])], [("feature_id", ["F"])]):
                for pos in range(len(others) + 1):
                    items = list(others)
                    items.insert(pos, (k, ["nl"]))
                    run.count("extract:ws-lookalike")
                    yield extract_line(items)


def _rand_case(rng, k):
    return "".join(c.upper() if rng.random() < 0.5 else c.lower() for c in k)


def _extract_random(run, n):
    rng = run.rng
    universe = NAME_KEYS + ID_KEYS + LOOKALIKES + ["note", "product", "gbkey", "locus_tag", "db_xref", "gene_", "_id"]
    for _ in range(n):
        m = rng.randint(3, 12)
        keys = []
        for _ in range(m):
            k = rng.choice(universe)
            if rng.random() < 0.4:
                k = _rand_case(rng, k)
            if k not in keys:
                keys.append(k)
        items = []
        for j, k in enumerate(keys):
            nv = rng.choice([1, 1, 1, 2, 3])
            items.append((k, [rng.choice(["v", "w", "a b", "(x)", "Z"]) + str(j) + "_" + str(q) for q in range(nv)]))
        if rng.random() < 0.03:
            # an empty value list (outside the property's domain; checks the model's IndexError path)
            j = rng.randrange(len(items))
            items[j] = (items[j][0], [])
            run.count("extract:empty-values")
        run.count("extract:random")
        yield extract_line(items)


TYPE_KEYS = ["gbkey", "GBKEY", "my_class", "x_typed", "type", "classy", "gb_key", "_TYPE", "feature_type", "note",
             "x_typo", "gbke", "my_clas"]          # near misses: one character short of an identifier


def _types_cases(run, kmax, nrand):
    vals = {k: [f"t{i}", f"t{(i + 1) % 4}"] for i, k in enumerate(TYPE_KEYS)}
    vals.update({"x_typo": ["n1"], "gbke": ["n2"], "my_clas": ["n3"]})
    for k in range(0, kmax + 1):
        for subset in itertools.combinations(TYPE_KEYS, k):
            for order in itertools.permutations(subset):
                for init in ([], ["gene"], ["t1", "zz"]):
                    run.count("types:exhaustive")
                    yield "types " + enc_list(init) + " " + enc_dict([(q, vals[q]) for q in order])
    rng = run.rng
    for _ in range(nrand):
        keys = rng.sample(TYPE_KEYS, rng.randint(1, 7))
        keys = [_rand_case(rng, k) if rng.random() < 0.3 else k for k in keys]
        keys = list(dict.fromkeys(keys))
        items = [(k, [rng.choice("abcdeAB") * rng.randint(0, 2) + rng.choice("xyz") for _ in range(rng.randint(0, 3))])
                 for k in keys]
        init = [rng.choice("abcxyz") for _ in range(rng.randint(0, 2))]
        run.count("types:random")
        yield "types " + enc_list(init) + " " + enc_dict(items)


def _small_dicts(keys, vals, maxk, maxv):
    """all dicts over `keys` (ordered selections of <= maxk keys) with value lists drawn from `vals` (<= maxv long)"""
    vlists = [list(p) for n in range(0, maxv + 1) for p in itertools.product(vals, repeat=n)]
    for k in range(0, maxk + 1):
        for ks in itertools.permutations(keys, k):
            for vs in itertools.product(vlists, repeat=k):
                yield list(zip(ks, vs))


def _merge_cases(run, thorough, nrand):
    ds = list(_small_dicts(["a", "b"], ["y", "x"], 2, 2))
    if not thorough:
        ds = ds[::2] + [d for d in ds if len(d) == 2][:40]
    for a in ds:
        for b in ds:
            run.count("merge:exhaustive")
            yield "merge " + enc_dict(a) + " " + enc_dict(b)
    rng = run.rng
    for _ in range(nrand):
        def rd():
            ks = rng.sample(["k1", "k2", "K1", "note", "gene", "a b", ""], rng.randint(0, 5))
            return [(k, [rng.choice(["b", "a", "B", "aa", "", "10", "9", "a b"]) for _ in range(rng.randint(0, 4))]) for k in ks]
        a, b = rd(), rd()
        run.count("merge:random")
        yield "merge " + enc_dict(a) + " " + enc_dict(b)
        yield "merge " + enc_dict(b) + " " + enc_dict(a)
        yield "merge " + enc_dict(a) + " " + enc_dict(a)


FSQ_KEYS = ["ID", "id", "Id", "Name", "name", "NAME", "Parent", "gene_id", "gene_name", "locus_tag", "product",
            "transcript_biotype", "feature_colletion_type",            # reserved (and case variants)
            "identity", "names", "IDx", "gene_ids", "product_note", "parental",   # a reserved term is a strict prefix
            "xID", "my_name", "note", "db_xref", "gene", "Gene_id", "pid"]        # unrelated / reserved term inside


def _fsq_cases(run, nrand):
    for k in FSQ_KEYS:
        for other in ([], [("note", ["b", "a", "b"])], [("zeta", ["2", "10"]), ("alpha", [])]):
            if k in [o[0] for o in other]:
                continue
            for pos in range(len(other) + 1):
                items = list(other)
                items.insert(pos, (k, ["v2", "v1"]))
                run.count("fsq:grid")
                yield "fsq " + enc_dict(items)
    yield "fsq " + enc_dict([])
    rng = run.rng
    for _ in range(nrand):
        ks = rng.sample(FSQ_KEYS, rng.randint(1, 6))
        items = [(k, [rng.choice(["b", "a", "B", "aa", "", "10", "9"]) for _ in range(rng.randint(0, 4))]) for k in ks]
        run.count("fsq:random")
        yield "fsq " + enc_dict(items)


def ltgroup_line(feats):
    return "ltgroup " + " ".join([str(len(feats))] + [f"{enc(tag)} {kind} {uid}" for tag, kind, uid in feats])


def _ltgroup_cases(run, scopes, nrand):
    for tags, kinds, nmax in scopes:
        opts = [(t, k) for t in tags for k in kinds]
        for n in range(0, nmax + 1):
            for seq in itertools.product(opts, repeat=n):
                run.count(f"ltgroup:len{n}")
                yield ltgroup_line([(t, k, i) for i, (t, k) in enumerate(seq)])
    rng = run.rng
    for _ in range(nrand):
        n = rng.randint(5, 9)
        tags = rng.choice([["a", "b"], ["t1", "t10", "t2", "T1"], ["x"], ["a", "ab", "b", "B", "a_"]])
        feats = [(rng.choice(tags), rng.choice("gtttccco"), i) for i in range(n)]
        run.count("ltgroup:random")
        yield ltgroup_line(feats)
        perm = feats[:]
        rng.shuffle(perm)
        yield ltgroup_line(perm)


GB_XQ_ATTRS = {
    "f": [[None, None], ["fname", None], ["fname", "fid"], ["", "fid"]],
    "t": [[None, None, None, None], ["tid", None, None, None], ["tid", "sym", "protein_coding", "pid"],
          [None, "sym", "tRNA", ""]],
    "c": [[None, None], ["pid", None], ["pid", "prod"], [None, "v1"]],
}


def xq_line(kind, own, parent, attrs):
    from harness.impl_qualifiers import enc_opt
    par = "N" if parent is None else "P " + enc_dict(parent)
    return f"xq {kind} {enc_dict(own)} {par} {len(attrs)} " + " ".join(enc_opt(a) for a in attrs)


def _xq_cases(run, thorough, nrand):
    """interval-level merge: own x parent dictionaries over a small universe (shared keys with different value sets,
    disjoint keys, empty sides, parent None / {}), x the identifier attributes of each class; keys include the
    identifier keys themselves (an own `protein_id` qualifier next to the protein_id attribute)"""
    vsets = [None, ["a"], ["b"], ["b", "a"], ["b", "c"]]
    keys = ["note", "db_xref"]
    dicts = [[(k, v) for k, v in zip(keys, combo) if v is not None] for combo in itertools.product(vsets, repeat=2)]
    dicts += [[("db_xref", ["x"]), ("note", ["a"])], [("protein_id", ["v1", "pid"])], [("note", [])]]
    for kind in "ftc":
        attr_sets = XQ_ATTRS[kind] if thorough else XQ_ATTRS[kind][::2] + XQ_ATTRS[kind][3:]
        for own in dicts:
            for parent in [None] + dicts:
                for attrs in (attr_sets if (thorough or len(own) + len(parent or []) <= 2) else attr_sets[1:2]):
                    run.count("xq:grid")
                    yield xq_line(kind, own, parent, attrs)
    rng = run.rng
    universe = ["note", "db_xref", "gene", "protein_id", "product", "transcript_id", "feature_name", "Note", "a b"]
    for _ in range(nrand):
        def rd():
            ks = rng.sample(universe, rng.randint(0, 5))
            return [(k, [rng.choice(["b", "a", "B", "aa", "10", "9", "pid", "x y"]) for _ in range(rng.randint(0, 3))])
                    for k in ks]
        kind = rng.choice("ftc")
        attrs = [rng.choice([None, "", "pid", "zz"]) for _ in XQ_ATTRS[kind][0]]
        if kind == "t":
            attrs[2] = rng.choice([None, "protein_coding", "ncRNA"])
        run.count("xq:random")
        yield xq_line(kind, rd(), rng.choice([None, rd(), rd()]), attrs)


TX_TYPES = ["mRNA", "tRNA", "ncRNA"]


def _gb_records(rng, n_tags, complete=True):
    """well-formed gene/transcript/CDS layouts: gene spans its children, a CDS lies inside its mRNA"""
    feats = []
    for j in range(n_tags):
        tag = f"L{j}" if rng.random() < 0.8 else f"L{j}x"
        base = 100 * j + 10
        shape = rng.choice(["g+m+c", "g+m", "g+c", "g+nc", "g+2nc", "g+2c", "g+m+2c", "g", "g+nc+nc2"]
                           + ([] if complete else ["m+c", "c", "2m+2c"]))
        if "g" in shape.split("+")[0]:
            feats.append((tag, "gene", base, base + 80))
        if shape in ("g+m+c", "m+c"):
            feats += [(tag, "mRNA", base + 5, base + 70), (tag, "CDS", base + 8, base + 68)]
        elif shape == "g+m":
            feats += [(tag, "mRNA", base + 5, base + 70)]
        elif shape in ("g+c", "c"):
            feats += [(tag, "CDS", base + 8, base + 68)]
        elif shape == "g+nc":
            feats += [(tag, rng.choice(["tRNA", "ncRNA", "rRNA"]), base + 5, base + 70)]
        elif shape == "g+2nc":
            ty = rng.choice(["tRNA", "ncRNA"])
            feats += [(tag, ty, base + 5, base + 40), (tag, ty, base + 45, base + 70)]
        elif shape == "g+nc+nc2":
            feats += [(tag, "tRNA", base + 5, base + 40), (tag, "ncRNA", base + 45, base + 70)]
        elif shape == "g+2c":
            feats += [(tag, "CDS", base + 8, base + 38), (tag, "CDS", base + 41, base + 71)]
        elif shape == "g+m+2c":
            feats += [(tag, "mRNA", base + 5, base + 75), (tag, "CDS", base + 8, base + 38), (tag, "CDS", base + 41, base + 71)]
        elif shape == "2m+2c":
            feats += [(tag, "mRNA", base + 5, base + 40), (tag, "mRNA", base + 42, base + 75),
                      (tag, "CDS", base + 8, base + 38), (tag, "CDS", base + 44, base + 71)]
    return feats


def gbperm_line(feats, perm):
    return "gbperm " + " ".join([str(len(feats))] + [f"{enc(t)} {ty} {s} {e}" for t, ty, s, e in feats]
                                + [str(i) for i in perm])


def _gbperm_cases(run, nrec, nperm):
    rng = run.rng
    for r in range(nrec):
        feats = _gb_records(rng, rng.randint(1, 3), complete=(r % 5 != 4))
        if not feats:
            continue
        n = len(feats)
        if n <= 4:
            perms = list(itertools.permutations(range(n)))
        else:
            perms = []
            for _ in range(nperm):
                p = list(range(n))
                rng.shuffle(p)
                perms.append(tuple(p))
            perms.append(tuple(reversed(range(n))))
        for p in perms:
            run.count("gbperm")
            yield gbperm_line(feats, p)


XQ_ATTRS = {
    "f": [[None, None], ["fname", None], ["fname", "fid"], ["", "fid"]],
    "t": [[None, None, None, None], ["tid", None, None, None], ["tid", "sym", "protein_coding", "pid"],
          [None, "sym", "tRNA", ""]],
    "c": [[None, None], ["pid", None], ["pid", "prod"], [None, "v1"]],
}


def xq_line(kind, own, parent, attrs):
    from harness.impl_qualifiers import enc_opt
    par = "N" if parent is None else "P " + enc_dict(parent)
    return f"xq {kind} {enc_dict(own)} {par} {len(attrs)} " + " ".join(enc_opt(a) for a in attrs)


def _xq_cases(run, thorough, nrand):
    """interval-level merge: own x parent dictionaries over a small universe (shared keys with different value sets,
    disjoint keys, empty sides, parent None / {}), x the identifier attributes of each class; keys include the
    identifier keys themselves (an own `protein_id` qualifier next to the protein_id attribute)"""
    vsets = [None, ["a"], ["b"], ["b", "a"], ["b", "c"]]
    keys = ["note", "db_xref"]
    dicts = [[(k, v) for k, v in zip(keys, combo) if v is not None] for combo in itertools.product(vsets, repeat=2)]
    dicts += [[("db_xref", ["x"]), ("note", ["a"])], [("protein_id", ["v1", "pid"])], [("note", [])]]
    for kind in "ftc":
        attr_sets = XQ_ATTRS[kind] if thorough else XQ_ATTRS[kind][::2] + XQ_ATTRS[kind][3:]
        for own in dicts:
            for parent in [None] + dicts:
                for attrs in (attr_sets if (thorough or len(own) + len(parent or []) <= 2) else attr_sets[1:2]):
                    run.count("xq:grid")
                    yield xq_line(kind, own, parent, attrs)
    rng = run.rng
    universe = ["note", "db_xref", "gene", "protein_id", "product", "transcript_id", "feature_name", "Note", "a b"]
    for _ in range(nrand):
        def rd():
            ks = rng.sample(universe, rng.randint(0, 5))
            return [(k, [rng.choice(["b", "a", "B", "aa", "10", "9", "pid", "x y"]) for _ in range(rng.randint(0, 3))])
                    for k in ks]
        kind = rng.choice("ftc")
        attrs = [rng.choice([None, "", "pid", "zz"]) for _ in XQ_ATTRS[kind][0]]
        if kind == "t":
            attrs[2] = rng.choice([None, "protein_coding", "ncRNA"])
        run.count("xq:random")
        yield xq_line(kind, rd(), rng.choice([None, rd(), rd()]), attrs)


TX_TYPES = ["mRNA", "ncRNA", "tRNA", "rRNA", "misc_RNA", "tmRNA"]


def _gbiotype_cases(run, nmax, nrand):
    """gene biotype of one locus: every sequence of <= nmax transcript types (all orders), then longer random ones"""
    for n in range(1, nmax + 1):
        for seq in itertools.product(TX_TYPES, repeat=n):
            run.count(f"gbiotype:len{n}")
            yield "gbiotype " + enc_list(list(seq))
    rng = run.rng
    for _ in range(nrand):
        seq = [rng.choice(TX_TYPES[:rng.randint(2, 6)]) for _ in range(rng.randint(5, 9))]
        run.count("gbiotype:random")
        yield "gbiotype " + enc_list(seq)
        rng.shuffle(seq)
        yield "gbiotype " + enc_list(seq)


def cases(run):
    global EXHAUSTIVE_NOTE
    thorough = run.tier == "thorough"
    kmax = 5 if thorough else 4
    lt_scopes = ([(["a", "b", "ab"], "gtco", 4), (["a", "b"], "gtc", 6)] if thorough
                 else [(["a", "b", "ab"], "gtco", 3), (["a", "b"], "gtc", 5)])
    EXHAUSTIVE_NOTE = (f"extract: all subsets of size <= {kmax} of 14 keys (9 recognised + genes, xname, ID2, Gene, NAME) "
                       "x all orderings, distinct values; the /note grid (11 note values x 7 contexts x every position); "
                       "whitespace look-alikes of 4 keys. types: all ordered selections of <= "
                       f"{3 if thorough else 2} of 13 keys x 3 initial sets. merge: all pairs of dicts over keys {{a,b}}, "
                       "values {x,y}, <= 2 values per key" + ("" if thorough else " (a fixed half of them)") +
                       ". fsq: 26 keys x 3 contexts x every position. ltgroup: every feature sequence with " +
                       "; ".join(f"<= {n} features over tags {t} x kinds {k}" for t, k, n in lt_scopes) +
                       f". gbiotype: every sequence of <= {4 if thorough else 3} of the 6 transcript feature types")
    yield from _extract_exhaustive(run, kmax)
    yield from _note_grid(run)
    yield from _newline_lookalikes(run)
    yield from _types_cases(run, 3 if thorough else 2, 3000 if thorough else 300)
    yield from _merge_cases(run, thorough, 3000 if thorough else 300)
    yield from _fsq_cases(run, 3000 if thorough else 300)
    yield from _ltgroup_cases(run, lt_scopes, 3000 if thorough else 300)
    yield from _xq_cases(run, thorough, 2000 if thorough else 200)
    yield from _gbiotype_cases(run, 4 if thorough else 3, 1000 if thorough else 60)
    run.exhaustive = True
    yield from _extract_random(run, 20000 if thorough else 2000)
    yield from _gbperm_cases(run, 200 if thorough else 30, 6 if thorough else 3)
