"""C14 — BED12 export is valid BED and reproduces the interval in both coordinate modes."""
from harness.impl_bed import impl_bed_op

WARM_TWINS = {"quick": 0.02, "thorough": 0.05}      # engine: call-history twins (harness/warm.py)
DECOY_TWINS = {"quick": 0.02, "thorough": 0.05}     # engine: decoy twins (harness/decoy.py)
ID = "C14"
LEAN_MODULE = "BioCantor.Props.C14"
DESIGN_REF = "4/C14"
DRIVER = "drivers/C14.lean"
SPEC_DRIVER = "drivers/SpecC14.lean"
DRIVER_MODULES = ["BioCantor.Driver.Main", "BioCantor.Driver.Bed"]
SPEC_DRIVER_MODULES = ["BioCantor.Driver.Main", "BioCantor.Driver.SpecBed"]
RULE = ("one case = one to_bed12 call; non-trivial when the real library returned a record and the interval has "
        ">= 2 blocks or a coding region or a chunk parent; distinct = distinct operation lines")
EXHAUSTIVE_NOTE = ""
TRUSTED = ["Model/Bed.lean is hand-written; tied to transcript.py/feature.py/bed.py by this run's correspondence",
           "harness/shims.py (marshmallow post_dump) only to import the gene package"]
ASSUMPTIONS = ["blocks are non-empty, ascending and non-overlapping (0-bp gaps included), as exons are; an interval with a "
               "zero-length block is outside the property's domain (on a chunk parent the chunk-relative export drops "
               "such a block, chromosome mode keeps it: Props/C14.lean zero_length_block_witness) - such inputs are "
               "generated and compared model-vs-implementation only",
               "chunk parents are plus-strand windows containing the interval (the property's quantifier)",
               "names/ids contain no tab / newline; spaces (inner, leading, trailing, doubled) are generated (a tab inside a name yields a 13-column line: "
               "to_bed12 does no escaping; names are not part of the property's quantifier)",
               "the `name` argument is an identifier attribute or a string that is not an attribute name"]
MODEL_OPS = None
ERR_CLASS = False

NAMES = ["tx1", "~", "a,b", "12", "-", "x.y:z|w", "None", "+",
         "a\u2420b", "\u2420lead", "trail\u2420", "two\u2420\u2420sp"]      # \u2420 = a space (see impl_bed.VIS_SPACE)


def impl(line):
    return impl_bed_op(line)


def nontrivial(line, ans):
    if not ans.startswith("ok"):
        return None
    t = line.split()
    k = int(t[3])
    m = int(t[4 + 2 * k])
    if k >= 2 or m >= 1 or "K" in t[-3:]:
        return line
    return None


def layouts(k, g, lo=0):
    """all k-block layouts s1<e1<=s2<e2<=... within [lo, g]"""
    if k == 0:
        yield []
        return
    for s in range(lo, g):
        for e in range(s + 1, g + 1):
            for rest in layouts(k - 1, g, e):
                yield [(s, e)] + rest


def cds_of(blocks, a, b):
    out = [(max(s, a), min(e, b)) for s, e in blocks if max(s, a) < min(e, b)]
    return out


def enc(bl):
    return f"{len(bl)}" + "".join(f" {s} {e}" for s, e in bl)


def line(kind, st, ex, cds, seqn, sym, ident, sel, score, rgb, mode, par):
    return (f"bed12 {kind} {st} {enc(ex)} {enc(cds)} {seqn} {sym} {ident} {sel} {score} "
            f"{rgb[0]} {rgb[1]} {rgb[2]} {mode} {par}")


def cases(run):
    global EXHAUSTIVE_NOTE
    rng = run.rng
    g = 7 if run.tier == "quick" else 8
    EXHAUSTIVE_NOTE = (f"all layouts of 1..3 non-empty ascending non-overlapping blocks on [0,{g}] (0-bp gaps included) x "
                       "strand x {FeatureInterval, non-coding transcript, every coding range [a,b) with a,b on the "
                       "layout's covered span} (sampled to <= 4 per layout in quick) x {chromosome, chunk-relative} x "
                       f"{{no parent, whole chromosome, every window [cs,ce) of [0,{g + 2}] containing the interval}}")
    # regression: the DESIGN example of F-C14a and one malformed CDS
    yield "bed12 T + 2 20 30 40 60 0 chr1 tx1 ~ sym 0 0 0 0 chunk K 10 90"
    yield "bed12 T + 2 20 30 40 60 1 10 30 chr1 tx1 ~ sym 0 0 0 0 chrom N"
    yield "bed12 T + 2 20 30 40 60 1 45 70 chr1 tx1 ~ sym 0 0 0 0 chrom N"
    for k in (1, 2, 3):
        for ex in layouts(k, g):
            run.count(f"blocks:{k}")
            if any(a[1] == b[0] for a, b in zip(ex, ex[1:])):
                run.count("layout:adjacent-blocks")
            lo, hi = ex[0][0], ex[-1][1]
            covered = sorted({p for s, e in ex for p in (s, e)})
            cds_opts = []
            for a in range(lo, hi):
                for b in range(a + 1, hi + 1):
                    c = cds_of(ex, a, b)
                    if c and c not in cds_opts:
                        cds_opts.append(c)
            if run.tier == "quick" and len(cds_opts) > 4:
                cds_opts = rng.sample(cds_opts, 4)
            pars = ["N", "W"] + [f"K {cs} {ce}" for cs in range(0, lo + 1) for ce in range(hi, g + 3)]
            if run.tier == "quick" and len(pars) > 8:
                pars = pars[:2] + rng.sample(pars[2:], 6)
            variants = [("F", []), ("T", [])] + [("T", c) for c in cds_opts]
            for kind, cds in variants:
                for st in ("+", "-") if (kind == "T" and cds) else ("+", "-", "."):
                    for par in pars:
                        for mode in ("chrom", "chunk"):
                            sym, ident, seqn = rng.choice(NAMES), rng.choice(NAMES), rng.choice(["chr1", "~", "II"])
                            sel = rng.choice(["sym", "sym", "id", "attr:sequence_name", "lit:nm_" + rng.choice(["a", "b,c", "7", "x\u2420y"])])
                            run.count(f"kind:{kind}{'-coding' if cds else ''}")
                            run.count(f"mode:{mode}/{par[0]}")
                            yield line(kind, st, ex, cds, seqn, sym, ident, sel, rng.choice([0, 0, 7, 1000]),
                                       rng.choice([(0, 0, 0), (255, 10, 9)]), mode, par)
            del covered
    run.exhaustive = True
    # random larger layouts: more blocks, multi-digit coordinates (decimal rendering), larger windows
    n = 600 if run.tier == "quick" else 20000
    for _ in range(n):
        k = rng.randint(1, 8)
        scale = rng.choice([30, 120, 1500, 10 ** 6, 10 ** 9])
        parkind = rng.choice("NWK") if scale <= 1500 else "N"
        pts = sorted(rng.sample(range(0, scale + 1), 2 * k))
        ex = [(pts[2 * i], pts[2 * i + 1]) for i in range(k)]
        if rng.random() < 0.3:   # make some gaps 0 bp
            ex2 = [ex[0]]
            for s, e in ex[1:]:
                ex2.append((ex2[-1][1], e) if rng.random() < 0.5 else (s, e))
            ex = ex2
        lo, hi = ex[0][0], ex[-1][1]
        kind = rng.choice("TTF")
        cds = []
        if kind == "T" and rng.random() < 0.7:
            a = rng.randint(lo, hi - 1)
            b = rng.randint(a + 1, hi)
            cds = cds_of(ex, a, b)
        st = rng.choice("+-")
        if parkind == "K":
            cs = rng.randint(0, lo)
            ce = rng.randint(hi, hi + 20)
            par = f"K {cs} {ce}"
        else:
            par = parkind
        mode = rng.choice(["chrom", "chunk"])
        run.count(f"rand-blocks:{k}")
        run.count(f"rand-mode:{mode}/{par[0]}")
        run.count(f"rand-kind:{kind}{'-coding' if cds else ''}")
        yield line(kind, st, ex, cds, rng.choice(["chr1", "~", "II"]), rng.choice(NAMES), rng.choice(NAMES),
                   rng.choice(["sym", "id", "lit:nm_x", "attr:sequence_name"]), rng.randint(0, 1000),
                   (rng.randint(0, 255), rng.randint(0, 255), rng.randint(0, 255)), mode, par)
    # zero-length blocks: outside the property's domain (spec: n/a), model-vs-implementation only
    for _ in range(300 if run.tier == "quick" else 6000):
        k = rng.randint(1, 4)
        pts = sorted(rng.sample(range(0, 60), 2 * k))
        ex = [(pts[2 * i], pts[2 * i + 1]) for i in range(k)]
        j = rng.randrange(0, k + 1)
        z = rng.randint(ex[j - 1][1] if j > 0 else 0, ex[j][0] if j < k else 70)
        ex = ex[:j] + [(z, z)] + ex[j:]
        if rng.random() < 0.15:
            ex = [(z, z)]
        lo, hi = ex[0][0], ex[-1][1]
        parkind = rng.choice("NWKK")
        par = f"K {rng.randint(0, lo)} {rng.randint(hi + 1, hi + 10)}" if parkind == "K" else parkind   # non-empty chunk
        kind = rng.choice("TF")
        run.count("zero-length-block:" + par[0])
        yield line(kind, rng.choice("+-"), ex, [], "chr1", "tx1", "~", "sym", 0, (0, 0, 0),
                   rng.choice(["chrom", "chunk"]), par)
