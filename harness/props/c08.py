"""C08 — serialised forms round-trip; identifiers are deterministic functions of content."""
import copy
import itertools
import uuid

from harness import gen_c08 as G8
from harness.impl_serial import impl_serial_op, enc_val, enc_str, Opaque

DECOY_TWINS = {"quick": 0.08, "thorough": 0.2}     # engine: decoy twins (harness/decoy.py)
ID = "C08"
LEAN_MODULE = "BioCantor.Props.C08"
DESIGN_REF = "4/C08"
DRIVER = "drivers/C08.lean"
SPEC_DRIVER = "drivers/SpecC08.lean"
DRIVER_MODULES = ["BioCantor.Driver.Main", "BioCantor.Driver.Digest"]
SPEC_DRIVER_MODULES = ["BioCantor.Driver.Main", "BioCantor.Driver.SpecDigest"]
GEN_NEEDS = ["biotypes", "strandMembers", "cdsFrameMembers"]
MODEL_OPS = {"tokens", "tokeq", "qexport", "vcollide", "dictrt", "digest", "digest2", "schema", "schemafields"}
ERR_CLASS = False
RULE = ("one case = one operation line. obj: ONE generated object (class x parent situation x seed x profile) taken "
        "through to_dict/from_dict (+ through JSON text, + with every GUID key blanked), Schema().load/dump through "
        "JSON, pickle (AnnotationCollection; re-exported parent dict compared), member sequences (spliced, CDS, reference) against brute-force expectations from the plain genome string before and after every round trip, re-ordered qualifier/value/feature-type insertion, one-coordinate / "
        "strand / one-frame perturbations, chunk-vs-chromosome twin. sweep: the GUID trees + digest token streams of "
        "16 x count objects recomputed in subprocesses under other PYTHONHASHSEEDs. tokens/tokeq: "
        "_encode_object_for_digest on a (nested) value / on a value and a deep re-ordering of it. dictrt/digest: "
        "from_dict(d).to_dict() / the digest call of the top-level object, model vs real. indep: export independence of "
        "one object and one export path (to_dict both coordinate modes, __getstate__, data-model dump, pickle, GUID "
        "tree): two exports share no mutable container, an edited earlier export does not change a later one (equal to "
        "its own deep copy and to a fresh twin's, GUIDs unchanged), an export after obj.qualifiers changed equals the "
        "fresh object's. non-trivial = an obj/sweep "
        "line that built its object(s); a tokens/tokeq line holding a set or dict with >= 2 members; a qexport line "
        "with a repeated or unsorted value; any dictrt/digest line answered ok; distinct = distinct operation lines")
EXHAUSTIVE_NOTE = ""
TRUSTED = ["Model/Digest.lean + Model/DigestDict.lean are hand-written; tied to util/hashing.py, gene/*.py by this "
           "run's correspondence (tokens / qexport / dictrt / digest operations; Biotype, Strand, CDSFrame names are "
           "the regenerated Gen tables)",
           "MD5: hashlib on the real side, an executable RFC-1321 implementation inside Driver/Digest.lean on the "
           "model side (no theorem mentions it); collision freeness is not claimed",
           "pickle, marshmallow / marshmallow_dataclass, json, and the interpreter's set iteration order are outside "
           "the model: exercised only by the obj / sweep legs on the real interpreter",
           "harness/shims.py (marshmallow post_dump drift) for io.models",
           "harness/gen_c08.py + harness/gen_collections.py: objects are built through the public constructors"]
ASSUMPTIONS = ["dictionary keys (kwargs, qualifier keys) are str; qualifier values are str / int / bool / float",
               "Python repr of a str is modelled for ASCII and for printable non-ASCII characters (C1 controls, NBSP "
               "and the soft hyphen escape as \\xNN; other non-printable code points are not generated)",
               "a Python set does not hold both 1 and True (or 0 and False): they are one member for Python",
               "dictrt / digest lines: coordinates valid for the constructors, no parent except the one inside an "
               "AnnotationCollection dictionary, chunk windows that contain the content",
               "obj lines: chunk windows may cut the content; a transcript whose CDS lies entirely outside the chunk "
               "is outside the round-trip claim (the library documents that the CDS is voided, transcript.py:98-113)"]


def impl(line):
    return impl_serial_op(line)


def nontrivial(line, ans):
    if not ans.startswith("ok"):
        return None
    op = line.split(" ", 1)[0]
    if op in ("obj", "pickleleaf", "dumpobj", "indep"):
        return None if ans.startswith("ok skip") else line
    if op == "sweep":
        return line
    if op in ("tokens", "tokeq"):
        t = line.split()
        return line if any(t[i] in ("S", "D") and int(t[i + 1]) >= 2 for i in range(len(t) - 1)) else None
    if op == "qexport":
        return line
    if op in ("dictrt", "digest", "digest2", "schema"):
        return line
    if op == "vcollide":
        return line
    return None


# ----------------------------------------------------------------------------------------------------------
# generic values

STR_POOL = ["", "a", "b", "ab", "B", "10", "9", "a b", "it's", 'say "x"', "both ' and \"", "back\\slash", "tab\there",
            "nl\nx", "cr\rx", "\x00", "\x1f", "\x7f", "é", "中文", "λ", "\U0001F600", "ß", "\xa0", "\xad", "\x85",
            "[1, 2]", "None", "True", ",", "]", "'", '"', "z" * 3]


def r_atom(rng, hashable_only=False, no_bool=False):
    k = rng.random()
    if k < 0.35:
        return rng.choice(STR_POOL)
    if k < 0.55:
        return rng.choice([0, 1, 2, -1, 7, 10, 12, 123, -45, 2 ** 40, 99, 100]) if not no_bool else rng.choice([2, -1, 7, 10, 123, -45, 2 ** 40])
    if k < 0.62:
        return None
    if k < 0.70 and not no_bool:
        return rng.choice([True, False])
    if k < 0.80:
        return uuid.UUID(int=rng.getrandbits(128))
    if k < 0.90:
        f = rng.choice([1.5, -0.25, 3.0, 1e-07])
        return Opaque(str(f), repr(f))
    return rng.choice(STR_POOL)


def r_set(rng):
    n = rng.choice([0, 1, 2, 3, 4, 5])
    out = []
    for _ in range(n):
        a = r_atom(rng, no_bool=True)
        if a not in out:
            out.append(a)
    return set(out), out


def r_value(rng, depth=0):
    """-> a Python value whose sets are replaced by ('set', [members in a chosen order])"""
    k = rng.random()
    if k < 0.30 or depth >= 3:
        return r_atom(rng)
    if k < 0.45:
        return [r_atom(rng) for _ in range(rng.randint(0, 4))]
    if k < 0.50:
        return [[r_atom(rng) for _ in range(rng.randint(0, 2))], {"k": r_atom(rng)}]
    if k < 0.72:
        return ("set", r_set(rng)[1])
    d = {}
    for _ in range(rng.randint(0, 4)):
        key = rng.choice(STR_POOL[:20] + ["k1", "k2", "K", "zz", "_"])
        d[key] = r_value(rng, depth + 1)
    return d


def enc_marked(v):
    """encode a value holding ('set', members) markers, members in the listed order"""
    if isinstance(v, tuple) and len(v) == 2 and v[0] == "set":
        return " ".join([f"S {len(v[1])}"] + [enc_marked(x) for x in v[1]])
    if isinstance(v, list):
        return " ".join([f"L {len(v)}"] + [enc_marked(x) for x in v])
    if isinstance(v, dict):
        return " ".join([f"D {len(v)}"] + [enc_str(k) + " " + enc_marked(x) for k, x in v.items()])
    return enc_val(v)


def reorder(v, rng):
    """same content: set members and dict entries re-ordered at every depth (below dicts), lists untouched"""
    if isinstance(v, tuple) and len(v) == 2 and v[0] == "set":
        m = list(v[1])
        rng.shuffle(m)
        return ("set", m)
    if isinstance(v, dict):
        items = [(k, reorder(x, rng)) for k, x in v.items()]
        rng.shuffle(items)
        return dict(items)
    return v


def call_line(args, kw):
    return " ".join([str(len(args))] + [enc_marked(a) for a in args] + [str(len(kw))]
                    + [enc_str(k) + " " + enc_marked(v) for k, v in kw.items()])


def _tokens_cases(run, n):
    rng = run.rng
    # small exhaustive part: every pair of atoms from a pool as a set, as a dict value, as list
    pool = ["", "a", "B", "10", "9", "it's", 'q"', "é", 2, -1, None, uuid.UUID(int=5)]
    for a, b in itertools.permutations(pool, 2):
        run.count("tokens:pair")
        yield "tokens " + call_line([("set", [a, b])], {})
        yield "tokens " + call_line([[a, b]], {"z": a, "y": ("set", [b])})
    for a, b in itertools.permutations(["a", "b", "B", "", "é", "ab"], 2):
        run.count("tokeq:pair")
        yield ("tokeq " + call_line([{a: 1, b: ("set", ["x", "y"])}], {a: 1, b: 2}) + " | "
               + call_line([{b: ("set", ["y", "x"]), a: 1}], {b: 2, a: 1}))
    for _ in range(n):
        args = [r_value(rng) for _ in range(rng.randint(0, 4))]
        kw = {}
        for _ in range(rng.randint(0, 3)):
            kw[rng.choice(["a", "b", "k", "zz", "A", "_x"])] = r_value(rng, 1)
        run.count("tokens:random")
        yield "tokens " + call_line(args, kw)
        args2 = [reorder(a, rng) for a in args]
        kw2 = reorder(kw, rng)
        run.count("tokeq:random")
        yield "tokeq " + call_line(args, kw) + " | " + call_line(args2, kw2)


def _qexport_cases(run, n):
    rng = run.rng
    vals = ["b", "a", "B", "10", "9", "", "a b", 1, 10, True, "1", "True", "é", "ß", "中"]
    for a, b, c in itertools.permutations(vals[:9], 3):
        run.count("qexport:triple")
        yield "qexport 1 s:k 3 " + " ".join(enc_val(x) for x in (a, b, c))
    yield "qexport 0"
    yield "qexport 1 s:k 0"
    yield "qexport 2 s:b 1 s:x s:a 2 s:y s:y"
    for _ in range(n):
        keys = rng.sample(["k", "K", "note", "a b", "é", "", "gene_id", "z;"], rng.randint(0, 4))
        parts = [str(len(keys))]
        for k in keys:
            vs = [rng.choice(vals + [Opaque("1.5", "1.5")]) for _ in range(rng.randint(0, 5))]
            # 1 and True are different list members but the same str()s are not: keep both kinds
            parts.append(enc_str(k) + " " + " ".join([str(len(vs))] + [enc_val(v) for v in vs]))
        run.count("qexport:random")
        yield "qexport " + " ".join(parts)


def _vcollide_cases(run, hi):
    """every two variants [s1,e1) != [s2,e2) with 0 <= s < e <= hi whose decimal renderings concatenate to the same
    digit string (all of them violate the property: F-C08e), and their neighbours (which must differ)"""
    by_cat = {}
    for s in range(0, hi):
        for e in range(s + 1, hi + 1):
            by_cat.setdefault(f"{s}{e}", []).append((s, e))
    for cat, pairs in sorted(by_cat.items()):
        for a, b in itertools.combinations(pairs, 2):
            run.count("vcollide:same-digits")
            yield f"vcollide {a[0]} {a[1]} {b[0]} {b[1]}"
            run.count("vcollide:neighbour")
            yield f"vcollide {a[0]} {a[1]} {b[0]} {b[1] + 1}"


# ----------------------------------------------------------------------------------------------------------
# dictionaries in the library's vocabulary

def lib_dict(kind, d, rng, top_guid=False, no_guids=False):
    """description -> the dictionary `Cls.from_dict` reads; GUID keys None (recomputed) or given at random,
    the top-level GUID given only when `top_guid`"""
    def g(given=None):
        if no_guids:
            return None
        if given is None:
            given = rng.random() < 0.3
        return uuid.UUID(int=rng.getrandbits(128)) if given else None
    x = copy.deepcopy(d)
    if kind == "tx":
        x.update(transcript_interval_guid=g(top_guid), transcript_guid=g(), sequence_guid=g())
    elif kind == "cds":
        x.update(sequence_guid=g())
    elif kind == "feat":
        x.update(feature_interval_guid=g(top_guid), feature_guid=g(), sequence_guid=g())
    elif kind == "var":
        vg = x.pop("variant_guid_int", None)
        x.update(variant_interval_guid=g(top_guid), variant_guid=None if vg is None else uuid.UUID(int=vg))
    elif kind == "gene":
        x["transcripts"] = [lib_dict("tx", t, rng, None, no_guids) for t in x["transcripts"]]
        x.update(gene_guid=g(top_guid), sequence_guid=g())
    elif kind == "fc":
        x["feature_intervals"] = [lib_dict("feat", t, rng, None, no_guids) for t in x["feature_intervals"]]
        x.update(feature_collection_guid=g(top_guid), sequence_guid=g())
    elif kind == "vc":
        x["variant_intervals"] = [lib_dict("var", t, rng, None, no_guids) for t in x["variant_intervals"]]
        x.update(variant_collection_guid=g(top_guid), sequence_guid=g())
    elif kind == "ac":
        x.pop("shape", None)
        x["genes"] = [lib_dict("gene", t, rng, None, no_guids) for t in x["genes"]]
        x["feature_collections"] = [lib_dict("fc", t, rng, None, no_guids) for t in x["feature_collections"]]
        x["variant_collections"] = [lib_dict("vc", t, rng, None, no_guids) for t in x["variant_collections"]]
        x.update(sequence_guid=g(), parent_or_seq_chunk_parent=None)
    return x


def parent_dict(rng, d):
    """one of the parent dictionaries `_parent_to_dict` can produce (window containing the content)"""
    lo, hi = G8.span("ac", d) if (d["genes"] or d["feature_collections"] or d["variant_collections"]) else (0, 10)
    if d["start"] is not None:
        lo, hi = min(lo, d["start"]), max(hi, d["end"])
    from harness.gen_collections import genome
    k = rng.choice(["none", "chrom", "chunk", "chunk-minus", "chunk-minus", "bare", "bare-untyped", "chrom-noid"])
    L = G8.GENOME_LEN
    if k == "none":
        return None
    if k in ("chrom", "chrom-noid"):
        return dict(seq=genome(L), sequence_name=None if k == "chrom-noid" else "chr1", start=0, end=L, strand="PLUS",
                    alphabet=rng.choice(["NT_EXTENDED_GAPPED", "NT_STRICT"]), type=rng.choice(["CHROMOSOME", "chromosome"]))
    if k == "chunk":
        cs, ce = rng.randint(0, lo), rng.randint(hi, L)
        return dict(seq=genome(L)[cs:ce], sequence_name="chr1", start=cs, end=ce, strand="PLUS",
                    alphabet="NT_EXTENDED_GAPPED", type=rng.choice(["SEQUENCE_CHUNK", "sequence_chunk"]))
    if k == "chunk-minus":
        cs, ce = rng.randint(0, lo), rng.randint(hi, L)
        return dict(seq=G8.revcomp(genome(L)[cs:ce]), sequence_name="chr1", start=cs, end=ce, strand="MINUS",
                    alphabet="NT_EXTENDED_GAPPED", type="SEQUENCE_CHUNK")
    if k == "bare":
        return dict(seq=None, sequence_name=rng.choice(["chr1", None]), start=None, end=None, strand=None,
                    alphabet=None, type="CHROMOSOME")
    return dict(seq=None, sequence_name="chr1", start=None, end=None, strand=None, alphabet=None, type=None)


def _dict_cases(run, per_kind):
    rng = run.rng
    for kind in G8.KINDS:
        for i in range(per_kind):
            profile = G8.PROFILES[i % len(G8.PROFILES)]
            if kind == "ac":
                d = G8.gen_ac(rng, profile, shape=rng.choice(["genes", "genes+fc", "fc", "vc", "genes", "empty"]))
            else:
                d = G8.GEN[kind](rng, profile)
            x = lib_dict(kind, d, rng, top_guid=False)
            if kind == "ac":
                x["parent_or_seq_chunk_parent"] = parent_dict(rng, d)
            run.count(f"digest:{kind}")
            yield f"digest {kind} " + enc_val(x)
            y = lib_dict(kind, d, rng, top_guid=None)
            if kind == "ac":
                y["parent_or_seq_chunk_parent"] = parent_dict(rng, d)
            # a few ill-formed dictionaries: a missing key, an unknown enum name, half a CDS
            r = rng.random()
            if r < 0.04 and len(y) > 2:
                y.pop(rng.choice(sorted(y)))
                run.count("dictrt:missing-key")
            elif r < 0.07 and "strand" in y:
                y["strand"] = "plus"
                run.count("dictrt:bad-enum-name")
            elif r < 0.10 and kind == "tx" and y["cds_starts"]:
                y["cds_ends"] = None
                run.count("dictrt:half-cds")
            run.count(f"dictrt:{kind}")
            yield f"dictrt {kind} " + enc_val(y)


MODEL_KINDS = ["tx", "feat", "var", "gene", "fc", "vc", "ac"]
REQUIRED = {"tx": ["exon_starts", "exon_ends", "strand"], "feat": ["interval_starts", "interval_ends", "strand"],
            "var": ["start", "end", "sequence", "variant_type"], "gene": ["transcripts"], "fc": ["feature_intervals"],
            "vc": ["variant_intervals"], "ac": []}
CHILD_KEY = {"gene": "transcripts", "fc": "feature_intervals", "vc": "variant_intervals"}


def _schema_cases(run, per_kind):
    """`rt`: the dictionary an imported object exports must load into its data model (spec-decided);
    `raw`: generated dictionaries and mutations of them (unknown key, required key missing / null, null where not
    Optional, unknown enum name, a mutated child) — accept / reject, model vs marshmallow"""
    rng = run.rng
    for kind in MODEL_KINDS + ["parent"]:
        yield f"schemafields {kind}"
    for kind in MODEL_KINDS:
        for i in range(per_kind):
            profile = G8.PROFILES[i % len(G8.PROFILES)]
            if kind == "ac":
                d = G8.gen_ac(rng, profile, shape=rng.choice(["genes", "genes+fc", "fc", "vc", "empty"]))
            else:
                d = G8.GEN[kind](rng, profile)
            x = lib_dict(kind, d, rng, top_guid=None)
            if kind == "ac":
                x["parent_or_seq_chunk_parent"] = parent_dict(rng, d)
            run.count(f"schema:rt:{kind}")
            yield f"schema {kind} rt {enc_val(x)}"
            run.count(f"schema:raw:{kind}")
            yield f"schema {kind} raw {enc_val(x)}"
            y = copy.deepcopy(x)
            target = y
            if kind in CHILD_KEY and rng.random() < 0.4:
                target = rng.choice(y[CHILD_KEY[kind]])
                tk = {"gene": "tx", "fc": "feat", "vc": "var"}[kind]
            else:
                tk = kind
            m = rng.choice(["unknown", "unknown-guid", "drop-required", "null-required", "null-optional", "bad-strand",
                            "bad-biotype", "null-list", "drop-optional"])
            if m == "unknown":
                target[rng.choice(["foo", "Strand", "exon_start", "guid2"])] = rng.choice([None, 1, "x"])
            elif m == "unknown-guid":
                target["guid"] = None
            elif m == "drop-required" and REQUIRED[tk]:
                target.pop(rng.choice(REQUIRED[tk]))
            elif m == "null-required" and REQUIRED[tk]:
                target[rng.choice(REQUIRED[tk])] = None
            elif m == "null-optional":
                target[rng.choice([k for k in sorted(target) if k not in REQUIRED[tk]])] = None
            elif m == "bad-strand" and "strand" in target:
                target["strand"] = rng.choice(["plus", "+", "", "Plus"])
            elif m == "bad-biotype":
                for k in ("transcript_type", "gene_type"):
                    if k in target:
                        target[k] = rng.choice(["mrna", "protein", "mRNA", "lnc_RNA"])
            elif m == "null-list" and tk == "ac":
                target[rng.choice(["genes", "feature_collections", "variant_collections"])] = None
            elif m == "drop-optional":
                target.pop(rng.choice([k for k in sorted(target) if k not in REQUIRED[tk]]))
            run.count(f"schema:raw-mutated:{m}")
            yield f"schema {kind} raw {enc_val(y)}"


def _digest2_cases(run, per_kind):
    """pairs of dictionaries without identifiers: equal content in another insertion order (same GUID demanded) /
    one coordinate, the strand or one frame of one leaf changed (another GUID and byte stream demanded)"""
    rng = run.rng
    for kind in G8.KINDS:
        for i in range(per_kind):
            profile = G8.PROFILES[i % len(G8.PROFILES)]
            if kind == "ac":
                d = G8.gen_ac(rng, profile, shape=rng.choice(["genes", "genes+fc", "fc", "vc"]))
                if d["start"] is None and d["shape"] == "vc":
                    lo, hi = G8.span("ac", d)
                    d["start"], d["end"] = lo, hi
            else:
                d = G8.GEN[kind](rng, profile)
            a = lib_dict(kind, d, rng, no_guids=True)
            b = lib_dict(kind, G8.permute_orders(kind, d, rng), rng, no_guids=True)
            run.count(f"digest2:same:{kind}")
            yield f"digest2 same {kind} {enc_val(a)} | {enc_val(b)}"
            for label, ap in G8.perturbations(kind, d, rng, limit=2):
                c = lib_dict(kind, ap(), rng, no_guids=True)
                run.count(f"digest2:diff:{kind}")
                yield f"digest2 diff {kind} {enc_val(a)} | {enc_val(c)}"


# ----------------------------------------------------------------------------------------------------------

def _obj_cases(run, seeds):
    for kind in G8.KINDS:
        for pk in G8.PARENTS:
            for profile in G8.PROFILES:
                for s in seeds:
                    run.count(f"obj:{kind}:{pk}")
                    yield f"obj {kind} {pk} {s} {profile}"


def _indep_cases(run, seeds):
    from harness.impl_serial import INDEP_PATHS
    has_model = set(MODEL_KINDS)
    for path in INDEP_PATHS:
        for kind in G8.KINDS:
            if path in ("state", "pickle") and kind != "ac":
                continue
            if path == "model" and kind not in has_model:
                continue
            for j, pk in enumerate(G8.PARENTS):
                for s in seeds:
                    profile = G8.PROFILES[(s + j) % len(G8.PROFILES)]
                    run.count(f"indep:{path}:{kind}")
                    yield f"indep {path} {kind} {pk} {s} {profile}"


def cases(run):
    global EXHAUSTIVE_NOTE
    thorough = run.tier == "thorough"
    base = 100000 + 1000 * run.seed         # obj seeds are disjoint between VERIF_SEEDs; 0.. are the fixed ones
    fixed = range(0, 8 if not thorough else 40)
    rnd = range(base, base + (10 if not thorough else 120))
    EXHAUSTIVE_NOTE = ("tokens: every ordered pair of 12 atoms as a set / list / dict values; tokeq: every ordered pair "
                       "of 6 keys; qexport: every ordered triple of 9 values; vcollide: EVERY pair of variants "
                       f"0 <= s < e <= {400 if thorough else 250} whose coordinates concatenate to the same digits; obj: "
                       f"8 classes x 6 parent situations (none, sequence-less, chromosome, chromosome without id, plus-strand chunk, MINUS-strand chunk; chunk windows containing or cutting the content) x 5 profiles x seeds 0..{len(fixed) - 1} (seed independent)")
    yield from _vcollide_cases(run, 400 if thorough else 250)
    yield from _obj_cases(run, fixed)
    # empty collection / variants-only collection (F-C19f) are reached through the generator's shapes; make sure
    for pk in G8.PARENTS:
        yield f"obj ac {pk} 900000 plain"
        yield f"obj ac {pk} 900001 plain"
    run.exhaustive = True
    yield from _tokens_cases(run, 20000 if thorough else 1500)
    yield from _qexport_cases(run, 5000 if thorough else 500)
    yield from _dict_cases(run, 1500 if thorough else 120)
    yield from _digest2_cases(run, 400 if thorough else 40)
    yield from _schema_cases(run, 400 if thorough else 40)
    yield from _obj_cases(run, rnd)
    yield from _indep_cases(run, range(base, base + (2 if not thorough else 10)))
    hashseeds = ",".join(str(i) for i in (range(32) if thorough else range(3)))
    for j, profile in enumerate(G8.PROFILES):
        run.count("sweep")
        yield f"sweep {base + 50 * j} {25 if thorough else 5} {profile} {hashseeds}"
    for kind in ("tx", "cds", "feat", "var", "gene", "fc", "vc"):
        for pk in G8.PARENTS:
            run.count("pickleleaf")
            yield f"pickleleaf {kind} {pk} {base} plain"
    for pk in G8.PARENTS:
        for s in range(3):
            run.count("dumpobj")
            yield f"dumpobj {pk} {base + s} plain"
