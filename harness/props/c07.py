"""C07 — a chunk-relative view is the chromosome view restricted to the chunk (twin construction)."""
import itertools

from harness import gen_cds as G
from harness.impl_chunk import enc_obj

WARM_TWINS = {"quick": 0.02, "thorough": 0.05}      # engine: call-history twins (harness/warm.py)
DECOY_TWINS = {"quick": 0.02, "thorough": 0.05}     # engine: decoy twins (harness/decoy.py)
ID = "C07"
LEAN_MODULE = "BioCantor.Props.C07"
DESIGN_REF = "4/C07"
DRIVER = "drivers/C07.lean"
SPEC_DRIVER = "drivers/SpecC07.lean"
DRIVER_MODULES = ["BioCantor.Driver.Main", "BioCantor.Driver.Chunk"]
SPEC_DRIVER_MODULES = ["BioCantor.Driver.Main", "BioCantor.Driver.SpecChunk"]
GEN_NEEDS = ["CDSFrame_shift", "CDSFrame_to_phase", "CDSPhase_to_frame", "gencode", "startCodons", "aacodons"]
RULE = ("every generated interval is built twice with the real library, on the whole chromosome (seq_to_parent) and on "
        "a sequence chunk (seq_chunk_to_parent), one op line per (interval description, chunk window, aspect); "
        "exhaustive small scope (see exhaustive_scope) + random larger intervals, all start frames, both strands, "
        "chunks on + and -; a case is non-trivial when the library answered ok and the chunk window CUTS the interval "
        "(it neither contains nor misses it); distinct = distinct operation lines. Aspects: loc, ident, seq, ccodons, "
        "kcodons, kwcodons / cwcodons (a codon window on top of the chunk, chunk-relative / chromosome answers), cdsseq, "
        "prot, kframes. QUERY ORDER: `order` lines evaluate every observable of every node on two fresh chunk-built "
        "objects (chromosome views first / chunk views first) and must coincide; a trailing @k / @c on any other op "
        "evaluates the chunk-relative / chromosome-level views of the same object BEFORE the op's question (same "
        "predicate as without). ALTERNATIVE CONSTRUCTORS: a trailing via:fcrl|dict|lift|relift|snv:<p> builds the chunk "
        "twin by from_chunk_relative_location / from_dict(parent=chunk) / liftover_to_parent_or_seq_chunk_parent (from the "
        "whole chromosome; from the opposite-strand chunk) / incorporate_variants(SNV); every aspect is then judged by "
        "the SAME predicate, and `same` compares it with the ordinary construction on the same chunk")
EXHAUSTIVE_NOTE = ""
TRUSTED = ["Model/Chunk.lean is hand-written; tied to gene/interval.py, cds.py, transcript.py, feature.py, gene.py, "
           "collections.py, io/parser.py by this run's correspondence",
           "Model/CDS.lean (C05), Model/Lift.lean (C04), Model/Location.lean (C01) for the chromosome-level machinery",
           "harness/shims.py (io.parser import needs the marshmallow shim)",
           "identifier equality is modelled as equality of the digest INPUT (MD5 assumed collision free on it)"]
ASSUMPTIONS = ["the chunk's letters are the chromosome's letters of the window (reverse-complemented for a chunk on the "
               "minus strand); seq_chunk_to_parent cannot check that",
               "exons / blocks of positive length, given in ascending order, not overlapping (0-bp gaps included)",
               "AnnotationCollection with explicit bounds for the identity clause (without bounds the documented rule "
               "'bounds are inferred from the parent' makes the twins different collections; their location is still "
               "checked against the chunk window)",
               "names, ids and qualifiers are absent (they are chunk independent constructor arguments: C08)",
               "sequence letters ACGTN", "translate() with its defaults (DEFAULT table, strict)",
               "via:fcrl / via:snv: the object lies inside the chunk and no two of its blocks touch (a chunk-relative "
               "location is a set of positions: the lift back to the chromosome merges touching blocks); via:snv on a "
               "coding object: one uninterrupted reading frame (incorporate_variants re-derives the frames from the "
               "first one); metadata (is_primary_*) is outside the comparison",
               "via: on an AnnotationCollection: explicit bounds"]
CODON_OPS = ("ccodons", "kcodons", "kwcodons", "cwcodons", "cdsseq", "prot", "kframes")
MODEL_OPS = {"loc", "ident", "seq", "same"} | set(CODON_OPS)      # `order` is decided by the spec alone


def impl(line):
    from harness.impl_chunk import impl_chunk_op
    return impl_chunk_op(line)


def decoys(line):
    """the same chunk hierarchy built first by a caller that spells the sequence types as plain strings (the library's
    Parent cache then holds string-typed levels for the real line: whether a view is chunk-relative must not depend on
    the spelling)"""
    return ["@strtypes " + line]


# ------------------------------------------------------------------------------------------------ helpers

def letters(rng, n):
    return "".join(rng.choice("ACGTACGTACGTACGTN") for _ in range(n))


def all_windows(n):
    for ws in range(0, n):
        for we in range(ws + 1, n + 1):
            yield ws, we


def layouts_on(n, kmax=2):
    """every layout of 1..kmax blocks of positive length inside [0, n), ascending, 0-bp gaps allowed"""
    for a in range(0, n):
        for b in range(a + 1, n + 1):
            yield [(a, b)]
    if kmax >= 2:
        for a in range(0, n):
            for b in range(a + 1, n + 1):
                for c in range(b, n):
                    for d in range(c + 1, n + 1):
                        yield [(a, b), (c, d)]


def flat_blocks(d):
    """all leaf blocks of a description (exons / feature blocks)"""
    tag = d[0]
    if tag == "F":
        return list(d[2])
    if tag == "T":
        return list(d[2])
    if tag == "D":
        return [(s, e) for s, e, _ in d[2]]
    if tag in "GQ":
        return [b for x in d[1] for b in flat_blocks(x)]
    return [b for x in d[1] + d[2] for b in flat_blocks(x)]


def cds_of(d):
    if d[0] == "D":
        return d[1], d[2]
    if d[0] == "T" and d[3]:
        return d[1], d[3]
    return None


def classify(d, ws, we):
    """window classes of the property's quantifier"""
    bl = sorted(flat_blocks(d))
    if not bl:
        return ["empty-collection"]
    lo, hi = bl[0][0], max(e for _, e in bl)
    tags = []
    inside = [(max(s, ws), min(e, we)) for s, e in bl if max(s, ws) < min(e, we)]
    if not inside:
        return ["misses"]
    if ws <= lo and hi <= we:
        tags.append("contains")
    else:
        if any(s < ws < e or s < we < e for s, e in bl):
            tags.append("cuts-exon")
        gaps = [(bl[i][1], bl[i + 1][0]) for i in range(len(bl) - 1) if bl[i][1] < bl[i + 1][0]]
        if any(s <= ws < e or s < we <= e for s, e in gaps):
            tags.append("cuts-intron")
        if not tags:
            tags.append("cuts-at-block-boundary")
    c = cds_of(d)
    if c:
        st, ex = c
        clo, chi = ex[0][0], ex[-1][1]
        five_in = (ws <= clo < we) if st == "+" else (ws <= chi - 1 < we)
        three_in = (ws <= chi - 1 < we) if st == "+" else (ws <= clo < we)
        any_in = any(max(s, ws) < min(e, we) for s, e, _ in ex)
        if not any_in:
            tags.append("cds-sliced-out")
        else:
            if not five_in:
                tags.append("cuts-cds-5p")
            if not three_in:
                tags.append("cuts-cds-3p")
    return tags


def line(op, seq, ws, we, wst, d):
    return f"{op} {seq} {ws} {we} {wst} {enc_obj(d)}"


def nontrivial(ln, ans):
    if not ans.startswith("ok"):
        return None
    from harness.impl_chunk import parse_obj
    from harness.impl_loc import Toks
    t = ln.split()
    try:
        ws, we = int(t[2]), int(t[3])
        tk = Toks(t[5:])
        tk.strand = lambda: tk.next()
        d = parse_obj(tk)
        tags = classify(d, ws, we)
    except Exception:  # noqa
        return None
    return ln if any(x.startswith("cuts") for x in tags) else None


def spec_skip(ln):
    return len(ln) > 8000


def count_window(run, kind, d, ws, we, wst):
    for tag in classify(d, ws, we):
        run.count(f"{kind}:{tag}")
    run.count(f"chunk-strand{wst}")


# ------------------------------------------------------------------------------------------------ generators

def cds_desc(st, exons, fv):
    return ("D", st, [(s, e, f) for (s, e), f in zip(exons, fv)])


def tx_around(rng, st, exons, fv, utr=(0, 1, 2)):
    """a transcript whose exons contain the CDS blocks (UTR bases added at both ends, sometimes a UTR-only exon)"""
    ex = list(exons)
    a, b = rng.choice(utr), rng.choice(utr)
    a = min(a, ex[0][0])
    ex[0] = (ex[0][0] - a, ex[0][1])
    ex[-1] = (ex[-1][0], ex[-1][1] + b)
    if rng.random() < 0.3:
        s = ex[-1][1] + rng.choice((1, 2))
        ex.append((s, s + rng.choice((1, 2, 3))))
    if rng.random() < 0.2 and ex[0][0] >= 2:
        ex.insert(0, (0, ex[0][0] - 1))
    return ("T", st, ex, [(s, e, f) for (s, e), f in zip(exons, fv)])


def pre_mod(run):
    """query-order modifier of one line: none / chunk views first / chromosome views first"""
    r = run.rng.random()
    m = "" if r < 0.4 else (" @k" if r < 0.75 else " @c")
    run.count("query-order:" + (m.strip() or "plain"))
    return m


def codon_window(run, seq, d):
    """a codon window aimed at the CDS span, start < end, inside the chromosome"""
    _, ex = cds_of(d)
    lo = run.rng.randint(max(0, ex[0][0] - 1), min(len(seq) - 1, ex[-1][1]))
    hi = run.rng.randint(lo + 1, min(len(seq), max(lo + 1, ex[-1][1] + 1)))
    return lo, hi


def coding_ops(run, seq, ws, we, wst, d, full, via=""):
    yield line("kcodons", seq, ws, we, wst, d) + via + pre_mod(run)
    if full or run.rng.random() < 0.35:
        lo, hi = codon_window(run, seq, d)
        run.count("codon-window-on-chunk")
        yield line("kwcodons", seq, ws, we, wst, d) + f" {lo} {hi}" + via + pre_mod(run)
    if full or run.rng.random() < 0.12:
        lo, hi = codon_window(run, seq, d)
        yield line("cwcodons", seq, ws, we, wst, d) + f" {lo} {hi}" + via + pre_mod(run)
    if full or run.rng.random() < 0.25:
        yield line("ccodons", seq, ws, we, wst, d) + via + pre_mod(run)
    if full or run.rng.random() < 0.3:
        yield line("cdsseq", seq, ws, we, wst, d) + via + pre_mod(run)
        yield line("prot", seq, ws, we, wst, d) + via + pre_mod(run)
    if full or run.rng.random() < 0.3:
        yield line("kframes", seq, ws, we, wst, d) + via + pre_mod(run)


def order_line(run, seq, ws, we, wst, d, via=""):
    lo, hi = codon_window(run, seq, d) if cds_of(d) else span_of(d)
    if hi <= lo:
        hi = lo + 1
    run.count("order-line:" + d[0])
    return line("order", seq, ws, we, wst, d) + f" {lo} {hi}" + via


# ---- alternative constructors

VIAS = ("fcrl", "dict", "lift", "relift", "snv")


def block_lists(d):
    if d[0] == "F":
        return [list(d[2])]
    if d[0] == "D":
        return [[(s, e) for s, e, _ in d[2]]]
    if d[0] == "T":
        return [list(d[2])] + ([[(s, e) for s, e, _ in d[3]]] if d[3] else [])
    if d[0] in "GQ":
        return [b for x in d[1] for b in block_lists(x)]
    return [b for x in d[1] + d[2] for b in block_lists(x)]


def inside(d, ws, we):
    return all(ws <= s and e <= we for bl in block_lists(d) for s, e in bl)


def strict_gaps(d):
    return all(bl[i][1] < bl[i + 1][0] for bl in block_lists(d) for i in range(len(bl) - 1))


def one_frame(d):
    c = cds_of(d)
    if not c:
        return True
    st, ex = c
    bl = [(s, e) for s, e, _ in ex]
    fv = [f for _, _, f in ex]
    return fv == G.consistent_frames(bl, st, fv[0] if st == "+" else fv[-1])


def via_applies(d, ws, we, via):
    if d[0] == "A" and d[3] is None:
        return False
    if via in ("fcrl", "snv"):
        return d[0] in "FTD" and inside(d, ws, we) and strict_gaps(d) and (via == "fcrl" or one_frame(d))
    return True


def alt_choice(quick, ws, we, wst, i, period):
    """constructors tried on one (object, window, chunk strand) of the exhaustive alternative-constructor scope: the two
    chunk-relative ones always; of the three that go through from_dict, all (thorough) or one in rotation, on one
    frame vector in rotation (quick)"""
    if not quick:
        return VIAS
    out = ["fcrl", "snv"]
    if (i + ws + we) % period == 0:
        out.append(("dict", "lift", "relift")[(ws + 2 * we + (wst == "-")) % 3])
    return out


def via_token(run, ws, we, via):
    run.count("alt-ctor:" + via)
    return f" via:snv:{run.rng.randrange(ws, we)}" if via == "snv" else f" via:{via}"


def alt_ops(run, seq, ws, we, wst, d, via, full):
    """the aspects of one alternatively constructed twin"""
    v = via_token(run, ws, we, via)
    run.count(f"alt-ctor-chunk{wst}:{via}:{d[0]}")
    yield line("loc", seq, ws, we, wst, d) + v
    yield line("same", seq, ws, we, wst, d) + v
    if full or run.rng.random() < 0.5:
        yield line("ident", seq, ws, we, wst, d) + v
    if d[0] != "D" and (full or run.rng.random() < 0.5):
        yield line("seq", seq, ws, we, wst, d) + v
    if cds_of(d):
        if full:
            yield from coding_ops(run, seq, ws, we, wst, d, True, via=v)
        else:
            ops = list(coding_ops(run, seq, ws, we, wst, d, True, via=v))
            yield from run.rng.sample(ops, 2)
    if full or run.rng.random() < 0.15:
        yield order_line(run, seq, ws, we, wst, d, via=v)


def random_feature(rng, n, kmax=4):
    k = rng.randint(1, kmax)
    cuts = sorted(rng.sample(range(0, n + 1), min(2 * k, n + 1) // 2 * 2))
    bl = [(cuts[2 * i], cuts[2 * i + 1]) for i in range(len(cuts) // 2)]
    if rng.random() < 0.3 and len(bl) >= 2:          # a 0-bp gap
        i = rng.randrange(len(bl) - 1)
        bl[i] = (bl[i][0], bl[i + 1][0])
    return ("F", rng.choice("+-"), bl)


def random_tx(rng, max_exons=5, coding=None):
    exons, st, fv = G.random_cds(rng, max_exons=max_exons, max_len=9, first_max=12,
                                 gap_choices=(0, 1, 2, 3, 7, 15))
    if coding is None:
        coding = rng.random() < 0.7
    if not coding:
        return ("T", st, exons, [])
    return tx_around(rng, st, exons, fv)


def random_gene(rng):
    txs = []
    for _ in range(rng.choice((1, 1, 2, 3))):
        t = random_tx(rng, max_exons=3)
        if t not in txs:
            txs.append(t)
    return ("G", txs)


def random_fic(rng, n):
    fs = []
    for _ in range(rng.choice((1, 2, 3))):
        f = random_feature(rng, n, kmax=2)
        if f not in fs:
            fs.append(f)
    return ("Q", fs)


def span_of(d):
    bl = flat_blocks(d)
    return (min(s for s, _ in bl), max(e for _, e in bl)) if bl else (0, 0)


def random_window(rng, d, n):
    """a window aimed at the interval: inside it, cutting an end, around it, or elsewhere"""
    lo, hi = span_of(d)
    bl = sorted(flat_blocks(d))
    mode = rng.random()
    if mode < 0.45 and bl:                    # both ends near block ends / inside blocks
        pts = sorted({p for s, e in bl for p in (s, e, (s + e) // 2, s + 1, e - 1) if 0 <= p <= n})
        ws = rng.choice(pts)
        we = rng.choice([p for p in pts if p > ws] or [min(n, ws + 1)])
    elif mode < 0.6:
        ws, we = max(0, lo - rng.randint(0, 3)), min(n, hi + rng.randint(0, 3))
    elif mode < 0.7:
        ws, we = 0, n
    else:
        ws = rng.randint(0, n - 1)
        we = rng.randint(ws + 1, n)
    if we <= ws:
        we = min(n, ws + 1)
        if we <= ws:
            ws = we - 1
    return ws, we


def cases(run):
    global EXHAUSTIVE_NOTE
    rng = run.rng
    quick = run.tier == "quick"
    nf = 7 if quick else 10            # genome length of the exhaustive feature scope
    nt = 6 if quick else 9             # ... of the exhaustive non-coding transcript scope
    cds_scopes = [(1, 6), (2, 3)] if quick else [(1, 8), (2, 4)]
    EXHAUSTIVE_NOTE = (f"FeatureInterval (non-coding TranscriptInterval): every layout of 1-2 blocks on a genome of length {nf} ({nt}), "
                       f"both strands, every chunk window, chunk on + and -; CDSInterval: " +
                       ", ".join(f"{k} exon(s) of length 1..{m}" for k, m in cds_scopes) +
                       " with gaps 0/1/2, both strands, all 3^k frame vectors, every chunk window over the CDS span +-1, "
                       "chunk on + and -; coding TranscriptInterval / GeneInterval / FeatureIntervalCollection / "
                       "AnnotationCollection: every window of a genome of length <= 12 for a fixed family of small objects")
    # ---- 1. features and non-coding transcripts, exhaustive
    for cls, n in (("F", nf), ("T", nt)):
        seq = letters(rng, n)
        for bl in layouts_on(n):
            for st in "+-":
                d = ("F", st, bl) if cls == "F" else ("T", st, bl, [])
                for ws, we in all_windows(n):
                    for wst in "+-":
                        count_window(run, cls, d, ws, we, wst)
                        yield line("loc", seq, ws, we, wst, d)
                        if cls == "F" or wst == "+":
                            yield line("seq", seq, ws, we, wst, d)
                        if wst == "+" and (ws + we) % 3 == 0:
                            yield line("ident", seq, ws, we, wst, d)
                        if not quick or (ws + 2 * we + len(bl)) % 3 == 0:
                            yield order_line(run, seq, ws, we, wst, d)
    # ---- 2. CDS, exhaustive
    for k, m in cds_scopes:
        for exons in G.layouts(k, m):
            n = exons[-1][1] + 1
            seq = letters(rng, n)
            for st in "+-":
                for fv in G.frame_vectors(k):
                    d = cds_desc(st, exons, fv)
                    for tag in G.classify(exons, st, fv):
                        run.count("cds:" + tag)
                    for ws, we in all_windows(n):
                        for wst in "+-":
                            if quick and k == 2 and wst == "-" and (ws + we) % 2:
                                continue
                            count_window(run, "D", d, ws, we, wst)
                            yield from coding_ops(run, seq, ws, we, wst, d, full=False)
                            yield order_line(run, seq, ws, we, wst, d)
                            if (ws + 2 * we) % 5 == 0:
                                yield line("loc", seq, ws, we, wst, d)
                                yield line("ident", seq, ws, we, wst, d)
    run.exhaustive = True
    # ---- 3. coding transcripts, genes, collections: fixed small family, every window
    fam = []
    for exons in [[(2, 5)], [(1, 4), (6, 9)], [(2, 4), (4, 8)], [(1, 3), (5, 6), (8, 11)]]:
        for st in "+-":
            for f0 in (0, 1, 2):
                fv = G.consistent_frames(exons, st, f0)
                fam.append(tx_around(rng, st, exons, fv))
            fv = [rng.randrange(3) for _ in exons]
            fam.append(tx_around(rng, st, exons, fv))
    if quick:
        fam = fam[rng.randrange(2)::2]
    n = max(span_of(d)[1] for d in fam) + 1
    seq = letters(rng, n)
    for d in fam:
        for ws, we in all_windows(n):
            for wst in "+-":
                if quick and (ws + we) % 2 and wst == "-":
                    continue
                count_window(run, "Tc", d, ws, we, wst)
                yield line("loc", seq, ws, we, wst, d)
                yield line("ident", seq, ws, we, wst, d)
                yield line("seq", seq, ws, we, wst, d)
                yield from coding_ops(run, seq, ws, we, wst, d, full=False)
                yield order_line(run, seq, ws, we, wst, d)
    colls = []
    for i in range(6 if quick else 14):
        g = ("G", [fam[(3 * i) % len(fam)], ("T", "-", [(1, 3), (6, 10)], [])][: 1 + i % 2])
        q = ("Q", [("F", "+", [(0, 2), (5, 7)]), ("F", "-", [(8 + i % 3, 12)])][: 1 + (i + 1) % 2])
        colls += [g, q, ("A", [g], [q], (0, n)), ("A", [g], [q], None), ("A", [g], [], span_of(g)),
                  ("A", [], [q], (1, n - 1))]
    colls.append(("A", [], [], None))
    colls.append(("A", [], [], (2, 9)))
    for d in colls:
        for ws, we in all_windows(n):
            for wst in "+-":
                if quick and (ws + 2 * we) % 3 and wst == "-":
                    continue
                count_window(run, d[0], d, ws, we, wst)
                yield line("loc", seq, ws, we, wst, d)
                yield line("ident", seq, ws, we, wst, d)
                if (ws + we) % 2 == 0:
                    yield line("seq", seq, ws, we, wst, d)
                if not quick or (ws + we) % 3 == 0:
                    yield order_line(run, seq, ws, we, wst, d)
                if d[0] != "A" or d[3]:
                    via = ("dict", "lift", "relift")[(ws + we + (wst == "-")) % 3]
                    if not quick or (2 * ws + we) % 4 == 0:
                        yield from alt_ops(run, seq, ws, we, wst, d, via, full=False)
    # ---- 3b. alternative constructors, exhaustive small scope: every layout x every window x both chunk strands x
    #          every constructor that applies
    na = 5 if quick else 7
    for cls in "FT":
        seq = letters(rng, na)
        for bl in layouts_on(na):
            for st in "+-":
                d = ("F", st, bl) if cls == "F" else ("T", st, bl, [])
                for ws, we in all_windows(na):
                    for wst in "+-":
                        for via in alt_choice(quick, ws, we, wst, 0, 1):
                            if via_applies(d, ws, we, via):
                                yield from alt_ops(run, seq, ws, we, wst, d, via, full=False)
    for k, m in ([(1, 4), (2, 2)] if quick else [(1, 6), (2, 3)]):
        for exons in G.layouts(k, m):
            n = exons[-1][1] + 1
            seq = letters(rng, n)
            for st in "+-":
                for ifv, fv in enumerate(G.frame_vectors(k)):
                    for shape in "DT":
                        d = cds_desc(st, exons, fv) if shape == "D" else \
                            ("T", st, [(exons[0][0] - 1, exons[0][1])] + exons[1:], [(s, e, f) for (s, e), f in zip(exons, fv)])
                        for ws, we in all_windows(n):
                            for wst in "+-":
                                for via in alt_choice(quick, ws, we, wst, ifv + (shape == "T"), 3 ** k):
                                    if via_applies(d, ws, we, via):
                                        yield from alt_ops(run, seq, ws, we, wst, d, via, full=False)
    # ---- 4. random larger
    nrand = 500 if quick else 12000
    for _ in range(nrand):
        r = rng.random()
        if r < 0.35:
            exons, st, fv = G.random_cds(rng, max_exons=6, max_len=10, first_max=15, gap_choices=(0, 0, 1, 2, 3, 7, 20))
            d = cds_desc(st, exons, fv)
            for tag in G.classify(exons, st, fv):
                run.count("rand-cds:" + tag)
        elif r < 0.6:
            d = random_tx(rng)
        elif r < 0.7:
            d = random_feature(rng, 60)
        elif r < 0.8:
            d = random_gene(rng)
        elif r < 0.87:
            d = random_fic(rng, 60)
        else:
            genes = [random_gene(rng) for _ in range(rng.choice((0, 1, 2)))]
            fics = [random_fic(rng, 60) for _ in range(rng.choice((0, 1, 1)))]
            lo, hi = span_of(("A", genes, fics, None))
            bounds = None if rng.random() < 0.25 else (max(0, lo - rng.randint(0, 4)), hi + rng.randint(0, 4))
            d = ("A", genes, fics, bounds)
        lo, hi = span_of(d)
        if d[0] == "A" and d[3]:
            hi = max(hi, d[3][1])
        n = hi + rng.randint(1, 6)
        seq = letters(rng, n)
        for _ in range(6):
            ws, we = random_window(rng, d, n)
            wst = rng.choice("+-")
            count_window(run, "rand-" + d[0], d, ws, we, wst)
            yield line("loc", seq, ws, we, wst, d)
            yield line("ident", seq, ws, we, wst, d)
            if d[0] != "D":
                yield line("seq", seq, ws, we, wst, d)
            if cds_of(d):
                yield from coding_ops(run, seq, ws, we, wst, d, full=True)
            yield order_line(run, seq, ws, we, wst, d)
            via = rng.choice(VIAS)
            if via in ("fcrl", "snv") and d[0] in "FTD" and not via_applies(d, ws, we, via):
                # aim the window at the object so that the chunk-relative constructors apply
                lo, hi = span_of(d)
                ws, we = max(0, lo - rng.randint(0, 2)), min(n, hi + rng.randint(0, 2))
            if via_applies(d, ws, we, via):
                yield from alt_ops(run, seq, ws, we, wst, d, via, full=True)
