"""C12 — GenBank export is faithful to an independent reader and to BioCantor's parsers."""
from harness import gen_c12 as GC
from harness.impl_genbank import impl_gb_op, enc_coll, enc_rec

DECOY_TWINS = {"quick": 0.02, "thorough": 0.05}     # engine: decoy twins (harness/decoy.py)
ID = "C12"
LEAN_MODULE = "BioCantor.Props.C12"
DESIGN_REF = "4/C12"
DRIVER = "drivers/C12.lean"
SPEC_DRIVER = "drivers/SpecC12.lean"
DRIVER_MODULES = ["BioCantor.Driver.Main", "BioCantor.Driver.Genbank"]
SPEC_DRIVER_MODULES = ["BioCantor.Driver.Main", "BioCantor.Driver.SpecGenbank"]
GEN_NEEDS = ["biotypes", "genbank_TranscriptFeatures", "genbank_NonCodingTranscriptFeatures", "genbank_GeneFeatures",
             "genbank_FeatureCollectionFeatures", "genbank_GeneIntervalFeatures", "genbank_FeatureIntervalFeatures",
             "genbank_KnownQualifiers", "genbank_MetadataFeatures", "genbank_GenBankParserType", "genbank_GenbankFlavor",
             "genbank_GENBANK_GENE_FEATURES"]
MODEL_OPS = {"gbw", "gbp", "gbrt", "gbm"}      # gbc: judged in Python against Bio.SeqIO, spec driver demands `ok clean`
CHUNK_OPS = ("gbwk", "gbrtk", "gbck")           # the same three legs for a collection built on a sequence chunk
ERR_CLASS = False
RULE = ("one case = one operation line.  gbw: one collection x flavour x force_strand x update_translations through the "
        "real collection_to_genbank / gene_to_feature up to the SeqFeatures handed to Bio.SeqIO.write (call intercepted; "
        "compared with Model.Gb.writeModel, judged by Spec.Gb.writeViolations incl. the independent-reader "
        "translation); gbrt: one collection x flavour x parser mode through real "
        "collection_to_genbank TEXT and real parse_genbank (compared with parseModel o writeModel, judged by "
        "Spec.Gb.rtViolations); gbc: one collection x flavour through text -> Bio.SeqIO (independent reader) -> "
        "clauses (a), parse_genbank x 3 modes -> clauses (b)(c); gbp / gbm: one feature list (documented layout + "
        "input-space mutations) through the real parser classes in one / all three modes.  Non-trivial: >= 1 coding or "
        "multi-exon transcript (gbw/gbrt/gbc), >= 2 records sharing a gene (gbp/gbm); distinct = distinct op lines")
EXHAUSTIVE_NOTE = ""
TRUSTED = ["Model/GenbankWrite.lean and Model/GenbankParse.lean are hand-written; tied to io/genbank/writer.py, "
           "io/genbank/parser.py, gene/*.py export_qualifiers by this run's correspondence (gbw, gbp, gbrt, gbm); the "
           "GenBank feature keys / qualifier names they hard-code are proved equal to the regenerated Gen.genbank_* "
           "tables (Props.C12.constants_match_generated); Gen.biotypes is regenerated",
           "Biopython 1.88: the GenBank text writer/reader (SeqIO) — the independent reader of clause (a) — and its "
           "codon tables; its text format is trusted (level_note)",
           "harness/shims.py (marshmallow post_dump, vcf stub, SeqFeature(strand=), nofuzzy_start/end)",
           "harness/impl_genbank.py check_pipeline: the Python statement of clauses (a)(b)(c) (mirror of "
           "Spec/Genbank.lean, which judges gbw / gbrt / gbm itself)"]
ASSUMPTIONS = ["single-strand gene models: all children of a gene / feature collection share one strand (+ or -); "
               "mixed strands and unstranded features are exercised only in the model correspondence (gbw)",
               "block lists are ascending, non-empty, non-overlapping (0-bp gaps included); a CDS lies inside its "
               "transcript's exon span",
               "round trip (gbrt, gbc-b): ONE transcript per gene (the parser documents that it keeps the first "
               "transcript feature of a multi-isoform gene); a coding transcript is not typed ncRNA/tRNA/rRNA/misc_RNA/"
               "tmRNA; identifiers over [A-Za-z0-9_.:-]; sorted mode is claimed on position-sorted files, locus-tag "
               "mode with unique effective locus tags (locus tag, else symbol, else gene id), hybrid mode with either "
               "(duplicate tags are documented to go to the Sorted parser)",
               "reader clauses (codon_start / translation) are claimed for CDSs read in ONE frame whose skipped bases lie "
               "inside the 5'-most block (a GenBank location cannot express a programmed frameshift; C05's T4 has the same "
               "guard), for sources that do not themselves carry /codon_start or /translation qualifiers, and for "
               "collections that have a sequence",
               "the transcript SYMBOL is documented to be read from /gene (= the gene's symbol); the transcript's own "
               "symbol is required to survive as the /transcript_name qualifier; /product is not written",
               "independent translation: Biopython extract + translate of whole codons from /codon_start with NCBI "
               "table 11 (prokaryotic) / 1 (eukaryotic); first codon -> M when it is an initiator of table 11 resp. ATG "
               "(BioCantor's DEFAULT table is documented as 'ATG only')",
               "locus_tag qualifiers hold exactly one value (gbp/gbm)"]


def impl(line):
    return impl_gb_op(line)


def nontrivial(line, ans):
    if not ans.startswith("ok"):
        return None
    t = line.split()
    if t[0] in ("gbw", "gbrt", "gbc") + CHUNK_OPS:
        # a coding transcript (a frame token) or a multi-exon block list
        if any(x in ("Z", "O", "T") for x in t):
            return line
        return None
    if t[0] in ("gbp", "gbm"):
        return line if ans.count("s:") >= 2 else None
    return None


# ------------------------------------------------------------------------------------------------------

def enc_recs(recs):
    return " ".join([str(len(recs))] + [enc_rec(ty, st, parts, list(q.items())) for ty, st, parts, q in recs])


RT_PROFILES = [
    # name, params
    ("sorted", dict(layout="sorted")),
    ("sorted-adj", dict(layout="sorted", p_adjacent=0.5)),
    ("sorted-sparse", dict(layout="sorted", identifiers="sparse", biotypes="differ")),
    ("sorted-none", dict(layout="sorted", biotypes="none", identifiers="sparse")),
    ("sorted-rna", dict(layout="sorted", biotypes="rna", p_coding=0.3)),
    ("sorted-alias", dict(layout="sorted", biotypes="alias")),
    ("sorted-fc", dict(layout="sorted", n_fc=1)),
    ("sorted-noframe", dict(layout="sorted", frame_offsets=False, max_exons=6, gene_len=90)),
    ("sorted-shuffled-tags", dict(layout="sorted", tags="shuffled", frame_offsets=False)),
    ("free", dict(layout="free", frame_offsets=False)),
    ("free-frames", dict(layout="free")),
    ("dup-tags", dict(layout="sorted", tags="dup", n_genes=3, frame_offsets=False)),
    ("one-gene", dict(layout="sorted", n_genes=1, max_exons=5, gene_len=120)),
]


def _count_coll(run, prefix, coll):
    for tag in GC.G.classify(coll):
        run.count(prefix + tag)


def small_layouts():
    """exhaustive small scope: one gene, all layouts of 1..2 exons on [0,7], every CDS clip, both strands, frames"""
    g = 7
    for k in (1, 2):
        def lay(k, lo):
            if k == 0:
                yield []
                return
            for s in range(lo, g):
                for e in range(s + 1, g + 1):
                    for rest in lay(k - 1, e):
                        yield [(s, e)] + rest
        for ex in lay(k, 0):
            yield ex, []
            lo, hi = ex[0][0], ex[-1][1]
            seen = []
            for a in range(lo, hi):
                for b in range(a + 1, hi + 1):
                    cds = GC.G.clip_blocks(ex, a, b)
                    if cds and cds not in seen:
                        seen.append(cds)
                        yield ex, cds


def small_coll(ex, cds, strand, sf):
    tx = dict(exon_starts=[s for s, _ in ex], exon_ends=[e for _, e in ex], strand=strand,
              cds_starts=[s for s, _ in cds] or None, cds_ends=[e for _, e in cds] or None,
              cds_frames=GC.G.frames_for(cds, strand, sf) if cds else None, qualifiers=None, is_primary_tx=False,
              transcript_id="t1", transcript_symbol="TS", transcript_type="protein_coding" if cds else "ncRNA",
              protein_id="p1" if cds else None, product=None, sequence_name="chr1")
    gene = dict(transcripts=[tx], gene_id="g1", gene_symbol="SYM", gene_type=tx["transcript_type"], locus_tag="LT_1",
                qualifiers=None, sequence_name="chr1")
    return dict(sequence_name="chr1", name=None, genes=[gene], feature_collections=[])


def cases(run):
    global EXHAUSTIVE_NOTE
    rng = run.rng
    quick = run.tier == "quick"
    EXHAUSTIVE_NOTE = ("gbrt/gbw: ONE gene, every layout of 1..2 non-empty ascending non-overlapping exons on [0,7] "
                       "(0-bp gaps included) x {non-coding, every distinct CDS clip [a,b)} x strand x start frame "
                       "0/1/2 x flavour (x the three parser modes for gbrt; sampled 1 in 4 in quick)")
    # ---- exhaustive small scope ---------------------------------------------------------------------------------
    seq10 = "ATGGTGCTTGAAT"[:10]
    k = 0
    for ex, cds in small_layouts():
        for strand in ("PLUS", "MINUS"):
            for sf in ((0, 1, 2) if cds else (0,)):
                k += 1
                if quick and k % 4 != run.seed % 4:
                    continue
                coll = small_coll(ex, cds, strand, sf)
                body = enc_coll(coll, seq10)
                run.count("small:" + ("coding" if cds else "noncoding"))
                for fl in "PE":
                    yield f"gbw {fl} 1 1 {body}"
                    for m in "SLH":
                        yield f"gbrt {fl} {m} {body}"
                    yield f"gbc {fl} 1 {body}"
    run.exhaustive = True
    # ---- generated collections: round trip and pipeline ------------------------------------------------------------
    per = 12 if quick else 160
    for name, p in RT_PROFILES:
        for _ in range(per):
            coll, seq = GC.gen_rt_collection(rng, p)
            body = enc_coll(coll, seq)
            _count_coll(run, "rt:", coll)
            run.count(f"rt-profile:{name}")
            run.count(f"rt-genes:{len(coll['genes'])}")
            for fl in "PE":
                for m in "SLH":
                    yield f"gbrt {fl} {m} {body}"
                yield f"gbc {fl} {rng.choice('01')} {body}"
                yield f"gbw {fl} 1 {rng.choice('01')} {body}"
    # ---- collections built on a sequence chunk: window x chunk strand, the three legs ---------------------------------
    # small scope: the one-gene layouts above under windows of [0,10) (all of them in the thorough tier)
    k = 0
    for ex, cds in small_layouts():
        for strand in ("PLUS", "MINUS"):
            for sf in ((0, 1, 2) if cds else (0,)):
                k += 1
                if quick and k % 24 != run.seed % 24:
                    continue
                body = enc_coll(small_coll(ex, cds, strand, sf), seq10)
                # windows holding a base of the exons (and of the CDS); 1 in 12 of the others (documented refusal)
                wins = [(a, b) for a in range(0, 9) for b in range(a + 1, 10)
                        if (any(max(s, a) < min(e, b) for s, e in ex) and
                            (not cds or any(max(s, a) < min(e, b) for s, e in cds))) or (a + b + k) % 12 == 0]
                if quick:
                    wins = rng.sample(wins, 1)
                elif k % 8 != run.seed % 8:
                    wins = rng.sample(wins, 3)
                for ws, we in wins:
                    run.count("chunk-small")
                    for fl in "PE":
                        yield f"gbwk {fl} 1 1 {ws} {we} + {body}"
                        yield f"gbck {fl} 1 {ws} {we} + {body}"
                        yield f"gbrtk {fl} {rng.choice('SLH')} {ws} {we} + {body}"
    for name, p in RT_PROFILES:
        for _ in range(7 if quick else 120):
            coll, seq = GC.gen_rt_collection(rng, p)
            ws, we, kind = GC.gen_window(rng, coll, len(seq))
            coll = GC.restrict_to_window(rng, coll, ws, we, 0.08)
            if not coll["genes"] and not coll["feature_collections"]:
                run.count("chunk:nothing-in-window")
                continue
            wst = "-" if rng.random() < 0.06 else "+"
            win = f"{ws} {we} {wst}"
            body = enc_coll(coll, seq)
            run.count(f"chunk-window:{kind}")
            run.count(f"chunk-strand:{wst}")
            _count_coll(run, "chunk:", coll)
            for fl in "PE":
                for m in "SLH":
                    yield f"gbrtk {fl} {m} {win} {body}"
                yield f"gbck {fl} {rng.choice('011')} {win} {body}"
                yield f"gbwk {fl} {rng.choice('01')} {rng.choice('011')} {win} {body}"
    # anything the writer accepts (several isoforms, mixed strands, programmed frameshifts) on a chunk
    for _ in range(120 if quick else 2500):
        p = dict(n_fc=rng.choice([0, 0, 1, 2]), mixed_strands=rng.random() < 0.2, max_tx=rng.choice([1, 2, 3]))
        coll, seq = GC.gen_w_collection(rng, p)
        ws, we, kind = GC.gen_window(rng, coll, len(seq))
        coll = GC.restrict_to_window(rng, coll, ws, we, 0.05)
        if not coll["genes"] and not coll["feature_collections"]:
            continue
        run.count(f"chunk-w-window:{kind}")
        wst = "-" if rng.random() < 0.06 else "+"
        yield f"gbwk {rng.choice('PE')} {rng.choice('01')} {rng.choice('01')} {ws} {we} {wst} {enc_coll(coll, seq)}"
    # ---- generated collections: everything the writer accepts (model correspondence + clause (a) where in scope) ----
    for _ in range(250 if quick else 4000):
        p = dict(n_fc=rng.choice([0, 0, 1, 2]), mixed_strands=rng.random() < 0.3, max_tx=rng.choice([1, 2, 3]))
        coll, seq = GC.gen_w_collection(rng, p)
        _count_coll(run, "w:", coll)
        run.count("w:mixed" if p["mixed_strands"] else "w:single-strand")
        fl, force, trans = rng.choice("PE"), rng.choice("01"), rng.choice("01")
        yield f"gbw {fl} {force} {trans} {enc_coll(coll, seq if rng.random() < 0.9 else None)}"
    # ---- feature lists: the parser on the documented layout and on mutated lists ---------------------------------------
    for _ in range(250 if quick else 4000):
        p = dict(rng.choice(RT_PROFILES)[1])
        p["p_adjacent"] = rng.choice([0.0, 0.0, 0.4])
        coll, _seq = GC.gen_rt_collection(rng, p)
        fl = rng.choice("PE")
        recs = GC.ref_records(coll, fl, codon_start=rng.random() < 0.8)
        nm = rng.choice([0, 0, 1, 1, 2, 3])
        kinds = [rng.choice(GC.MUTATION_KINDS) for _ in range(nm)]
        recs = GC.mutate_records(rng, recs, kinds)
        for kd in kinds or ["none"]:
            run.count(f"recs-mutation:{kd}")
        body = enc_recs(recs)
        yield f"gbm {body}"
        for m in "SLH":
            yield f"gbp {m} {body}"
    # every mutation kind on its own, on a few documented layouts (no kind is left to chance)
    for _ in range(6 if quick else 40):
        p = dict(rng.choice(RT_PROFILES)[1])
        coll, _seq = GC.gen_rt_collection(rng, p)
        for fl in "PE":
            base = GC.ref_records(coll, fl, codon_start=True)
            for kd in GC.MUTATION_KINDS:
                recs = GC.mutate_records(rng, base, [kd])
                run.count(f"recs-mutation-sweep:{kd}")
                body = enc_recs(recs)
                yield f"gbm {body}"
                for m in "SLH":
                    yield f"gbp {m} {body}"
    # small type sequences: every sequence of <= 4 records over {gene, mRNA, CDS, tRNA, exon} at increasing starts with
    # one tag / two tags / no tag  (the grouping state machines)
    import itertools
    types = ["gene", "mRNA", "CDS", "tRNA", "exon"]
    n = 0
    for ln in (1, 2, 3, 4):
        for tys in itertools.product(types, repeat=ln):
            n += 1
            if quick and (n + run.seed) % 6:
                continue
            for tagging in ("one", "two", "none"):
                recs = []
                for i, ty in enumerate(tys):
                    q = {}
                    if tagging == "one":
                        q["locus_tag"] = ["A"]
                    elif tagging == "two":
                        q["locus_tag"] = ["A" if i < (ln + 1) // 2 else "B"]
                    recs.append((ty, "+", [(3 * i, 3 * i + 9)], q))
                body = enc_recs(recs)
                run.count(f"typeseq:{ln}")
                yield f"gbm {body}"
                for m in "SLH":
                    yield f"gbp {m} {body}"
