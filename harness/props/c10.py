"""C10 — answers do not depend on call history; operations never change their operands."""
import random

from harness import gen_objects as G
from harness import shims
from harness.impl_history import (impl_history_op, call_table, is_export, isolation_mode, cold, FLAG_SETTERS,
                                  CHROMOSOME_LEVEL, introspected)
from harness import impl_operands as O

DECOY_TWINS = {"quick": 0.02, "thorough": 0.05}     # engine: decoy twins (harness/decoy.py)
ID = "C10"
# the codon objects are process-wide singletons: their answers must not depend on what was constructed (or refused)
# before - C15's codon histories (every construction made twice, registry-saturating prefixes) are C10's subject too
def _is_relaxed_first(line):
    return line.endswith(" @x")


BORROW = [dict(prop="c15", max=700, ops={"hist", "fhist"},
               why="C10: answers of Codon objects after other spellings were constructed / refused, registry saturation"),
          dict(prop="c02", max=2500, ops={"overlap", "isect", "contains", "union", "unionpo", "minus"}, pick=_is_relaxed_first,
               why="C10: a strict parent comparison asked right after the relaxed comparison of the same operands "
                   "(C02's ` @x` twins: operands on parents that differ in sequence / grand-parent)")]
LEAN_MODULE = "BioCantor.Props.C10"
DESIGN_REF = "4/C10"
DRIVER = "drivers/C10.lean"
SPEC_DRIVER = "drivers/SpecC10.lean"
DRIVER_MODULES = ["BioCantor.Driver.Main", "BioCantor.Driver.Cache"]
SPEC_DRIVER_MODULES = ["BioCantor.Driver.Main", "BioCantor.Driver.SpecCache"]
GEN_NEEDS = ["parentCacheSize", "PARENT_CACHE_SIZE"]
MODEL_OPS = {"lru", "plru", "memo", "lazyloc", "pstrand", "cdshist", "merge", "export"}
ERR_CLASS = True
RULE = ("(a) cache discipline: every key sequence over <= 3 keys of length <= 6 for capacities 0..3 (exhaustive), random "
        "sequences with capacity 1..8, per-object memo tables with 3 objects, and the REAL Parent cache driven past its "
        "capacity (> 1000 distinct Parents; hit/miss/eviction pattern from Parent.cache_info()); (b) lazily filled "
        "attributes and Parent.strand read repeatedly; (c) CDS histories over {list codons, count codons, extract_sequence, "
        "has_valid_stop} (all words of length <= 4, exhaustive) and qualifier merges; (d) histories of 30-40 read-only "
        "questions (every public property / attribute / argument-less method found by introspection + a table of calls "
        "with arguments) on each of 10 object kinds x 4 parent modes x 2 spellings of sequence types, interleaved with "
        "fillers (P<n> unrelated Parents incl. > cache size = eviction, W twin, X cache_clear, S near-identical siblings "
        "that are asked the same questions, T:s/T:e other spelling), every answer (canonical value + Python type) compared "
        "with a freshly built twin asked that single question under cold caches in a pristine forked process; "
        "operands snapshotted (to_dict, guid, hash, == fresh twin, str, qualifiers of all children) before/after. "
        "A guaranteed share of the histories is on CDS / transcript / gene / collection recipes whose chunk window cuts the "
        "(primary) CDS (3 cut sides x 2 spellings x 4 kinds); 60% of those read the flag-setting accessors "
        "(num_chunk_relative_codons, chunk_relative_codon_locations) FIRST and then every chromosome-level / object-level "
        "question (num_codons, chromosome_codon_locations, translate, extract_sequence, has_valid_stop, to_dict, guid, ...). "
        "(e) operations WITH ARGUMENTS (`warm`): every entry of the operation table of a kind (the whole call table + "
        "reset_parent onto a parent with the same id but other bases / another id / the chromosome, reset_strand x3, "
        "shift_position, extend_*, blocks[i], set operations and relations in BOTH operand orders, slicing, append, "
        "reverse_complement chains, liftover / from_dict onto other bases, from_location, Parent(...) over the object) is "
        "applied to a cold fresh operand and to an operand that — and/or whose arguments — was first asked every "
        "argument-less question; the RESULT (elements of list results too) is asked every public property / "
        "argument-less method incl. extract_sequence, str, hash, len; digests of the answer records must coincide and "
        "the snapshot of operand + arguments must equal the pristine one; 10 kinds x 4 modes + recipes with inherited "
        "qualifier keys + chunk-cut recipes, locations on 3 seeds per run; (f) arguments are operands (`args`): every call "
        "taking dict / list / set / object arguments (export_qualifiers / to_gff / _merge_qualifiers with parent qualifiers "
        "that ALREADY contain every key of BioCantorQualifiers the child lacks, a key the child has, both, or nothing; "
        "constructors with caller-held lists / dicts; from_dict; intersect(new_qualifiers); query_by_* with lists and sets; "
        "to_bed12(rgb); set operations; liftover) — deep snapshot of arguments and receiver before/after, result of a "
        "second identical call and of a fresh twin, mutable containers shared between result and arguments / receiver; "
        "The args / warm tables are closed against introspection: every public method / classmethod / staticmethod with >= 1 "
        "argument (+ constructor, + the library's own dunder methods with arguments) of SingleInterval, CompoundInterval, "
        "EmptyLocation, Parent, Sequence, CDSInterval, TranscriptInterval, FeatureInterval, GeneInterval, "
        "FeatureIntervalCollection, AnnotationCollection, VariantInterval, VariantIntervalCollection is in a table "
        "(`arg_method_inventory` / `uncovered_methods` in the evidence): from_dict of every class incl. "
        "AnnotationCollection.from_dict(to_dict(export_parent=True)) on chromosome-with-id / chunk / parent-less "
        "collections, incorporate_variants with a VariantInterval and a VariantIntervalCollection (7 placement x type "
        "combinations: before / inside / after the member that ends first / after all members; SNV, insertion, deletion) on "
        "feature / CDS / transcript / gene / feature collection / annotation collection, from_location / "
        "from_chunk_relative_location / initialize_location / liftover_location_to_seq_chunk_parent / "
        "construct_frames_from_location with caller-held lists and locations, lift_over_location, constructors with child "
        "lists (variant collections included), 3 further kinds (empty location, variant, variant collection); the receiver "
        "reading includes every child's location with its whole parent chain (ids, types, bases) and dictionary form; "
        "(g) generator-returning GFF3 exports (`lazy`) rendered row by row vs after exhaustion vs again vs on twins, on "
        "recipes whose parent level carries the keys the children add identifiers under (>= 2 coding transcripts with "
        "distinct ids / protein ids / products); (h) `export`: CDSInterval.export_qualifiers(parent_qualifiers) with own / "
        "parent dictionaries over {7, protein_id, product} (exhaustive) — result, own and ARGUMENT read back. "
        "non-trivial = a history with >= 20 calls of which >= 1 is memoised/lazy and that contains a cache filler, or a "
        "cache-discipline line in which an eviction happens, a warm line in which >= 1 derived object was questioned, an "
        "args line whose call returned, a lazy line with >= 1 row; distinct = distinct lines")
EXHAUSTIVE_NOTE = ("lru: all key sequences of length 1..6 over 3 keys x capacity 0..3; cdshist: all words of length <= 4 (<= 3 on "
                   "two of the chromosome layouts) over {c,n,e,v,N} (list codons, num_chunk_relative_codons, extract_sequence, "
                   "has_valid_stop, num_codons) on 4 chromosome-parented CDS layouts and 6 layouts on a sequence chunk that CUTS "
                   "the CDS (low / high / both sides, both strands, 1-3 exons); merge: all own/other dictionaries over 2 keys x "
                   "value subsets of {1,2}; hist pair sweep: on chunk-cut CDS / transcript / gene recipes one accessor first, then "
                   "every argument-less question; export: all own dictionaries over {7, protein_id} x parent dictionaries over "
                   "{7, protein_id, product} x 6 identifier sets; warm / args: EVERY entry of the operation / call tables of "
                   "every kind x mode (enum spelling) at least once per run")
TRUSTED = ["Model/Cache.lean is hand-written; its LRU discipline is tied to CPython's functools.lru_cache, to methodtools and "
           "to the real Parent cache by this run's correspondence (hit/miss/eviction patterns)",
           "Gen.parentCacheSize regenerated from parent/parent.py",
           "harness/impl_history.py canonicalisation of answers; harness/shims.py (gene.* imports io.*)",
           "harness/impl_operands.py: sha1 digests of canonical answer records (warm / args / lazy lines); the spec driver "
           "judges equality of the recorded digests (Spec.Cache.okWarm / okArgs / okLazy)"]
ASSUMPTIONS = ["the memoised Python functions are pure functions of the constructor data (established by the other "
               "properties' models; sampled here by the twin comparison)",
               "hash()/== of cache keys are deterministic within a process (str hashing is salted per process only)",
               "T4 takes the extensional equality of the two extract_sequence paths as a hypothesis (C05's theorem)",
               "T6 is about operations that end in a constructor call on data computed from the operands' constructor data "
               "(Model.Cache §6); that each real operation has this shape is sampled by the `warm` lines",
               "warm / args / lazy lines use recipes that spell sequence types as enum members (spelling = F-C10c, hist lines)"]

KINDMODES = [f"{k}.{m}.{sp}" for sp in "es" for k in G.KINDS for m in G.MODES]
# kinds that exist for the argument / operand legs (empty location, variant, variant collection)
EXTRA_KINDMODES = [f"empty.{m}.e" for m in ("none", "chrom")] + [f"{k}.{m}.e" for k in G.VARIANT_KINDS for m in G.MODES]
# sequence chunk that CUTS the (primary) CDS on the low / high coordinate side or both (5' or 3' by strand)
CUT_KINDMODES = [f"{k}.chunk.{sp}.{cut}" for sp in "es" for k in G.CUT_KINDS for cut in G.CUTS]
CDS_PREFIX = {"cds": "", "transcript": "cds.", "gene": "cds0.", "annot": "cds0."}
OBJECT_LEVEL = ["to_dict", "guid", "__hash__", "__eq__:twin", "get_cds_sequence", "get_protein_sequence",
                "get_primary_cds_sequence", "get_primary_protein", "get_primary_cds", "cds_size", "chunk_relative_cds_size",
                "has_in_frame_stop", "to_gff", "to_bed12", "__str__"]


def impl(line):
    return impl_history_op(line)


def nontrivial(line, ans):
    t = line.split()
    if t[0] == "warm":          # at least one derived OBJECT was asked the full question list
        m = [x for x in ans.split() if x.startswith("objs=")]
        return line if m and int(m[0][5:]) > 0 else None
    if t[0] == "args":          # the call returned (did not raise) on the object and on the twin
        return line if ans.startswith("ok ") else None
    if t[0] == "lazy":          # at least one row was exported
        a = ans.split()
        return line if len(a) > 2 and not a[2].startswith("0:") else None
    if t[0] == "hist":
        calls = [x for x in t[3:] if not _is_filler(x)]
        return line if len(calls) >= 20 and len(calls) < len(t) - 3 else None
    if t[0] in ("lru", "plru", "memo"):
        return line if "E" in ans else None
    if t[0] == "cdshist":
        return line if len(t[4]) >= 2 else None
    return line if ans.startswith("ok") else None


def _is_filler(x):
    return x in ("T:s", "T:e", "W", "X", "S") or (x[0] == "P" and x[1:].isdigit())


# ----------------------------------------------------------------------------------------------
# generators

def _seqs(alphabet, n):
    if n == 0:
        yield []
        return
    for s in _seqs(alphabet, n - 1):
        for a in alphabet:
            yield s + [a]


def lru_cases(run):
    rng = run.rng
    for cap in range(0, 4):
        for n in range(1, 7):
            for ks in _seqs([1, 2, 3], n):
                yield f"lru {cap} {n} " + " ".join(map(str, ks))
    run.exhaustive = True
    for _ in range(300 if run.tier == "quick" else 6000):
        cap = rng.randint(1, 8)
        nk = rng.randint(1, cap + 4)
        n = rng.randint(5, 60)
        ks = [rng.randint(-2, nk) for _ in range(n)]
        run.count("lru:random")
        yield f"lru {cap} {n} " + " ".join(map(str, ks))
    for _ in range(150 if run.tier == "quick" else 3000):
        cap = rng.randint(0, 4)
        n = rng.randint(4, 40)
        calls = [(rng.randint(0, 2), rng.randint(0, cap + 2)) for _ in range(n)]
        run.count("memo:random")
        yield f"memo {cap} {n} " + " ".join(f"{o} {k}" for o, k in calls)


def plru_cases(run):
    """the real Parent cache: stay below capacity, exactly at capacity, past it (eviction), and re-ask evicted keys"""
    from inscripta.biocantor.parent import parent as pm
    cap = pm.PARENT_CACHE_SIZE
    rng = run.rng
    yield f"plru {cap} 6 1 2 1 3 2 1"
    base = list(range(cap))
    yield f"plru {cap} {cap + 3} " + " ".join(map(str, base + [0, 1, cap - 1]))                     # full, no eviction
    yield f"plru {cap} {cap + 4} " + " ".join(map(str, base + [cap, 0, 1, cap]))                    # one eviction: key 0 gone
    yield f"plru {cap} {cap + 5} " + " ".join(map(str, base + [0, cap, 0, 1, 2]))                   # 0 refreshed: key 1 evicted
    for _ in range(3 if run.tier == "quick" else 40):
        n = cap + rng.randint(50, 600)
        ks = []
        for i in range(n):
            r = rng.random()
            if r < 0.7 or not ks:
                ks.append(i)
            elif r < 0.85:
                ks.append(rng.choice(ks[-20:]))        # recent: hit
            else:
                ks.append(rng.choice(ks))              # anywhere: hit or evicted
        run.count("plru:random")
        yield f"plru {cap} {len(ks)} " + " ".join(map(str, ks))


def lazy_cases(run):
    rng = run.rng
    layouts = [[(0, 5), (3, 8)], [(0, 5), (5, 8)], [(3, 8), (0, 5)], [(0, 9), (2, 4), (6, 7)], [(1, 1), (1, 4)]]
    for bl in layouts:
        for st in "+-.":
            for rs in _seqs(["ov", "bl"], 3):
                yield f"lazyloc {st} {len(bl)} " + " ".join(f"{a} {b}" for a, b in bl) + f" 3 " + " ".join(rs)
    for _ in range(60 if run.tier == "quick" else 1500):
        k = rng.randint(1, 5)
        bl = [(a, a + rng.randint(0, 9)) for a in (rng.randint(0, 30) for _ in range(k))]
        m = rng.randint(1, 6)
        yield f"lazyloc {rng.choice('+-.')} {k} " + " ".join(f"{a} {b}" for a, b in bl) + f" {m} " + \
            " ".join(rng.choice(["ov", "bl"]) for _ in range(m))
    for sa in "+-.N":
        yield f"pstrand {sa} N 3"
        for ls in "+-.":
            for ln in (0, 4):
                yield f"pstrand {sa} {ls} {ln} 3"


def _revcomp(s):
    return s[::-1].translate(str.maketrans("ACGT", "TGCA"))


def cds_literal(rng, strand, k, stop=True):
    """CDS with start frame 0 on a random genome; returns (letters, literal tokens)"""
    L = 40 + 12 * k
    pts = sorted(rng.sample(range(2, L - 2), 2 * k))
    blocks = [(pts[2 * i], pts[2 * i + 1]) for i in range(k)]
    genome = [rng.choice("ACGT") for _ in range(L)]
    spliced = "".join("".join(genome[s:e]) for s, e in blocks)
    n3 = len(spliced) - len(spliced) % 3
    if stop and n3 >= 3:
        # plant a stop codon at the end of the in-frame part
        codon = "TAA"
        flat = [p for s, e in blocks for p in range(s, e)]
        if strand == "+":
            for p, ch in zip(flat[n3 - 3:n3], codon):
                genome[p] = ch
        else:
            rc = _revcomp(codon)
            # minus strand: the coding sequence is the reverse complement; its last codon covers the first 3 positions
            # that remain after trimming from the 3' end (= lowest coordinates after the offset)
            rem = len(flat) % 3
            for p, ch in zip(flat[rem:rem + 3], rc):
                genome[p] = ch
    genome = "".join(genome)
    spliced = "".join(genome[s:e] for s, e in blocks)
    if strand == "-":
        spliced = _revcomp(spliced)
    letters = spliced[:len(spliced) - len(spliced) % 3]
    lit = f"{strand} {k} " + " ".join(f"{s} {e}" for s, e in blocks) + f" {genome}"
    return letters, lit


def cut_literal(rng, strand, k, cut):
    """CDS (>= 24 bases, start frame 0) on a sequence chunk whose window CUTS it on the low / high coordinate side or
    both.  The three reference numbers are what FRESHLY BUILT real objects answer (one object per question): what the
    codons of a cut CDS are is C05/C07's business, C10 only demands that the answers do not depend on the history."""
    from harness.impl_history import build_cds_literal, cold
    for _ in range(200):
        letters, lit = cds_literal(rng, strand, k, stop=False)
        t = lit.split()
        blocks = [(int(t[2 + 2 * j]), int(t[3 + 2 * j])) for j in range(k)]
        flat = [p for s, e in blocks for p in range(s, e)]
        if len(flat) < 24:
            continue
        a = rng.randint(3, 8) if cut in ("lo", "both") else 0
        b = rng.randint(3, 8) if cut in ("hi", "both") else 0
        cs = flat[a] if a else max(0, flat[0] - 1)
        ce = flat[len(flat) - 1 - b] + 1 if b else flat[-1] + 2
        lit = f"{lit} {cs} {ce}"
        toks = lit.split()
        try:
            cold()
            seq = str(build_cds_literal(toks, 0).extract_sequence())
            cold()
            nchunk = build_cds_literal(toks, 0).num_chunk_relative_codons
            cold()
            total = build_cds_literal(toks, 0).num_codons
        except Exception:  # noqa  (a layout the library refuses is not a history question)
            continue
        if nchunk < total and seq:
            return seq, nchunk, total, lit
    raise RuntimeError("no chunk-cut CDS layout found")


def cds_cases(run):
    rng = random.Random(1234)        # the exhaustive part does not depend on the seed
    plain = [cds_literal(rng, "+", 1), cds_literal(rng, "-", 2), cds_literal(rng, "+", 3, stop=False),
             cds_literal(rng, "-", 1, stop=False)]
    layouts = [(letters, len(letters) // 3, len(letters) // 3, lit, 4 if i < 2 else 3)
               for i, (letters, lit) in enumerate(plain) if letters]
    # the chunk cuts the CDS: 5' / 3' / both, both strands, single- and multi-exon
    for strand, k, cut in (("+", 1, "lo"), ("+", 3, "hi"), ("-", 2, "lo"), ("-", 1, "hi"), ("+", 2, "both"), ("-", 3, "both")):
        layouts.append(cut_literal(rng, strand, k, cut) + (4,))
        run.count("cdshist:cut-layout")
    for letters, nchunk, total, lit, depth in layouts:
        for n in range(1, depth + 1):
            for w in _seqs(list("cnevN"), n):
                yield f"cdshist {letters} {nchunk} {total} {''.join(w)} {lit}"
    rng = run.rng
    for _ in range(80 if run.tier == "quick" else 2000):
        if rng.random() < 0.5:
            letters, nchunk, total, lit = cut_literal(rng, rng.choice("+-"), rng.randint(1, 4), rng.choice(["lo", "hi", "both"]))
            run.count("cdshist:random-cut")
        else:
            letters, lit = cds_literal(rng, rng.choice("+-"), rng.randint(1, 4), stop=rng.random() < 0.5)
            nchunk = total = len(letters) // 3
            if not letters:
                continue
            run.count("cdshist:random")
        w = "".join(rng.choice("cnevN") for _ in range(rng.randint(1, 8)))
        yield f"cdshist {letters} {nchunk} {total} {w} {lit}"


def _qd(d):
    return f"{len(d)}" + "".join(f" {k} {len(v)}" + "".join(f" {x}" for x in v) for k, v in d)


def merge_cases(run):
    subsets = [[], [1], [2], [1, 2]]
    dicts = [[]] + [[(7, a)] for a in subsets[1:]] + [[(8, a)] for a in subsets[1:]] + \
            [[(7, a), (8, b)] for a in subsets[1:] for b in subsets[1:]]
    for own in dicts:
        for other in dicts:
            yield f"merge {_qd(own)} {_qd(other)}"
    rng = run.rng
    for _ in range(100 if run.tier == "quick" else 3000):
        def rd():
            keys = rng.sample(range(1, 6), rng.randint(0, 4))
            return [(k, rng.sample(range(1, 7), rng.randint(1, 4))) for k in keys]
        yield f"merge {_qd(rd())} {_qd(rd())}"


def export_cases(run):
    """`CDSInterval.export_qualifiers(parent_qualifiers)`: own / parent dictionaries over the keys {7, protein_id, product}
    (exhaustive over small value sets) x which identifiers the CDS carries; the ARGUMENT is read back after the call"""
    vals_own = [[1], [2], [1, 2]]
    vals_other = [[1], [1, 3]]

    def dicts(keys, vals):
        out = [[]]
        for k in keys:
            out = [d + e for d in out for e in [[]] + [[(k, v)] for v in vals]]
        return out
    for own in dicts([7, 100], vals_own):
        for other in dicts([7, 100, 101], vals_other):
            for ids in ([], [(100, 1)], [(100, 4)], [(101, 5)], [(100, 4), (101, 5)], [(100, 1), (101, 3)]):
                yield f"export {_qd(own)} {_qd(other)} {len(ids)}" + "".join(f" {k} {v}" for k, v in ids)
    rng = run.rng
    for _ in range(100 if run.tier == "quick" else 3000):
        def rd():
            keys = rng.sample([1, 2, 3, 100, 101], rng.randint(0, 4))
            return [(k, rng.sample(range(1, 7), rng.randint(1, 4))) for k in keys]
        ids = [(k, rng.randint(1, 8)) for k in (100, 101) if rng.random() < 0.7]
        yield f"export {_qd(rd())} {_qd(rd())} {len(ids)}" + "".join(f" {k} {v}" for k, v in ids)


_TABLE_CACHE = {}


def tokens_for(kindmode):
    """the call tokens of a kind (introspection of the real class + the argument table); shape does not depend on seed"""
    kindmode = ".".join(kindmode.split(".")[:3])         # a chunk-cut recipe has the same calls
    if kindmode not in _TABLE_CACHE:
        kind, mode, sp = kindmode.split(".")
        r = G.make(kind, random.Random(0), mode, sp)
        _TABLE_CACHE[kindmode] = sorted(call_table(r, r.build()))
    return _TABLE_CACHE[kindmode]


_METHOD_CACHE = {}


def method_tokens(kindmode):
    """the tokens of a kind that CALL something: every public method (argument-less ones included: optimize_blocks,
    gap_list, merge_overlapping, reverse_strand, ...) and every call with arguments / derived object — as opposed to
    reading a property or a data attribute"""
    km = ".".join(kindmode.split(".")[:3])
    if km not in _METHOD_CACHE:
        kind, mode, sp = km.split(".")
        r = G.make(kind, random.Random(0), mode, sp)
        intro = introspected(r.build())
        _METHOD_CACHE[km] = [t for t in tokens_for(km) if not t.endswith(":shared") and
                             (":" in t or t.startswith("__") or intro.get(t, ("method",))[0] == "method")]
    return _METHOD_CACHE[km]


# small multi-block layouts: zero-length, duplicate, nested, adjacent and overlapping blocks
SMALL_BLOCKS = [(a, b) for a in range(4) for b in range(a, 4)]
LAYOUTS3 = [[(0, 5), (3, 3), (6, 8)], [(0, 4), (2, 2), (2, 2)], [(0, 2), (2, 4), (4, 4)], [(1, 1), (1, 3), (3, 3)],
            [(0, 3), (1, 2), (1, 2)], [(0, 0), (0, 0), (0, 2)], [(0, 4), (1, 3), (2, 2)], [(0, 1), (1, 1), (1, 2)],
            [(2, 2), (0, 3), (5, 6)], [(0, 2), (4, 6), (5, 5)]]


def _lit(blocks, strand):
    return "L" + {"+": "p", "-": "m", ".": "u"}[strand] + "_".join(f"{a}-{b}" for a, b in blocks)


def _degenerate(blocks):
    """a zero-length block that touches another block, or a duplicate / nested block"""
    for i, (a, b) in enumerate(blocks):
        for j, (c, d) in enumerate(blocks):
            if i != j and c <= a and b <= d and (a == b or (c, d) == (a, b) or (c < a or b < d)):
                return True
    return False


def layout_cases(run):
    """(a) compound locations with degenerate block lists, (b) histories in which ONE call (any public method, with or
    without arguments, any operation with another operand, any derived object) comes first and every argument-less
    question follows, compared with fresh twins: a public method that fills a lazily computed field as a by-product —
    with a value the accessor itself would not compute — shows on the layouts where the two computations disagree."""
    rng = run.rng
    quick = run.tier == "quick"
    from inscripta.biocantor.parent import parent as pm
    cap = pm.PARENT_CACHE_SIZE
    # random degenerate layouts, ordinary random histories
    for mode in G.MODES:
        km = f"compound.{mode}.e.deg"
        for _ in range(8 if quick else 150):
            seed = rng.randint(0, 10 ** 6)
            h, flavour = history(rng, km, cap)
            run.count("hist:compound.deg")
            yield f"hist {km} {seed} " + " ".join(h)
    # literal small layouts: all multisets of 2 blocks over the coordinates 0..3, curated 3-block layouts
    two = [[SMALL_BLOCKS[i], SMALL_BLOCKS[j]] for i in range(len(SMALL_BLOCKS)) for j in range(i, len(SMALL_BLOCKS))]
    layouts = [(bl, st) for bl in two for st in "+-"] + [(bl, st) for bl in LAYOUTS3 for st in "+-."]
    layouts += [(bl[::-1], "+") for bl in LAYOUTS3[:4]]                # the caller's order is not the coordinate order
    noarg = [t for t in tokens_for("compound.chrom.e") if ":" not in t]
    methods = method_tokens("compound.chrom.e")
    full = [(bl, st) for i, (bl, st) in enumerate(layouts) if len(bl) == 3 and st == "+-"[(i // 3) % 2]]
    full += rng.sample([(bl, st) for bl, st in layouts if len(bl) == 2 and _degenerate(bl)], 6)
    for n, (bl, st) in enumerate(layouts):
        km = f"compound.{'chrom' if n % 2 else 'none'}.e.{_lit(bl, st)}"
        seed = rng.randint(0, 10 ** 6)
        if not quick or (bl, st) in full:
            firsts = [[m] for m in methods]                                     # the whole pair sweep
        else:
            firsts = [rng.sample(methods, 2) for _ in range(2)]
        for first in firsts:
            rest = list(noarg)
            rng.shuffle(rest)
            run.count("hist:layout-sweep" + (":degenerate" if _degenerate(bl) else ""))
            yield f"hist {km} {seed} " + " ".join(first + rest)
    # point maps on layouts whose blocks OVERLAP: every ordered pair of position questions (a walk that remembers where
    # the previous question ended must answer the next one like a fresh object)
    def _overlapping(bl):
        b = sorted(bl)
        return any(b[i][1] > b[i + 1][0] for i in range(len(b) - 1))
    pts = [t for t in tokens_for("compound.chrom.e") if t.startswith(("parent_to_relative_pos:", "relative_to_parent_pos:"))]
    ov = [(bl, st) for bl, st in layouts if st in "+-" and _overlapping(bl)]
    for bl, st in (ov if not quick else ov[:10]):
        km = f"compound.none.e.{_lit(bl, st)}"
        seed = rng.randint(0, 10 ** 6)
        for x in pts:
            for y in pts:
                run.count("hist:point-pairs-on-overlapping-blocks")
                yield f"hist {km} {seed} {x} {y}"
    # the same shape for every kind: one (or two) calling tokens first, then every argument-less question
    for km in [k for k in KINDMODES if k.endswith(".e")] + EXTRA_KINDMODES + [f"compound.{m}.e.deg" for m in G.MODES]:
        ms = method_tokens(km)
        na = [t for t in tokens_for(km) if ":" not in t]
        picks = ms if not quick else rng.sample(ms, min(len(ms), 6))
        seed = rng.randint(0, 10 ** 6)
        for m in picks:
            rest = list(na)
            rng.shuffle(rest)
            run.count("hist:method-first")
            yield f"hist {km} {seed} {m} " + " ".join(rest)


def flag_first(rng, kindmode, n):
    """history that FIRST reads the accessors that set `_chunk_relative_codon_locations_cached` on the (primary) CDS and
    THEN asks every chromosome-level / object-level question (num_codons, chromosome_codon_locations, translate,
    extract_sequence, has_valid_stop, to_dict, guid, ...), with other calls interleaved"""
    kind = kindmode.split(".")[0]
    toks = tokens_for(kindmode)
    have = set(toks)
    pre = CDS_PREFIX[kind]
    flags = [pre + x for x in FLAG_SETTERS if pre + x in have]
    later = [pre + x for x in CHROMOSOME_LEVEL if pre + x in have] + [x for x in OBJECT_LEVEL if x in have and pre]
    plain = [t for t in toks if not t.endswith(":shared")]
    hist = rng.sample(flags, rng.randint(1, len(flags)))
    rng.shuffle(later)
    for x in later:
        if rng.random() < 0.3:
            hist.append(rng.choice(plain))
        hist.append(x)
    while len(hist) < n:
        hist.insert(rng.randint(len(flags), len(hist)), rng.choice(plain + flags + later))
    # some histories ask a chromosome-level question BEFORE as well (memoised value must survive the flag)
    if rng.random() < 0.3:
        hist.insert(0, rng.choice(later))
    return hist


def history(rng, kindmode, cap, n_calls=None, flavour=None):
    """one random history: permutation with repetitions of call tokens + fillers"""
    toks = tokens_for(kindmode)
    plain = [t for t in toks if not t.endswith(":shared")]
    n = n_calls or rng.randint(30, 40)
    parts = kindmode.split(".")
    if flavour is None and parts[0] in CDS_PREFIX:
        p_flag = 0.6 if len(parts) > 3 else 0.3 if parts[1] == "chunk" else 0.1
        if rng.random() < p_flag:
            flavour = "flagfirst"
    flavour = flavour or rng.choice(["mixed", "mixed", "repeat", "exports", "evict", "spelling", "shared", "siblings"])
    if flavour == "flagfirst":
        hist = flag_first(rng, kindmode, n)
        for f in [rng.choice(["W", "X", f"P{rng.randint(1, 40)}", "S", f"P{cap + 3}"]) for _ in range(rng.randint(0, 2))]:
            hist.insert(rng.randrange(len(hist) + 1), f)
        return hist, flavour
    hist = []
    pool = rng.sample(plain, min(len(plain), rng.randint(8, 25)))
    for _ in range(n):
        r = rng.random()
        if flavour == "repeat" and hist and r < 0.4:
            hist.append(rng.choice(hist))
        elif flavour == "exports" and r < 0.4:
            ex = [t for t in plain if is_export(t)]
            hist.append(rng.choice(ex or plain))
        else:
            hist.append(rng.choice(pool if r < 0.7 else plain))
    if flavour == "shared":
        sh = [t for t in toks if t.endswith(":shared")]
        if sh:
            hist.insert(rng.randrange(len(hist)), rng.choice(sh))
    # fillers
    fillers = []
    if flavour == "evict":
        fillers = [f"P{cap + rng.randint(1, 50)}"] + [rng.choice(["W", f"P{rng.randint(1, 30)}"]) for _ in range(2)]
    elif flavour == "spelling":
        fillers = [rng.choice(["T:s", "T:e"]), rng.choice(["W", "X", "P5"])]
    elif flavour == "siblings":
        fillers = ["S", rng.choice(["S", "W", "P5"])]
    else:
        fillers = [rng.choice(["W", "X", f"P{rng.randint(1, 40)}", "S"]) for _ in range(rng.randint(1, 3))]
    for f in fillers:
        hist.insert(rng.randrange(len(hist) + 1), f)
    return hist, flavour


def hist_cases(run):
    from inscripta.biocantor.parent import parent as pm
    cap = pm.PARENT_CACHE_SIZE
    rng = run.rng
    for km in KINDMODES:
        per = (10 if km.endswith(".e") else 5) if run.tier == "quick" else (200 if km.endswith(".e") else 100)
        for _ in range(per):
            seed = rng.randint(0, 10 ** 6)
            h, flavour = history(rng, km, cap)
            run.count("hist:" + km.split(".")[0])
            run.count("hist-mode:" + km.split(".")[1])
            run.count("hist-flavour:" + flavour)
            yield f"hist {km} {seed} " + " ".join(h)
    for km in EXTRA_KINDMODES:
        for _ in range(3 if run.tier == "quick" else 60):
            seed = rng.randint(0, 10 ** 6)
            h, flavour = history(rng, km, cap)
            run.count("hist:" + km.split(".")[0])
            run.count("hist-flavour:" + flavour)
            yield f"hist {km} {seed} " + " ".join(h)
    # the chunk cuts the CDS: a guaranteed share of the lines, most of them reading the flag-setting accessors first
    for km in CUT_KINDMODES:
        per = (8 if km.split(".")[2] == "e" else 4) if run.tier == "quick" else (150 if km.split(".")[2] == "e" else 60)
        for _ in range(per):
            seed = rng.randint(0, 10 ** 6)
            h, flavour = history(rng, km, cap)
            run.count("hist-cut:" + km.split(".")[0] + "." + km.split(".")[3])
            run.count("hist-flavour:" + flavour)
            yield f"hist {km} {seed} " + " ".join(h)
    # pair sweep: ONE accessor A first, then every argument-less question (any accessor whose side effect changes any
    # other accessor's answer is caught on these recipes, whatever the pair)
    if run.tier == "quick":
        sweeps = [("cds.chunk.e.both", None), ("transcript.chunk.e.lo", "cds."), ("gene.chunk.e.hi", "cds0.")]
    else:
        sweeps = [(f"cds.chunk.e.{c}", None) for c in G.CUTS] + [("cds.chrom.e", None), ("cds.none.s", None)] + \
                 [(f"transcript.chunk.e.{c}", None) for c in G.CUTS] + [(f"gene.chunk.e.{c}", None) for c in G.CUTS] + \
                 [("annot.chunk.e.both", "cds0."), ("transcript.chrom.e", None)]
    for km, only in sweeps:
        seed = rng.randint(0, 10 ** 6)
        noarg = [t for t in tokens_for(km) if ":" not in t]
        firsts = [t for t in noarg if only is None or t.startswith(only)]
        # ... and calls WITH arguments / derived objects first (a sample of them in the quick tier)
        argfirst = [t for t in tokens_for(km) if ":" in t and not t.endswith(":shared")]
        firsts += argfirst if run.tier != "quick" else rng.sample(argfirst, min(len(argfirst), 30))
        for a in firsts:
            rest = list(noarg)
            rng.shuffle(rest)
            run.count("hist:pair-sweep")
            yield f"hist {km} {seed} {a} " + " ".join(rest)
    # near-identical siblings are asked FIRST, then the object: every call WITH ARGUMENTS that builds something (from_dict,
    # liftover, query_by_*, intersect, incorporate_variants, lift_over_location, exports) — a memo shared between objects
    # and keyed on too little (positions but not bases, ids but not strands, ...) then holds the sibling's value
    for km in [k for k in KINDMODES if k.endswith(".e")] + EXTRA_KINDMODES:
        toks = [t for t in tokens_for(km) if not t.endswith(":shared") and
                (is_export(t) or t.split(":")[0] in ("lift_over_location", "parent_with_alternative_sequence",
                                                     "alternative_genomic_sequence", "reset_parent", "union", "intersection",
                                                     "append", "reverse_complement", "reset_location"))]
        for _ in range(1 if run.tier == "quick" else 10):
            seed = rng.randint(0, 10 ** 6)
            rng.shuffle(toks)
            for i in range(0, len(toks), 20):
                run.count("hist:siblings-first")
                yield f"hist {km} {seed} S " + " ".join(toks[i:i + 20])
    # every call of every kind asked twice around an eviction (covers the whole table at least once per run)
    for km in KINDMODES + EXTRA_KINDMODES + [k for k in CUT_KINDMODES if k.split(".")[2] == "e"]:
        toks = [t for t in tokens_for(km) if not t.endswith(":shared")]
        seed = rng.randint(0, 10 ** 6)
        rng.shuffle(toks)
        for i in range(0, len(toks), 30):
            part = toks[i:i + 30]
            run.count("hist:sweep")
            yield f"hist {km} {seed} " + " ".join(part + [f"P{cap + 5}"] + part[::-1])


# ----------------------------------------------------------------------------------------------
# operations with arguments: warm vs cold operands, arguments unchanged, lazy rendering

INH_KINDMODES = [f"{k}.{m}.e.inh" for k in G.INHERIT_KINDS for m in ("chrom", "chunk")]
OPS_PER_LINE = 16
_OPS_CACHE = {}


def ops_for(kindmode, which):
    """tokens of the operation table (`warm`) / of the calls with container arguments (`args`) of a kind"""
    key = (".".join(kindmode.split(".")[:3]), which)
    if key not in _OPS_CACHE:
        kind, mode, sp = key[0].split(".")
        r = G.make(kind, random.Random(0), mode, sp)
        o = r.build()
        _OPS_CACHE[key] = sorted(O.full_table(r, o) if which == "warm" else O.arg_table(r, o))
    return _OPS_CACHE[key]


def _warm_failed(ans):
    a = ans.split()
    if a[:1] != ["ok"] or "snap" not in a:
        return True
    n = int(a[1])
    i = a.index("snap")
    return any(a[2 + 3 * j + 1] != a[2 + 3 * j + 2] for j in range(n)) or not (a[i + 1] == a[i + 2] == a[i + 3])


def operand_cases(run):
    rng = run.rng
    quick = run.tier == "quick"
    loc_kinds = ("single", "compound")
    kms = [f"{k}.{m}.e" for k in G.KINDS for m in G.MODES] + EXTRA_KINDMODES
    # (a) every operation of the table on cold vs warm operands ------------------------------------------------
    for km in kms + INH_KINDMODES + [f"{k}.chunk.e.both" for k in G.CUT_KINDS] + [f"compound.{m}.e.deg" for m in G.MODES]:
        kind = km.split(".")[0]
        ops = ops_for(km, "warm")
        plans = [("both", (3 if kind in loc_kinds else 1) if quick else 25)]
        if kind in loc_kinds + ("sequence", "parent") and len(km.split(".")) == 3:
            plans += [("self", 1 if quick else 10), ("args", 1 if quick else 10)]
        for who, n in plans:
            for _ in range(n):
                seed = rng.randint(0, 10 ** 6)
                order = list(ops)
                rng.shuffle(order)
                for i in range(0, len(order), OPS_PER_LINE):
                    run.count("warm:" + kind)
                    run.count("warm-who:" + who)
                    yield f"warm {km} {seed} {who} " + " ".join(order[i:i + OPS_PER_LINE])
    # (b) every call with dict / list / set / object arguments ---------------------------------------------------
    for km in kms + INH_KINDMODES:
        kind = km.split(".")[0]
        calls = ops_for(km, "args")
        for _ in range((3 if quick else 20) if calls else 0):
            seed = rng.randint(0, 10 ** 6)
            for call in calls:
                run.count("args:" + kind)
                yield f"args {km} {seed} {call}"
    # (c) generator-returning exports: rendered while iterating vs afterwards ---------------------------------------
    for km in [k for k in kms if k.split(".")[0] in G.INHERIT_KINDS] + INH_KINDMODES:
        kind = km.split(".")[0]
        inh = km.endswith(".inh")
        for _ in range((3 if inh else 1) if quick else (40 if inh else 15)):
            seed = rng.randint(0, 10 ** 6)
            for variant in ("plain", "chunk") + (("pq",) if kind in ("cds", "transcript", "feature") else ()):
                run.count("lazy:" + kind + (".inh" if inh else ""))
                yield f"lazy {km} {seed} {variant}"
    # histories on the recipes whose parent level carries the exporters' keys
    from inscripta.biocantor.parent import parent as pm
    for km in INH_KINDMODES:
        for _ in range(2 if quick else 40):
            seed = rng.randint(0, 10 ** 6)
            h, flavour = history(rng, km, pm.PARENT_CACHE_SIZE, flavour=rng.choice(["exports", "mixed", "repeat"]))
            run.count("hist-inh:" + km.split(".")[0])
            yield f"hist {km} {seed} " + " ".join(h)


def shrink(failure, mod=None):
    """drop history tokens while the real code still gives a digest of the same families"""
    line = failure["line"]
    t = line.split()
    if t[0] == "warm" and len(t) > 5:
        a = failure["impl"].split()
        n = int(a[1]) if a[:1] == ["ok"] and len(a) > 1 and a[1].isdigit() else 0
        differing = [a[2 + 3 * j] for j in range(n) if a[2 + 3 * j + 1] != a[2 + 3 * j + 2]]
        for op in differing + [x for x in t[4:] if x not in differing]:
            small = " ".join(t[:4] + [op])
            out = impl(small)
            if _warm_failed(out):
                return {"line": small, "impl": out, "model": None, "spec": failure["spec"], "shrunk_from": line}
        # no single operation reproduces it (an earlier operation of the line filled the cell): drop operations greedily
        ops, i, out = t[4:], 0, failure["impl"]
        while i < len(ops) and len(ops) > 1:
            cand = ops[:i] + ops[i + 1:]
            o2 = impl(" ".join(t[:4] + cand))
            if _warm_failed(o2):
                ops, out = cand, o2
            else:
                i += 1
        return {"line": " ".join(t[:4] + ops), "impl": out, "model": None, "spec": failure["spec"], "shrunk_from": line}
    if t[0] != "hist" or not failure["impl"].startswith("ok fam="):
        return failure
    fam = failure["impl"].split()[1]
    toks = t[3:]

    def still(ts):
        out = impl(" ".join(t[:3] + ts))
        return out.startswith("ok fam=") and out.split()[1] == fam
    i, budget = 0, 400
    while i < len(toks) and budget > 0:
        cand = toks[:i] + toks[i + 1:]
        budget -= 1
        if cand and still(cand):
            toks = cand
        else:
            i += 1
    small = " ".join(t[:3] + toks)
    out = impl(small)
    return {"line": small, "impl": out, "model": None, "spec": "fail " + " ".join(out.split()[1:4]),
            "shrunk_from": line}


def extra_checks(run):
    """evidence that the fillers really fill and evict the process-wide Parent cache, and how histories were isolated"""
    from inscripta.biocantor.parent import Parent
    from inscripta.biocantor.parent import parent as pm
    cold()
    r = G.make("transcript", random.Random(1), "chunk", "e")
    r.build()
    own = Parent.cache_info().currsize
    for i in range(pm.PARENT_CACHE_SIZE + 5):
        Parent(id=f"evidence{i}")
    info = Parent.cache_info()
    before = info.misses
    r.build()
    run.extra["parent_cache"] = {"maxsize": info.maxsize, "entries_of_one_transcript_on_a_chunk": own,
                                 "currsize_after_filler": info.currsize,
                                 "misses_when_rebuilding_after_eviction": Parent.cache_info().misses - before}
    if info.currsize != info.maxsize or Parent.cache_info().misses == before:
        run.failures.append({"line": "extra parent-cache-eviction", "impl": str(info), "model": None,
                             "spec": "fail the P<n> filler no longer evicts the Parent cache"})
    cold()
    run.extra["history_isolation"] = isolation_mode()
    run.extra["shims_used"] = list(shims.USED)
    run.extra["call_tokens_per_kind"] = {km: len(tokens_for(km)) for km in KINDMODES + EXTRA_KINDMODES
                                         if km.endswith(".chrom.e")}
    # generated inventory: public methods with arguments (by introspection of the real classes) vs the tables.  A method
    # that is in no table and not in the exclusion list is RECORDED (`uncovered_methods`), the check does not fail on it.
    try:
        inv = O.inventory()
        run.extra["arg_method_inventory"] = inv["per_class"]
        run.extra["uncovered_methods"] = inv["uncovered_methods"]
        run.extra["arg_tokens_per_kind"] = {km: len(ops_for(km, "args")) for km in
                                            [f"{k}.chrom.e" for k in G.ALL_KINDS]}
        if inv["uncovered_methods"]:
            run.notes.append("public methods with arguments in no table of the args / warm / hist legs (not excluded): " +
                             ", ".join(inv["uncovered_methods"]))
    except Exception as e:  # noqa  (the inventory is information, never a verdict)
        run.extra["uncovered_methods"] = None
        run.notes.append(f"method inventory failed: {type(e).__name__}: {str(e)[:200]}")
    run.notes.append("methods deliberately excluded from the args / warm tables: " + "; ".join(
        f"{c}.{m}: {why}" for (c, m), why in sorted(O.EXCLUDED_METHODS.items())))


def _cost(line):
    """rough relative cost of evaluating a line on the real library"""
    t = line.split()
    if t[0] == "warm":
        return 20 * (len(t) - 4)
    if t[0] == "hist":
        return 6 * (len(t) - 3)
    if t[0] == "plru":
        return 100
    return {"args": 15, "lazy": 50}.get(t[0], 1)


def _balanced(lines, buckets=128):
    """The engine hands CONSECUTIVE slices of the line list to its worker pool (128 slices): deal the lines out so that
    every slice gets the same share of the expensive ones (the set of lines and every verdict are unchanged; the order
    is a deterministic function of the lines)."""
    order = sorted(range(len(lines)), key=lambda i: (-_cost(lines[i]), i))
    per = [[] for _ in range(buckets)]
    for n, i in enumerate(order):
        r, q = n % buckets, n // buckets
        per[r if q % 2 == 0 else buckets - 1 - r].append(i)
    return [lines[i] for b in per for i in sorted(b)]


def cases(run):
    lines = []
    for gen in (lru_cases, plru_cases, lazy_cases, cds_cases, merge_cases, export_cases, hist_cases, layout_cases,
                operand_cases):
        lines.extend(gen(run))
    yield from _balanced(lines)
