"""Independent well-formedness predicates for BioCantor objects (property C19).

Every `wf_<class>(obj)` returns None when the object satisfies the invariants its class documents, else a short
reason token (no spaces).  The predicates look ONLY at public attributes / stored lists; they never call the
algorithms whose results they judge (no optimize_blocks, no relative_to_parent_pos, ...).  They are written from the
class doc strings, not from the constructors: an object that a constructor let through although its arguments were
inconsistent is reported here.

    wf_value(x)   dispatches on the Python type; containers and iterators are checked element-wise (iterators are
                  consumed: an exception while iterating propagates to the caller and is classified there).
"""
import inspect
import uuid

from harness import shims

shims.install()

import inscripta.biocantor  # noqa: E402,F401
from inscripta.biocantor.gene.cds import CDSInterval  # noqa: E402
from inscripta.biocantor.gene.cds_frame import CDSFrame  # noqa: E402
from inscripta.biocantor.gene.codon import Codon  # noqa: E402
from inscripta.biocantor.gene.collections import AnnotationCollection  # noqa: E402
from inscripta.biocantor.gene.feature import FeatureInterval, FeatureIntervalCollection  # noqa: E402
from inscripta.biocantor.gene.gene import GeneInterval  # noqa: E402
from inscripta.biocantor.gene.transcript import TranscriptInterval  # noqa: E402
from inscripta.biocantor.gene.variants import VariantInterval, VariantIntervalCollection  # noqa: E402
from inscripta.biocantor.location.location_impl import SingleInterval, CompoundInterval, _EmptyLocation  # noqa: E402
from inscripta.biocantor.location.strand import Strand  # noqa: E402
from inscripta.biocantor.parent import Parent  # noqa: E402
from inscripta.biocantor.sequence import Sequence  # noqa: E402
from inscripta.biocantor.sequence.alphabet import Alphabet  # noqa: E402

PARENT_CLS = Parent.__wrapped__
MAX_ITEMS = 20000


def _is_int(x):
    return isinstance(x, int) and not isinstance(x, bool)


# ----------------------------------------------------------------------------------------------
# locations

def _wf_block(s, e):
    if not (_is_int(s) and _is_int(e)):
        return "coordinate-not-int"
    if s < 0:
        return "negative-start"
    if s > e:
        return "start>end"
    return None


def wf_location(loc, check_parent=True):
    if isinstance(loc, _EmptyLocation):
        return None
    if not isinstance(loc.strand, Strand):
        return "strand-not-a-Strand"
    if isinstance(loc, SingleInterval):
        r = _wf_block(loc.start, loc.end)
        if r:
            return r
        if loc.length != loc.end - loc.start:
            return "length!=end-start"
    elif isinstance(loc, CompoundInterval):
        starts, ends = loc._starts, loc._ends
        if len(starts) != len(ends) or len(starts) == 0:
            return "block-lists-unequal-or-empty"
        for s, e in zip(starts, ends):
            r = _wf_block(s, e)
            if r:
                return r
        key = (lambda b: (b[0], b[1])) if loc.strand == Strand.PLUS else (lambda b: (b[0], -b[1]))
        bl = list(zip(starts, ends))
        if any(key(bl[i]) > key(bl[i + 1]) for i in range(len(bl) - 1)):
            return "blocks-unsorted"
        if loc.length != sum(e - s for s, e in bl):
            return "length!=sum"
        if loc.start != min(starts):
            return "start!=min(starts)"
        if loc.end != max(ends):
            return "end!=max(ends)"
    else:
        return "unknown-location-type:" + type(loc).__name__
    if check_parent and loc.parent is not None:
        p = loc.parent
        if not isinstance(p, PARENT_CLS):
            return "parent-not-a-Parent"
        pl = p.location
        if pl is None:
            return "parent-without-child-location"
        if (pl.start, pl.end) != (loc.start, loc.end) or pl.strand is not loc.strand or len(pl) != len(loc):
            return "parent.location!=self"
        if p.sequence is not None and loc.end > len(p.sequence):
            return "end>parent-sequence-length"
        r = wf_parent(p, check_location=False)
        if r:
            return "parent:" + r
    return None


# ----------------------------------------------------------------------------------------------
# parents and sequences

def wf_parent(p, check_location=True, depth=0):
    if depth > 8:
        return None
    if not isinstance(p, PARENT_CLS):
        return "not-a-Parent"
    loc, seq, par = p.location, p.sequence, p.parent
    if loc is not None and check_location:
        r = wf_location(loc, check_parent=False)
        if r:
            return "location:" + r
    if loc is not None and not isinstance(loc, _EmptyLocation):
        if seq is not None and loc.end > len(seq):
            return "location.end>len(sequence)"
        if p._strand is not None and p._strand is not loc.strand:
            return "strand!=location.strand"
        if loc.parent is not None:
            if loc.parent.id is not None and p.id != loc.parent.id:
                return "id!=location.parent_id"
    if seq is not None:
        if not isinstance(seq, Sequence):
            return "sequence-not-a-Sequence"
        if seq.id is not None and p.id != seq.id:
            return "id!=sequence.id"
        if seq.sequence_type is not None and p.sequence_type != seq.sequence_type:
            return "sequence_type!=sequence.sequence_type"
        r = wf_sequence(seq, depth + 1)
        if r:
            return "sequence:" + r
    if par is not None:
        if not isinstance(par, PARENT_CLS):
            return "parent-not-a-Parent"
        if seq is not None and par.sequence is not None and len(seq) > len(par.sequence):
            return "sequence-longer-than-parent-sequence"
        r = wf_parent(par, depth=depth + 1)
        if r:
            return "parent:" + r
    return None


def wf_sequence(s, depth=0):
    if not isinstance(s, Sequence):
        return "not-a-Sequence"
    data = str(s)
    if len(s) != len(data):
        return "len!=len(data)"
    if not isinstance(s.alphabet, Alphabet):
        return "alphabet-not-an-Alphabet"
    allowed = set(s.alphabet.value)
    if any(c.upper() not in allowed for c in data):
        return "letter-outside-alphabet"
    if s.parent is not None:
        if not isinstance(s.parent, PARENT_CLS):
            return "parent-not-a-Parent"
        pl = s.parent.location
        if pl is not None and not isinstance(pl, _EmptyLocation) and len(pl) != len(s):
            return "len!=len(parent.location)"
        r = wf_parent(s.parent, depth=depth + 1)
        if r:
            return "parent:" + r
    return None


# ----------------------------------------------------------------------------------------------
# intervals

def _wf_genomic_lists(starts, ends):
    if len(starts) != len(ends) or len(starts) == 0:
        return "block-lists-unequal-or-empty"
    for s, e in zip(starts, ends):
        r = _wf_block(s, e)
        if r:
            return r
    return None


def _wf_feature_like(o):
    r = _wf_genomic_lists(o._genomic_starts, o._genomic_ends)
    if r:
        return r
    if not isinstance(o._strand, Strand):
        return "strand-not-a-Strand"
    if o.start > o.end:
        return "start>end"
    if o.start != min(o._genomic_starts):
        return "start!=min(starts)"
    if o.end != max(o._genomic_ends):
        return "end!=max(ends)"
    r = wf_location(o._location)
    if r:
        return "location:" + r
    if not isinstance(o.guid, uuid.UUID):
        return "guid-not-a-UUID"
    return None


def _covered(blocks, a, b):
    """every position of [a, b) lies in one of the blocks"""
    pos = a
    for s, e in sorted(blocks):
        if s <= pos < e:
            pos = e
        if pos >= b:
            return True
    return pos >= b


def wf_cds(c):
    r = _wf_feature_like(c)
    if r:
        return r
    if len(c.frames) != len(c._genomic_starts):
        return "frames-count!=blocks"
    if not all(isinstance(f, CDSFrame) for f in c.frames):
        return "frame-not-a-CDSFrame"
    if sum(e - s for s, e in zip(c._genomic_starts, c._genomic_ends)) == 0:
        return "empty-cds"
    # NOT required: a directional strand.  The class documentation does not forbid an unstranded CDS and the code
    # tolerates it (`_exon_iter` treats UNSTRANDED like PLUS); strand-specific operations then raise
    # InvalidStrandException, a documented class.
    return None


def wf_transcript(t):
    r = _wf_feature_like(t)
    if r:
        return r
    if t.cds is not None:
        if not isinstance(t.cds, CDSInterval):
            return "cds-not-a-CDSInterval"
        r = wf_cds(t.cds)
        if r:
            return "cds:" + r
        if t.cds._strand is not t._strand:
            return "cds-strand!=strand"
        exons = list(zip(t._genomic_starts, t._genomic_ends))
        for s, e in zip(t.cds._genomic_starts, t.cds._genomic_ends):
            if e > s and not _covered(exons, s, e):
                return "cds-outside-exons"
    return None


def wf_feature(f):
    r = _wf_feature_like(f)
    if r:
        return r
    if not isinstance(f.feature_types, set):
        return "feature_types-not-a-set"
    return None


def wf_variant(v):
    r = _wf_feature_like(v)
    if r:
        return r
    if v.start >= v.end:
        return "variant-window-empty"
    if v._strand is not Strand.PLUS:
        return "variant-not-on-plus"
    r = wf_sequence(v.sequence)
    if r:
        return "sequence:" + r
    return None


def _wf_collection(o, children, child_wf, child_type):
    children = list(children)
    if not children:
        return "no-children"
    for ch in children:
        if not isinstance(ch, child_type):
            return "child-type:" + type(ch).__name__
        r = child_wf(ch)
        if r:
            return "child:" + r
    guids = [ch.guid for ch in children]
    if len(set(guids)) != len(guids):
        return "duplicate-children"
    if o.start != min(ch.start for ch in children):
        return "start!=min(children)"
    if o.end != max(ch.end for ch in children):
        return "end!=max(children)"
    if o.start > o.end:
        return "start>end"
    r = wf_location(o._location)
    if r:
        return "location:" + r
    if not isinstance(o.guid, uuid.UUID):
        return "guid-not-a-UUID"
    if set(o.guid_map) != set(guids):
        return "guid_map!=children"
    return None


def wf_gene(g):
    r = _wf_collection(g, g.transcripts, wf_transcript, TranscriptInterval)
    if r:
        return r
    if g.primary_transcript is None or not any(g.primary_transcript is t for t in g.transcripts):
        return "primary-not-a-child"
    if sum(1 for t in g.transcripts if t._is_primary_feature is True) > 1:
        return "two-primary-children"
    return None


def wf_feature_collection(c):
    r = _wf_collection(c, c.feature_intervals, wf_feature, FeatureInterval)
    if r:
        return r
    if c.primary_feature is None or not any(c.primary_feature is f for f in c.feature_intervals):
        return "primary-not-a-child"
    if sum(1 for f in c.feature_intervals if f._is_primary_feature is True) > 1:
        return "two-primary-children"
    return None


def wf_variant_collection(c):
    r = _wf_collection(c, c.variant_intervals, wf_variant, VariantInterval)
    if r:
        return r
    vs = sorted(c.variant_intervals, key=lambda v: (v.start, v.end))
    if any(vs[i].end > vs[i + 1].start for i in range(len(vs) - 1)):
        return "overlapping-variants"
    return None


def wf_annotation_collection(a):
    kids = []
    for lst, wf, ty in ((a.feature_collections, wf_feature_collection, FeatureIntervalCollection),
                        (a.genes, wf_gene, GeneInterval),
                        (a.variant_collections, wf_variant_collection, VariantIntervalCollection)):
        if not isinstance(lst, list):
            return "children-not-a-list"
        for ch in lst:
            if not isinstance(ch, ty):
                return "child-type:" + type(ch).__name__
            r = wf(ch)
            if r:
                return "child:" + r
            kids.append(ch)
    guids = [k.guid for k in kids]
    if len(set(guids)) != len(guids):
        return "duplicate-children"
    r = wf_location(a._location)
    if r:
        return "location:" + r
    has_bounds = hasattr(a, "start") and hasattr(a, "end")
    if not isinstance(a._location, _EmptyLocation):
        if not has_bounds:
            return "located-without-bounds"
        if not (_is_int(a.start) and _is_int(a.end)) or a.start < 0 or a.start > a.end:
            return "bad-bounds"
    if not isinstance(a.guid, uuid.UUID):
        return "guid-not-a-UUID"
    return None


def wf_codon(c):
    v = c.value
    if not (isinstance(v, str) and len(v) == 3 and v == v.upper() and set(v) <= set("ATUCGNWSMKRYBDHV")):
        return "not-a-codon"
    return None


# ----------------------------------------------------------------------------------------------
# dispatch

_DISPATCH = [
    (_EmptyLocation, wf_location), (SingleInterval, wf_location), (CompoundInterval, wf_location),
    (PARENT_CLS, wf_parent), (Sequence, wf_sequence), (CDSInterval, wf_cds), (TranscriptInterval, wf_transcript),
    (FeatureInterval, wf_feature), (VariantInterval, wf_variant), (GeneInterval, wf_gene),
    (FeatureIntervalCollection, wf_feature_collection), (VariantIntervalCollection, wf_variant_collection),
    (AnnotationCollection, wf_annotation_collection), (Codon, wf_codon),
]


def wf_value(x, depth=0, budget=None):
    """None | reason.  Containers / iterators element-wise."""
    budget = budget if budget is not None else [MAX_ITEMS]
    if x is None or isinstance(x, (bool, int, float, str, bytes, uuid.UUID)):
        return None
    for ty, fn in _DISPATCH:
        if isinstance(x, ty):
            return fn(x)
    if depth > 6:
        return None
    if isinstance(x, dict):
        it = list(x.values())
    elif isinstance(x, (list, tuple, set, frozenset)):
        it = x
    elif inspect.isgenerator(x) or hasattr(x, "__next__"):
        it = x
    else:
        return None
    for v in it:
        budget[0] -= 1
        if budget[0] < 0:
            return None
        r = wf_value(v, depth + 1, budget)
        if r:
            return "item:" + r
    return None
