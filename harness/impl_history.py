"""Implementation side of C10: histories of read-only questions on real objects + the small cache-discipline ops.

    hist <kind>.<mode>.<e|s> <objseed> <tok>… -> ok -                            no disagreement
                                                 (e|s: the recipe spells sequence types as SequenceType members | plain strings)
                                                 ok fam=<families> <classes> <item>…
                                                   families = `+`-joined sorted set of `family(item)` (see `family`)
                                                   classes  = comma separated, sorted, distinct `<accessor>:<what>`
                                                   items    = `<call>@<step>:<what>` (first 8)
      tokens: a call token (see `call_table`), or a filler
        P<n>   construct n unrelated Parents (ids only)            -> fills / evicts the process-wide Parent cache
        T:s / T:e  construct unrelated Parents whose sequence types are spelled as plain strings / as enum members
        W      build a complete twin and drop it                   -> the object's own Parents are now cache hits
        S      build near-identical siblings (strands flipped / one base changed / chunk moved / qualifier changed), ask each
               of them every question of this history, drop them
        X      Parent.cache_clear() and _unique_value_or_none.cache_clear()
      what:   type(A!=B)      the Python type of the answer differs from the fresh twin's (got A, fresh B)
              exc(E)          raised E where the fresh twin answers / raises something else
              val(path)       same type, different value (first differing path of the canonical form)
              val(seqtype-spelling)   the ONLY difference: a sequence_type is `str` where the twin has `SequenceType` (or v.v.)
              mut(path)       the object (or an operand) reads differently after the call than before the history

    The reference answer of every call is computed on a FRESHLY BUILT twin with cold caches, one question per twin.

    lru / plru / memo / lazyloc / pstrand / cdshist / merge       see lean/BioCantor/Driver/Cache.lean
"""
import enum
import functools
import inspect
import io
import json
import os
import random
import re
import signal
import subprocess
import sys
import uuid
import warnings

from harness import shims

shims.install()
from harness.common import guarded, exc_token  # noqa: E402
from harness import gen_objects as G  # noqa: E402

import inscripta.biocantor  # noqa: E402,F401
from inscripta.biocantor.gene.cds import CDSInterval  # noqa: E402
from inscripta.biocantor.gene.cds_frame import CDSFrame  # noqa: E402
from inscripta.biocantor.gene.codon import TranslationTable  # noqa: E402
from inscripta.biocantor.gene.feature import FeatureInterval  # noqa: E402
from inscripta.biocantor.gene.interval import AbstractInterval  # noqa: E402
from inscripta.biocantor.location.location import Location  # noqa: E402
from inscripta.biocantor.location.location_impl import SingleInterval, CompoundInterval  # noqa: E402
from inscripta.biocantor.location.strand import Strand  # noqa: E402
from inscripta.biocantor.parent import Parent, SequenceType  # noqa: E402
from inscripta.biocantor.parent import parent as parent_module  # noqa: E402
from inscripta.biocantor.sequence import Sequence  # noqa: E402
from inscripta.biocantor.sequence.alphabet import Alphabet  # noqa: E402

PARENT_CLS = Parent.__wrapped__
LOC_KINDS = ("single", "compound", "empty")                         # gen_objects kinds that build a Location
FEATURE_LIKE = ("cds", "transcript", "feature", "variant")          # AbstractFeatureInterval subclasses
VARIANT_TARGETS = ("cds", "transcript", "feature", "gene", "featcoll", "annot")     # kinds with incorporate_variants
ADDR = re.compile(r" at 0x[0-9a-fA-F]+")


SETDISPLAY = re.compile(r"\{([^{}]*)\}")


def _text(s):
    """str()/repr() text without memory addresses and with the elements of printed sets in sorted order (their order
    is that of a salted hash; the references come from another process)"""
    return SETDISPLAY.sub(lambda m: "{" + ", ".join(sorted(x.strip() for x in m.group(1).split(","))) + "}", ADDR.sub("", s))


def cold():
    """the cache state of a fresh process"""
    Parent.cache_clear()
    parent_module._unique_value_or_none.cache_clear()


# ----------------------------------------------------------------------------------------------
# canonical form of an answer: leaves are "type:value" strings, lists are [typename, items…], records are dicts

def _seqtype_leaf(v):
    if v is None:
        return "None:"
    val = v.value if isinstance(v, enum.Enum) else v
    return f"seqtype:{val}|{type(v).__name__}"


def canon(x, depth=0):
    if depth > 14:
        return "deep:"
    d = depth + 1
    if x is None:
        return "None:"
    if isinstance(x, bool):
        return f"bool:{x}"
    if isinstance(x, enum.Enum):
        return f"{type(x).__name__}:{x.name}"
    if isinstance(x, int):
        return f"int:{x}"
    if isinstance(x, float):
        return f"float:{x!r}"
    if isinstance(x, str):
        return f"str:{x}"
    if isinstance(x, uuid.UUID):
        return f"UUID:{x}"
    if isinstance(x, PARENT_CLS):
        return {"__type__": "Parent", "id": canon(x.id, d), "sequence_type": _seqtype_leaf(x.sequence_type),
                "strand": canon(x.strand, d), "location": _canon_loc(x.location, d, with_parent=False),
                "sequence": canon(x.sequence, d), "parent": canon(x.parent, d)}
    if isinstance(x, Location):
        return _canon_loc(x, d, with_parent=True)
    if isinstance(x, Sequence):
        return {"__type__": "Sequence", "data": f"str:{x}", "id": canon(x.id, d),
                "sequence_type": _seqtype_leaf(x.sequence_type), "alphabet": canon(x.alphabet, d),
                "parent": canon(x.parent, d)}
    if isinstance(x, AbstractInterval):
        out = {"__type__": type(x).__name__, "guid": canon(getattr(x, "guid", None), d)}
        try:
            out["dict"] = canon(x.to_dict(), d)
        except Exception as e:  # noqa
            out["dict"] = "exc:" + type(e).__name__
        try:
            out["location"] = _canon_loc(x.chunk_relative_location, d, with_parent=True)
        except Exception as e:  # noqa
            out["location"] = "exc:" + type(e).__name__
        return out
    if isinstance(x, dict):
        out = {"__type__": type(x).__name__}
        for k, v in x.items():
            ck = canon(k, d)
            out[ck if isinstance(ck, str) else repr(ck)] = canon(v, d)
        return out
    if isinstance(x, (list, tuple)):
        return [type(x).__name__] + [canon(v, d) for v in x]
    if isinstance(x, (set, frozenset)):
        return [type(x).__name__] + sorted((canon(v, d) for v in x), key=repr)
    if hasattr(x, "__next__") or inspect.isgenerator(x):
        items = ["iterator"]
        try:
            for v in x:
                items.append(canon(v, d))
                if len(items) > 5000:
                    break
        except Exception as e:  # noqa
            items.append("exc:" + type(e).__name__)
        return items
    if hasattr(x, "_fields") and isinstance(x, tuple):
        return [type(x).__name__] + [canon(v, d) for v in x]
    return f"{type(x).__name__}:{ADDR.sub('', str(x))}"


def _canon_loc(loc, d, with_parent):
    if loc is None:
        return "None:"
    out = {"__type__": type(loc).__name__}
    try:
        out["strand"] = canon(loc.strand, d)
        out["blocks"] = ["list"] + [f"blk:{b.start}-{b.end}" for b in loc.blocks]
    except Exception as e:  # noqa
        out["blocks"] = "exc:" + type(e).__name__
    if with_parent:
        out["parent"] = canon(loc.parent, d)
    return out


def top_type(c):
    if isinstance(c, dict):
        return c["__type__"]
    if isinstance(c, list):
        return c[0]
    return c.split(":", 1)[0]


_ASM = "<Parent: id=asm1, type=assembly, strand=None, location=None, sequence=None, parent=None>"


def _is_asm(c):
    """canonical form of the recipes' assembly level (`Recipe._assembly`)"""
    return isinstance(c, dict) and json.dumps(c, sort_keys=True).count("asm1") >= 1 and "str:asm1" in json.dumps(c)


def _undepth(s):
    return s.replace("parent=" + _ASM, "parent=None")


def diff(a, b, path=""):
    """paths at which two canonical forms differ"""
    # the ONLY difference: one side has the recipes' assembly level above a level, the other has nothing there
    if path.endswith("/parent") and ((a == "None:" and _is_asm(b)) or (b == "None:" and _is_asm(a))):
        return [path + "#depth"]
    if isinstance(a, dict) and isinstance(b, dict):
        if set(a) != set(b):
            return [path + "/keys"]
        out = []
        for k in a:
            out += diff(a[k], b[k], f"{path}/{k.split(':', 1)[-1] if k != '__type__' else k}")
        return out
    if isinstance(a, list) and isinstance(b, list):
        if len(a) != len(b):
            return [path + "/len"]
        out = []
        for i, (x, y) in enumerate(zip(a, b)):
            out += diff(x, y, f"{path}/{i - 1}" if i else f"{path}/__type__")
        return out
    if isinstance(a, str) and isinstance(b, str):
        if a == b:
            return []
        if a.startswith("seqtype:") and b.startswith("seqtype:") and a.split("|")[0] == b.split("|")[0]:
            return [path + "#spelling"]
        if a.startswith("str:") and b.startswith("str:") and _unspell(a) == _unspell(b):
            return [path + "#spelling"]       # a repr()/str() that prints a sequence type
        if a.startswith("str:") and b.startswith("str:") and _undepth(a) == _undepth(b):
            return [path + "#depth"]          # a repr()/str()/summary() that prints the hierarchy
        return [path]
    return [path]


_SPELL = [(re.compile(r"<SequenceType\.\w+: '(\w+)'>"), r"\1"), (re.compile(r"SequenceType\.(\w+)"), lambda m: m.group(1).lower()),
          (re.compile(r"'(chromosome|sequence_chunk)'"), r"\1")]


def _unspell(s):
    for rx, rep in _SPELL:
        s = rx.sub(rep, s)
    return s


def _short(p):
    p = re.sub(r"/\d+", "", p)
    parts = [x for x in p.split("/") if x]
    return ".".join(parts[-3:]).replace(" ", "_") or "."


def classify(got, ref):
    """None if equal, else the `what` of a digest item"""
    ds = diff(got, ref)
    if not ds:
        return None
    if all(p.endswith("#spelling") for p in ds):
        return "val(seqtype-spelling)"
    if all(p.endswith("#depth") for p in ds):
        return "val(ancestor-depth)"
    tg, tr = top_type(got), top_type(ref)
    if tg == "exc":
        return f"exc({got.split(':', 1)[1]})"
    if tr == "exc":
        return f"noexc({ref.split(':', 1)[1]})"
    if tg != tr:
        return f"type({tg}!={tr})"
    return f"val({_short(ds[0])})"


# ----------------------------------------------------------------------------------------------
# the calls

EXPORTS = ("to_gff", "to_bed12", "to_dict", "export_qualifiers", "to_genbank", "from_dict", "liftover", "query_by",
           "intersect", "get_merged", "incorporate")
DENY = {"cache_clear", "cache_info"}


class Ctx:
    """fresh operands of the calls with arguments (built once per object; they are snapshotted as operands too)"""

    def __init__(self, recipe, obj):
        self.recipe = recipe
        d = recipe.data
        self.pos = d["pos"]
        self.window = d["window"]
        self.operands = {}
        if recipe.kind in LOC_KINDS:
            for i, o in enumerate(recipe.other_locations()):
                self.operands[f"o{i}"] = o
        if recipe.kind == "parent":
            self.operands["loc"] = SingleInterval(1, 4, Strand.PLUS)
        if recipe.kind == "sequence":
            self.operands["other"] = Sequence("ACGTN", Alphabet.NT_EXTENDED_GAPPED)
        self.chrom_seq = Sequence(d["genome"], Alphabet.NT_EXTENDED_GAPPED, id=d["chrom"], type=recipe._t("CHROMOSOME"))

    @property
    def twin(self):
        """built when first needed (possibly long after the object: its Parents may then be different objects), then
        kept as an operand"""
        if "twin" not in self.operands:
            self.operands["twin"] = self.recipe.build()
        return self.operands["twin"]

    def chunk2(self):
        return self.recipe.chunk_parent(tuple(self.recipe.data["chunk2"]))


def _windows(L, j):
    """24 distinct windows (more than the 20 slots of the per-object window memo)"""
    a = (7 * j) % max(1, L - 6)
    return a, min(L, a + 5 + (j % 5) * 3)


def _no_required_args(fn):
    try:
        sig = inspect.signature(fn)
    except (TypeError, ValueError):
        return False
    for p in sig.parameters.values():
        if p.default is inspect.Parameter.empty and p.kind in (p.POSITIONAL_ONLY, p.POSITIONAL_OR_KEYWORD, p.KEYWORD_ONLY):
            return False
    return True


def introspected(obj):
    """{token: ('prop'|'method', name)} for every public property / data attribute / method callable without arguments"""
    cls = type(obj)
    out = {}
    names = set(n for n in dir(cls) if not n.startswith("_"))
    try:
        names |= set(n for n in vars(obj) if not n.startswith("_"))
    except TypeError:
        pass
    for klass in cls.__mro__:
        for n in getattr(klass, "__slots__", ()) or ():
            if not n.startswith("_"):
                names.add(n)
    for name in sorted(names):
        if name in DENY:
            continue
        st = inspect.getattr_static(cls, name, None)
        tn = type(st).__name__
        if tn in ("staticmethod", "classmethod"):
            continue
        if tn in ("function", "_MethodRope"):
            try:
                bound = getattr(obj, name)
            except Exception:  # noqa
                continue
            if _no_required_args(bound):
                out[name] = ("method", name)
        else:
            out[name] = ("prop", name)
    return out


def _tables(recipe, obj):
    """calls with arguments: {token: fn(obj, ctx)}"""
    k = recipe.kind
    d = recipe.data
    L = d["L"]
    t = {}
    # hash values are salted per process (the references come from another process): the question asked is whether
    # the object hashes like a twin built just now; raw values are compared within the process by `snapshot`
    t["__hash__"] = lambda o, c: hash(o) == hash(c.recipe.build())
    t["__str__"] = lambda o, c: _text(str(o))
    t["__repr__"] = lambda o, c: _text(repr(o))
    t["__eq__:twin"] = lambda o, c: o == c.twin
    if k != "parent":
        t["__len__"] = lambda o, c: len(o)
    if k in LOC_KINDS:
        for i in range(len(d.get("others", []))):
            oi = f"o{i}"
            for m in ("union", "intersection", "minus", "has_overlap", "contains", "distance_to",
                      "union_preserve_overlaps", "location_relative_to", "parent_to_relative_location"):
                t[f"{m}:{oi}"] = (lambda m, oi: lambda o, c: getattr(o, m)(c.operands[oi]))(m, oi)
        t["intersection:o0:nostrand"] = lambda o, c: o.intersection(c.operands["o0"], match_strand=False)
        t["has_overlap:o0:span"] = lambda o, c: o.has_overlap(c.operands["o0"], full_span=True)
        t["minus:o1:nostrand"] = lambda o, c: o.minus(c.operands["o1"], match_strand=False)
        t["compare:o0"] = lambda o, c: o.compare(c.operands["o0"])
        t["__lt__:o0"] = lambda o, c: o < c.operands["o0"]
        t["__eq__:o0"] = lambda o, c: o == c.operands["o0"]
        t["extend_absolute:1,2"] = lambda o, c: o.extend_absolute(1, 2)
        t["extend_relative:2,1"] = lambda o, c: o.extend_relative(2, 1)
        t["shift_position:3"] = lambda o, c: o.shift_position(3)
        t["reset_strand:-"] = lambda o, c: o.reset_strand(Strand.MINUS)
        t["reset_parent:none"] = lambda o, c: o.reset_parent(None)
        t["reset_parent:same"] = lambda o, c: o.reset_parent(o.parent)
        for j in range(3):
            t[f"parent_to_relative_pos:p{j}"] = (lambda j: lambda o, c: o.parent_to_relative_pos(o.start + j * 2))(j)
            t[f"relative_to_parent_pos:r{j}"] = (lambda j: lambda o, c: o.relative_to_parent_pos(j * 3))(j)
        # positions in LATER blocks and at block edges (a walk that remembers where the previous question ended must
        # still answer a question about an earlier / overlapping block as a fresh object does)
        t["parent_to_relative_pos:e1"] = lambda o, c: o.parent_to_relative_pos(o.end - 1)
        t["parent_to_relative_pos:e3"] = lambda o, c: o.parent_to_relative_pos(max(o.start, o.end - 3))
        t["parent_to_relative_pos:b1s"] = lambda o, c: o.parent_to_relative_pos(o.blocks[min(1, len(o.blocks) - 1)].start)
        t["parent_to_relative_pos:b1s+1"] = lambda o, c: o.parent_to_relative_pos(o.blocks[min(1, len(o.blocks) - 1)].start + 1)
        t["parent_to_relative_pos:b0e-1"] = lambda o, c: o.parent_to_relative_pos(max(o.start, o.blocks[0].end - 1))
        t["relative_to_parent_pos:last"] = lambda o, c: o.relative_to_parent_pos(max(0, len(o) - 1))
        t["relative_interval_to_parent_location:1,3"] = \
            lambda o, c: o.relative_interval_to_parent_location(1, 3, Strand.PLUS)
        t["scan_windows:3,2"] = lambda o, c: o.scan_windows(3, 2)
        t["has_ancestor_of_type:assembly"] = lambda o, c: o.has_ancestor_of_type("assembly")
        t["has_ancestor_of_type:chromosome"] = lambda o, c: o.has_ancestor_of_type("chromosome")
        t["has_ancestor_of_type:CHROMOSOME"] = lambda o, c: o.has_ancestor_of_type(SequenceType.CHROMOSOME)
        t["first_ancestor_of_type:chromosome"] = lambda o, c: o.first_ancestor_of_type("chromosome")
        t["lift_over_to_first_ancestor_of_type:chromosome"] = \
            lambda o, c: o.lift_over_to_first_ancestor_of_type("chromosome")
        t["lift_over_to_sequence:chrom"] = lambda o, c: o.lift_over_to_sequence(c.chrom_seq)
        t["has_ancestor_sequence:chrom"] = lambda o, c: o.has_ancestor_sequence(c.chrom_seq)
        t["scan_windows:3,2,1"] = lambda o, c: o.scan_windows(3, 2, 1)
        t["distance_to:o0:outer"] = lambda o, c: o.distance_to(c.operands["o0"], distance_type=_distance_type("OUTER"))
        t["contains:o0:loose"] = lambda o, c: o.contains(c.operands["o0"], match_strand=False, full_span=True,
                                                         strict_parent_compare=True)
        t["parent_to_relative_location:o0:noopt"] = \
            lambda o, c: o.parent_to_relative_location(c.operands["o0"], optimize_blocks=False) \
            if k != "empty" else o.parent_to_relative_location(c.operands["o0"])
    elif k == "parent":
        t["equals_except_location:twin"] = lambda o, c: o.equals_except_location(c.twin)
        t["first_ancestor_of_type:chromosome"] = lambda o, c: o.first_ancestor_of_type("chromosome")
        t["first_ancestor_of_type:CHROMOSOME:noself"] = \
            lambda o, c: o.first_ancestor_of_type(SequenceType.CHROMOSOME, include_self=False)
        t["has_ancestor_of_type:assembly"] = lambda o, c: o.has_ancestor_of_type("assembly")
        t["has_ancestor_of_type:sequence_chunk"] = lambda o, c: o.has_ancestor_of_type("sequence_chunk")
        t["has_ancestor_of_type:CHROMOSOME"] = lambda o, c: o.has_ancestor_of_type(SequenceType.CHROMOSOME)
        t["reset_location:loc"] = lambda o, c: o.reset_location(c.operands["loc"])
        t["has_ancestor_sequence:chrom"] = lambda o, c: o.has_ancestor_sequence(c.chrom_seq)
    elif k == "sequence":
        t["__getitem__:2:7"] = lambda o, c: o[2:7]
        t["__getitem__:3"] = lambda o, c: o[3]
        t["__getitem__:::2"] = lambda o, c: o[:2]
        t["append:other"] = lambda o, c: o.append(c.operands["other"])
        t["append:other:data"] = lambda o, c: o.append(c.operands["other"], data_only=True)
        t["reverse_complement:new"] = lambda o, c: o.reverse_complement(new_id="rc")
        t["to_fasta:10"] = lambda o, c: o.to_fasta(num_chars=10)
        t["first_ancestor_of_type:chromosome"] = lambda o, c: o.first_ancestor_of_type("chromosome")
        t["has_ancestor_of_type:assembly"] = lambda o, c: o.has_ancestor_of_type("assembly")
        t["has_ancestor_of_type:chromosome"] = lambda o, c: o.has_ancestor_of_type("chromosome")
        t["has_ancestor_of_type:CHROMOSOME:noself"] = \
            lambda o, c: o.has_ancestor_of_type(SequenceType.CHROMOSOME, include_self=False)
        t["validate_alphabet:own"] = lambda o, c: Sequence.validate_alphabet(str(o), o.alphabet)
        t["validate_alphabet:bad"] = lambda o, c: Sequence.validate_alphabet(str(o) + "!", o.alphabet)
        t["reverse_complement:new:type"] = lambda o, c: o.reverse_complement(new_id="rc", new_type="rctype")
        t["append:other:newid"] = lambda o, c: o.append(c.operands["other"], new_id="app")
    else:
        # interval kinds ------------------------------------------------------------------
        t["to_dict:chunk"] = lambda o, c: o.to_dict(chromosome_relative_coordinates=False)
        t["to_gff:chunk"] = lambda o, c: o.to_gff(chromosome_relative_coordinates=False)
        t["from_dict:roundtrip"] = lambda o, c: type(o).from_dict(o.to_dict(), o._parent_or_seq_chunk_parent)
        t["from_dict:noparent"] = lambda o, c: type(o).from_dict(o.to_dict())
        t["liftover:chunk2"] = lambda o, c: o.liftover_to_parent_or_seq_chunk_parent(c.chunk2())
        t["has_ancestor_of_type:assembly"] = lambda o, c: o.has_ancestor_of_type("assembly")
        t["has_ancestor_of_type:chromosome"] = lambda o, c: o.has_ancestor_of_type("chromosome")
        t["has_ancestor_of_type:SEQUENCE_CHUNK"] = lambda o, c: o.has_ancestor_of_type(SequenceType.SEQUENCE_CHUNK)
        t["first_ancestor_of_type:chromosome"] = lambda o, c: o.first_ancestor_of_type("chromosome")
        t["lift_over_to_first_ancestor_of_type:chromosome"] = \
            lambda o, c: o.lift_over_to_first_ancestor_of_type("chromosome")
        if k in VARIANT_TARGETS:
            # operations that take a VariantInterval / VariantIntervalCollection (fresh ones per call); the whole
            # placement x type x container grid is in impl_operands.arg_table
            for pl, vt, coll in (("inside", "snv", False), ("aftermin", "ins", True), ("before", "del", False)):
                t[f"incorporate_variants:{pl}:{vt}:{'vc' if coll else 'v'}"] = \
                    (lambda pl, vt, coll: lambda o, c: o.incorporate_variants(c.recipe.build_variants(pl, vt, coll)))(pl, vt, coll)
        if k in FEATURE_LIKE:
            t["to_bed12:chunk"] = lambda o, c: o.to_bed12(chromosome_relative_coordinates=False)
            t["to_bed12:guid"] = lambda o, c: o.to_bed12(score=5, name="guid")
            t["export_qualifiers:parent"] = lambda o, c: o.export_qualifiers({"yy": {"P"}, "zz": {"1", "2"}})
            t["to_gff:parent"] = lambda o, c: o.to_gff(parent="PARENT", parent_qualifiers={"yy": {"P"}, "zz": {"1"}})
            # parent qualifiers under a key the interval carries itself (what GeneInterval.to_gff does for shared keys)
            t["export_qualifiers:shared"] = lambda o, c: o.export_qualifiers(
                {key: {"PARENTVAL"} for key in sorted(o.qualifiers)[:1]})
            for j, p in enumerate(d["pos"][:3]):
                t[f"sequence_pos_to_feature:p{j}"] = (lambda p: lambda o, c: o.sequence_pos_to_feature(p))(p)
                t[f"chunk_relative_pos_to_feature:p{j}"] = (lambda p: lambda o, c: o.chunk_relative_pos_to_feature(p))(p)
            # positions that certainly lie on the interval (a variant is 1-3 bases long)
            t["sequence_pos_to_feature:start"] = lambda o, c: o.sequence_pos_to_feature(o.start)
            t["chunk_relative_pos_to_feature:start"] = \
                lambda o, c: o.chunk_relative_pos_to_feature(o.chunk_relative_location.start)
            t["sequence_interval_to_feature:own"] = lambda o, c: o.sequence_interval_to_feature(o.start, o.end, Strand.PLUS)
            t["feature_interval_to_sequence:0,1"] = lambda o, c: o.feature_interval_to_sequence(0, 1, Strand.PLUS)
            for j in range(3):
                t[f"feature_pos_to_sequence:r{j}"] = (lambda j: lambda o, c: o.feature_pos_to_sequence(j * 4))(j)
                t[f"feature_pos_to_chunk_relative:r{j}"] = (lambda j: lambda o, c: o.feature_pos_to_chunk_relative(j * 4))(j)
            a, b = d["window"]
            t["sequence_interval_to_feature:win"] = lambda o, c: o.sequence_interval_to_feature(a, b, Strand.PLUS)
            t["feature_interval_to_sequence:2,9"] = lambda o, c: o.feature_interval_to_sequence(2, 9, Strand.PLUS)
            t["feature_interval_to_chunk_relative:2,9"] = \
                lambda o, c: o.feature_interval_to_chunk_relative(2, 9, Strand.PLUS)
            t["chunk_relative_interval_to_feature:win"] = \
                lambda o, c: o.chunk_relative_interval_to_feature(max(0, a - 3), b, Strand.PLUS)
        if k in ("cds", "transcript"):
            # the remaining coordinate conversions (position / interval, CDS / transcript / chunk-relative)
            a, b = d["window"]
            names = ["cds_interval_to_chunk_relative", "cds_interval_to_sequence", "chunk_relative_interval_to_cds",
                     "sequence_interval_to_cds"]
            pnames = ["cds_pos_to_chunk_relative", "chunk_relative_pos_to_cds"]
            if k == "transcript":
                names += ["chunk_relative_interval_to_transcript", "sequence_interval_to_transcript",
                          "transcript_interval_to_chunk_relative"]
                pnames += ["chunk_relative_pos_to_transcript", "transcript_pos_to_chunk_relative"]
            for m in names:
                if m.startswith(("cds_interval", "transcript_interval")):
                    t[f"{m}:2,9"] = (lambda m: lambda o, c: getattr(o, m)(2, 9, Strand.PLUS))(m)
                else:
                    t[f"{m}:win"] = (lambda m: lambda o, c: getattr(o, m)(a, b, Strand.PLUS))(m)
            for m in pnames:
                if m.startswith(("cds_pos", "transcript_pos")):
                    t[f"{m}:r1"] = (lambda m: lambda o, c: getattr(o, m)(4))(m)
                else:
                    t[f"{m}:p0"] = (lambda m, p: lambda o, c: getattr(o, m)(p))(m, d["pos"][0])
        if k == "variant":
            _variant_calls(t, d)
        if k == "varcoll":
            _variant_calls(t, d)
            t["query_by_guids:first"] = lambda o, c: o.query_by_guids([next(iter(o)).guid])
            t["query_by_guids:all"] = lambda o, c: o.query_by_guids([x.guid for x in o])
            t["query_by_guids:none"] = lambda o, c: o.query_by_guids([uuid.UUID(int=7)])
            t["query_by_guids:single"] = lambda o, c: o.query_by_guids(next(iter(o)).guid)
            t["__iter__"] = lambda o, c: iter(o)
            for name in ("to_dict", "chromosome_location", "qualifiers", "alternative_genomic_sequence",
                         "parent_with_alternative_sequence", "length_difference"):
                t["child0." + name] = (lambda name: lambda o, c: _get(next(iter(o)), name))(name)
        if k in ("transcript", "feature"):
            a, b = d["window"]
            t["intersect:win"] = lambda o, c: o.intersect(SingleInterval(a, b, Strand.PLUS))
            t["intersect:win:nostrand"] = lambda o, c: o.intersect(SingleInterval(a, b, Strand.MINUS), match_strand=False)
        if k == "cds":
            _cds_calls(t, d, L, "")
        if k == "transcript":
            for tr in (False, True):
                for tt in ("DEFAULT", "PROKARYOTE"):
                    t[f"get_protein_sequence:{int(tr)},{tt}"] = (lambda tr, tt: lambda o, c: o.get_protein_sequence(
                        truncate_at_in_frame_stop=tr, translation_table=TranslationTable[tt]))(tr, tt)
            for j, p in enumerate(d["pos"][:3]):
                for m in ("sequence_pos_to_transcript", "sequence_pos_to_cds", "chunk_relative_pos_to_cds"):
                    t[f"{m}:p{j}"] = (lambda m, p: lambda o, c: getattr(o, m)(p))(m, p)
            for j in range(3):
                for m in ("transcript_pos_to_sequence", "cds_pos_to_sequence", "cds_pos_to_transcript",
                          "transcript_pos_to_cds", "cds_pos_to_chunk_relative"):
                    t[f"{m}:r{j}"] = (lambda m, j: lambda o, c: getattr(o, m)(j * 4))(m, j)
            t["cds_interval_to_sequence:1,7"] = lambda o, c: o.cds_interval_to_sequence(1, 7, Strand.PLUS)
            t["transcript_interval_to_sequence:1,7"] = lambda o, c: o.transcript_interval_to_sequence(1, 7, Strand.PLUS)
            sub = {}
            _cds_calls(sub, d, L, "")
            for name, fn in sub.items():
                t["cds." + name] = (lambda fn: lambda o, c: fn(o.cds, c))(fn)
            for name in CDS_CHILD_NAMES:
                t["cds." + name] = (lambda name: lambda o, c: _get(o.cds, name))(name)
        if k in ("gene", "featcoll"):
            t["query_by_guids:first"] = lambda o, c: o.query_by_guids([next(iter(o)).guid])
            t["query_by_guids:all"] = lambda o, c: o.query_by_guids([x.guid for x in o])
            t["query_by_guids:none"] = lambda o, c: o.query_by_guids([uuid.UUID(int=7)])
            t["__iter__"] = lambda o, c: iter(o)
            for name in ("to_gff", "export_qualifiers", "to_dict", "chromosome_location", "get_spliced_sequence",
                         "qualifiers", "chunk_relative_location", "to_bed12"):
                t["child0." + name] = (lambda name: lambda o, c: _get(next(iter(o)), name))(name)
            t["child0.__hash__"] = lambda o, c: hash(next(iter(o))) == hash(next(iter(c.recipe.build())))
            if k == "gene":
                for name in CDS_CHILD_NAMES:
                    t["cds0." + name] = (lambda name: lambda o, c: _get(o.get_primary_cds(), name))(name)
        if k == "annot":
            a, b = d["window"]
            t["query_by_position:win"] = lambda o, c: o.query_by_position(a, b)
            t["query_by_position:win:overlap"] = lambda o, c: o.query_by_position(a, b, completely_within=False)
            t["query_by_position:win:coding"] = lambda o, c: o.query_by_position(a, b, coding_only=True, completely_within=False)
            t["query_by_position:win:expand"] = \
                lambda o, c: o.query_by_position(a, b, completely_within=False, expand_location_to_children=True)
            t["query_by_guids:all"] = lambda o, c: o.query_by_guids([x.guid for x in o])
            t["query_by_guids:first"] = lambda o, c: o.query_by_guids(next(iter(o)).guid)
            t["query_by_interval_guids:all"] = lambda o, c: o.query_by_interval_guids(
                [y.guid for x in o for y in x])
            t["query_by_transcript_interval_guids:all"] = lambda o, c: o.query_by_transcript_interval_guids(
                [y.guid for x in o.genes for y in x])
            t["query_by_feature_interval_guids:all"] = lambda o, c: o.query_by_feature_interval_guids(
                [y.guid for x in o.feature_collections for y in x])
            t["query_by_feature_identifiers:G0"] = lambda o, c: o.query_by_feature_identifiers(["G0", "fc5", "LT0"])
            t["get_children_by_type:gene"] = lambda o, c: o.get_children_by_type("gene")
            t["get_children_by_type:feature"] = lambda o, c: o.get_children_by_type("feature_collection")
            t["to_dict:parent"] = lambda o, c: o.to_dict(export_parent=True)
            t["__setstate__:pickle"] = _pickle_roundtrip
            t["__iter__"] = lambda o, c: iter(o)
            t["to_genbank"] = _to_genbank
            for name in CDS_CHILD_NAMES:
                t["cds0." + name] = (lambda name: lambda o, c: _get(
                    o.genes[0].get_primary_cds() if o.genes else None, name))(name)
            for name in ("to_gff", "export_qualifiers", "to_dict", "qualifiers"):
                t["child0." + name] = (lambda name: lambda o, c: _get(next(iter(o)), name))(name)
            t["child0.__hash__"] = lambda o, c: hash(next(iter(o))) == hash(next(iter(c.recipe.build())))
    return t


# accessors of the CDS of a transcript / of the primary CDS of a gene / of the first gene of a collection
FLAG_SETTERS = ("num_chunk_relative_codons", "chunk_relative_codon_locations")      # set `_chunk_relative_codon_locations_cached`
CHROMOSOME_LEVEL = ("num_codons", "chromosome_codon_locations", "translate", "extract_sequence", "has_valid_stop",
                    "to_dict", "guid", "has_in_frame_stop", "chunk_relative_frames", "frames", "chromosome_location",
                    "has_canonical_start_codon", "scan_codons", "__hash__")
CDS_CHILD_NAMES = FLAG_SETTERS + CHROMOSOME_LEVEL


def _cds_calls(t, d, L, prefix):
    for tr in (False, True):
        for tt in ("DEFAULT", "PROKARYOTE"):
            t[f"translate:{int(tr)},{tt}"] = (lambda tr, tt: lambda o, c: o.translate(
                truncate_at_in_frame_stop=tr, translation_table=TranslationTable[tt]))(tr, tt)
    t["scan_codons:trunc"] = lambda o, c: o.scan_codons(truncate_at_in_frame_stop=True)
    t["has_start_codon_in_specific_translation_table:PROKARYOTE"] = \
        lambda o, c: o.has_start_codon_in_specific_translation_table(TranslationTable.PROKARYOTE)
    for j in range(24):
        a, b = _windows(L, j)
        t[f"scan_chromosome_codon_locations:w{j}"] = (lambda a, b: lambda o, c: o.scan_chromosome_codon_locations(a, b))(a, b)
        t[f"scan_chunk_relative_codon_locations:w{j}"] = \
            (lambda a, b: lambda o, c: o.scan_chunk_relative_codon_locations(a, b))(a, b)
    t["scan_chromosome_codon_locations:w0:expand"] = \
        lambda o, c: o.scan_chromosome_codon_locations(*_windows(L, 0), expand_window_to_partial_codons=True)
    for j, p in enumerate(d["pos"][:3]):
        t[f"sequence_pos_to_cds:p{j}"] = (lambda p: lambda o, c: o.sequence_pos_to_cds(p))(p)
        t[f"sequence_pos_to_amino_acid:p{j}"] = (lambda p: lambda o, c: o.sequence_pos_to_amino_acid(p))(p)
    for j in range(3):
        t[f"cds_pos_to_sequence:r{j}"] = (lambda j: lambda o, c: o.cds_pos_to_sequence(j * 4))(j)


def _distance_type(name):
    from inscripta.biocantor import DistanceType
    return DistanceType[name]


def variant_probe_locations(d, parent):
    """locations handed to `lift_over_location`: before / across / after the (first) variant, single and compound, on
    `parent` (chromosome coordinates)"""
    vs = [d["var"]] if "var" in d else sorted(d["vc"]["vars"], key=lambda v: v["start"])
    s, e, L = vs[0]["start"], vs[-1]["end"], d["L"]
    out = {"before": SingleInterval(0, max(1, vs[0]["start"] - 1), Strand.PLUS, parent=parent),
           "over": SingleInterval(max(0, s - 2), min(L, vs[0]["end"] + 3), Strand.MINUS, parent=parent),
           "after": SingleInterval(min(L - 1, e + 1), L, Strand.PLUS, parent=parent),
           "within": SingleInterval(vs[0]["start"], vs[0]["end"], Strand.PLUS, parent=parent)}
    if s >= 2 and e + 2 <= L:
        out["compound"] = CompoundInterval([0, max(1, s - 1), e + 1], [1, min(L, vs[0]["end"] + 1), L], Strand.PLUS,
                                           parent=parent)
    return out


def _variant_calls(t, d):
    """VariantInterval / VariantIntervalCollection: lifting locations over the variant(s)"""
    for name in ("before", "over", "after", "within", "compound"):
        t[f"lift_over_location:{name}"] = (lambda name: lambda o, c: o.lift_over_location(
            variant_probe_locations(c.recipe.data, c.recipe.chromosome_parent(False))[name]))(name)
        # the location hangs on the object's own kind of parent (chunk-relative in chunk mode)
        t[f"lift_over_location:{name}:own"] = (lambda name: lambda o, c: o.lift_over_location(
            AbstractInterval.liftover_location_to_seq_chunk_parent(
                variant_probe_locations(c.recipe.data, None)[name], c.recipe.parent())))(name)
    t["lift_over_location:empty"] = lambda o, c: o.lift_over_location(_empty())


def _empty():
    from inscripta.biocantor.location.location_impl import EmptyLocation
    return EmptyLocation()


def _get(o, name):
    if o is None:
        return None
    if name == "__hash__":
        return hash(o) == hash(o)      # raw hashes are salted per process; that it can be hashed at all is the answer
    v = getattr(o, name)
    st = inspect.getattr_static(type(o), name, None)
    if type(st).__name__ in ("function", "_MethodRope"):
        return v()
    return v


def _pickle_roundtrip(o, c):
    """AnnotationCollection defines __getstate__ / __setstate__: the unpickled copy is asked for its dictionary form"""
    import pickle
    return pickle.loads(pickle.dumps(o))


def _to_genbank(o, c):
    from inscripta.biocantor.io.genbank.writer import collection_to_genbank
    buf = io.StringIO()
    collection_to_genbank([o], buf)
    # the date stamp is not part of the answer
    return re.sub(r"\d{2}-[A-Z]{3}-\d{4}", "DATE", buf.getvalue())


def call_table(recipe, obj):
    """{token: fn(obj, ctx)}; deterministic for a given repo + recipe kind/mode"""
    table = {}
    for tok, (how, name) in introspected(obj).items():
        if how == "prop":
            table[tok] = (lambda name: lambda o, c: getattr(o, name))(name)
        else:
            table[tok] = (lambda name: lambda o, c: getattr(o, name)())(name)
    table.update(_tables(recipe, obj))
    return table


CDS_SEQ_ACCESSORS = {"extract_sequence", "get_cds_sequence", "get_primary_cds_sequence", "has_valid_stop", "scan_codons",
                     "translate", "has_in_frame_stop", "has_canonical_start_codon",
                     "has_start_codon_in_specific_translation_table", "get_protein_sequence", "get_primary_protein"}
CDS_WHATS = {"type(str!=Sequence)", "exc(AttributeError)", "noexc(NullParentException)", "noexc(NullSequenceException)",
             "exc(StopIteration)"}
SPELL_WHATS = {"val(seqtype-spelling)", "type(str!=SequenceType)", "type(SequenceType!=str)"}
EXPORT_BASES = {"export_qualifiers", "to_gff", "to_genbank"}


def family(tok, what):
    """Purely syntactic grouping of a digest item, so that findings/C10.json can match narrowly:
      seqtype-spelling  the only difference is str vs SequenceType of a sequence_type     (open finding F-C10c)
      ancestor-depth    the only difference: the recipes' assembly level is present / absent above a level of the
                        object's own hierarchy                                              (open finding F-C10h)
      qualifier-alias   a GFF3/GenBank/qualifier export changed qualifier sets of the object
                        (shape of the repaired defect F-C10b — NOT matched by any finding any more)
      cds-path          a CDS-sequence accessor answered with the wrong type / error
                        (shape of the repaired defect F-C10a — NOT matched by any finding any more)
      other             anything else — never matched by a finding"""
    b = base_name(tok)
    if what in SPELL_WHATS:
        return "seqtype-spelling"
    if what == "val(ancestor-depth)":
        return "ancestor-depth"
    if what == "mut(qualifiers)" and b in EXPORT_BASES:
        return "qualifier-alias"
    if b in CDS_SEQ_ACCESSORS and (what in CDS_WHATS or (b == "scan_codons" and what == "val(len)")):
        return "cds-path"
    return "other"


def base_name(tok):
    """`cds.translate:1,DEFAULT` -> `translate` (the accessor, without the child prefix and the argument variant)"""
    return tok.split(":")[0].split(".")[-1]


def is_export(tok):
    base = tok.split(":")[0].split(".")[-1]
    return base.startswith(EXPORTS)


def ask(fn, obj, ctx):
    """canonical answer (value + type), exceptions included"""
    try:
        with warnings.catch_warnings():
            warnings.simplefilter("ignore")
            return canon(fn(obj, ctx))
    except RecursionError:
        return "exc:RecursionError"
    except Exception as e:  # noqa
        return "exc:" + type(e).__name__


def snapshot(obj, ctx):
    """what the property calls the observable state of the object and of the operands of its operations"""
    out = {"__type__": "snapshot"}
    for name, o in [("self", obj)] + sorted(ctx.operands.items()):
        try:
            h = f"int:{hash(o)}"
        except Exception as e:  # noqa
            h = "exc:" + type(e).__name__
        try:
            s = "str:" + ADDR.sub("", str(o))
        except Exception as e:  # noqa
            s = "exc:" + type(e).__name__
        rec = {"__type__": "operand", "canon": canon(o), "hash": h, "str": s}
        if isinstance(o, AbstractInterval):
            rec["qualifiers"] = canon(getattr(o, "qualifiers", None))
            rec["children"] = ["list"] + [
                {"__type__": "child", "guid": canon(ch.guid), "qualifiers": canon(ch.qualifiers), "hash": f"int:{hash(ch)}",
                 "location": _child_location(ch)}
                for ch in _children(o)]
        out[name] = rec
    try:
        out["eq_twin"] = f"bool:{obj == ctx.recipe.build()}"      # a twin built NOW, whatever the caches hold
    except Exception as e:  # noqa
        out["eq_twin"] = "exc:" + type(e).__name__
    return out


def _child_location(ch):
    """where a child sits: its location with the whole parent chain (ids, sequence types, BASES of the sequence)"""
    try:
        return _canon_loc(ch.chunk_relative_location, 0, with_parent=True)
    except Exception as e:  # noqa
        return "exc:" + type(e).__name__


def snap_diff(a, b):
    """differences over the operands present in both snapshots (the twin operand exists only once it was needed)"""
    common = [k for k in a if k in b]
    return diff({k: a[k] for k in common}, {k: b[k] for k in common})


def _children(o):
    try:
        kids = list(o.iter_children()) if hasattr(o, "iter_children") else []
    except Exception:  # noqa
        return []
    out = []
    for ch in kids:
        out.append(ch)
        out += _children(ch)
    if getattr(o, "cds", None) is not None:
        out.append(o.cds)
    return out


def _qual_sets(o, prefix, out):
    for k, v in (getattr(o, "qualifiers", None) or {}).items():
        out[f"{prefix}/{k}"] = frozenset(v)
    for i, ch in enumerate(_children(o)):
        for k, v in (getattr(ch, "qualifiers", None) or {}).items():
            out[f"{prefix}/child{i}/{k}"] = frozenset(v)
    return out


def _mut_label(paths, before=None, after=None):
    """`mut(qualifiers)` ONLY for the exact shape of F-C10b: nothing but qualifier sets read differently, no key was
    added or removed, and every set that changed GAINED values (superset of what it was)."""
    if all(p.endswith("#spelling") for p in paths):
        return "val(seqtype-spelling)"
    qp = [p for p in paths if p != "/eq_twin"]
    if qp and all("qualifiers" in p for p in qp):
        if before is not None and set(before) == set(after) and all(before[k] <= after[k] for k in before) \
                and any(before[k] < after[k] for k in before):
            return "mut(qualifiers)"
        return "mut(qualifier-keys-or-loss)"
    return f"mut({_short(paths[0])})"


def filler(tok, recipe, seed, step, table=None, tokens=()):
    if tok[0] == "P" and tok[1:].isdigit():
        for i in range(int(tok[1:])):
            Parent(id=f"fill{seed}_{step}_{i}")
        return True
    if tok in ("T:s", "T:e"):
        for name in ("CHROMOSOME", "SEQUENCE_CHUNK"):
            ty = getattr(SequenceType, name)
            ty = ty.value if tok == "T:s" else ty
            ident = f"unrel{seed}_{step}"
            inner = Parent(id=ident + "i", sequence_type=ty)
            Parent(id=ident, sequence_type=ty)
            Parent(id=ident + "s", sequence=Sequence("A", Alphabet.NT_STRICT, type=ty))
            Parent(location=SingleInterval(0, 1, Strand.PLUS, parent=inner))
            Parent(id=ident + "b", sequence_type=ty, sequence=Sequence("A", Alphabet.NT_STRICT, type=ty))
            # the same spelling question for Parents EQUAL to the object's own chromosome parent
            Parent(id=recipe.data["chrom"], sequence_type=ty)
        return True
    if tok == "W":
        recipe.build()
        return True
    if tok == "S":
        sibs = recipe.siblings()
        # which sibling comes first varies with the line (a first-writer-wins memo keeps the FIRST sibling's value)
        k = (seed + step) % len(sibs)
        for sib in sibs[k:] + sibs[:k]:
            try:
                so = sib.build()
            except Exception:  # noqa  (a sibling may be unconstructible, e.g. frames no longer fit)
                continue
            # ... and ask the sibling everything this history asks (answers dropped): whatever is memoised across
            # objects now holds the SIBLING's values
            sc = Ctx(sib, so)
            for tk in dict.fromkeys(tokens):
                if table is not None and tk in table:
                    ask(table[tk], so, sc)
        return True
    if tok == "X":
        cold()
        return True
    return False


def is_filler(tok):
    return tok in ("T:s", "T:e", "W", "X", "S") or (tok[0] == "P" and tok[1:].isdigit())


def make_recipe(kindmode, seed):
    """`<kind>.<mode>[.<e|s>[.<lo|hi|both|inh>]]` + object seed -> Recipe"""
    kind, mode, spelling, cut = (kindmode.split(".") + [None, None])[:4]
    if cut == "inh":        # parent-level qualifiers under the keys the children's exporters add (see G.make)
        return G.make(kind, random.Random(seed), mode, spelling, None, inherit=True)
    return G.make(kind, random.Random(seed), mode, spelling, cut)


def reference_answers(kindmode, seed, tokens):
    """{call token: canonical answer of a freshly built twin asked this ONE question under cold caches}"""
    recipe = make_recipe(kindmode, seed)
    cold()
    table = call_table(recipe, recipe.build())
    ref = {}
    for tok in tokens:
        if is_filler(tok) or tok in ref:
            continue
        if tok not in table:
            return {"__unknown__": tok}
        cold()
        twin = recipe.build()
        ref[tok] = ask(table[tok], twin, Ctx(recipe, twin))
    return ref


# Every `hist` line is evaluated by a helper process (one per worker) that has imported the library but never calls it:
# it forks child A to compute the references and child B to run the history against them.  Both are PRISTINE copies of
# the same interpreter (same hash salt), so (i) state that survives `cache_clear()` — a module- or class-level memo —
# cannot leak from earlier operation lines or from this line's history into the references, and (ii) the verdict of a
# line does not depend on which worker evaluates it.  If the helper cannot be started the line is evaluated in-process
# (cold caches only).
_SERVER = {"proc": None, "failed": False}


def _server():
    if _SERVER["failed"] or os.environ.get("VERIF_C10_INPROCESS"):
        return None
    p = _SERVER["proc"]
    if p is not None and p.poll() is None and _SERVER.get("pid") == os.getpid():
        return p
    try:
        p = subprocess.Popen([sys.executable, "-m", "harness.impl_history"], stdin=subprocess.PIPE,
                             stdout=subprocess.PIPE, text=True, bufsize=1,
                             cwd=os.path.dirname(os.path.dirname(os.path.abspath(__file__))))
        if p.stdout.readline().strip() != "ready":
            raise RuntimeError("history helper did not start")
        _SERVER.update(proc=p, pid=os.getpid())
        return p
    except Exception:  # noqa
        _SERVER["failed"] = True
        return None


def isolation_mode():
    return "helper process: pristine forked children per history (references / history)" if _server() is not None \
        else "in-process (cold caches only)"


def isolated_history(kindmode, seed, tokens):
    p = _server()
    if p is not None:
        try:
            p.stdin.write(json.dumps({"km": kindmode, "seed": seed, "toks": tokens}) + "\n")
            p.stdin.flush()
            ans = json.loads(p.stdout.readline())
            if "out" in ans:
                return ans["out"]
        except Exception:  # noqa
            _SERVER["failed"] = True
    return run_history(kindmode, seed, tokens, reference_answers(kindmode, seed, tokens))


def isolated_line(tokens):
    """a warm / args / lazy line, evaluated in a pristine forked child of the helper (in-process if there is no helper)"""
    p = _server()
    if p is not None:
        try:
            p.stdin.write(json.dumps({"line": tokens}) + "\n")
            p.stdin.flush()
            ans = json.loads(p.stdout.readline())
            if "out" in ans:
                return ans["out"]
        except Exception:  # noqa
            _SERVER["failed"] = True
    from harness import impl_operands
    return impl_operands.run_line(tokens)


def _in_child(fn):
    """run fn() in a forked child, return its JSON-able result"""
    r, w = os.pipe()
    pid = os.fork()
    if pid == 0:
        os.close(r)
        try:
            signal.alarm(600)          # a history that hangs is reported, not waited for
            out = json.dumps({"ok": fn()})
        except BaseException as e:  # noqa
            out = json.dumps({"err": type(e).__name__ + ": " + str(e)[:200]})
        with os.fdopen(w, "w") as fh:
            fh.write(out)
        os._exit(0)
    os.close(w)
    with os.fdopen(r) as fh:
        out = fh.read()
    os.waitpid(pid, 0)
    return json.loads(out) if out else {"err": "no answer"}


def serve():
    """main loop of the helper: never touches the library itself"""
    # imported (not run) here, so that the forked children do not pay for the import on every line; importing it makes no
    # library call
    from harness import impl_operands  # noqa: F401
    # ... and the modules the library itself imports lazily inside functions (parent_with_alternative_sequence,
    # AnnotationCollection.from_dict -> io.parser; the GenBank writer of the `to_genbank` question)
    for name in ("inscripta.biocantor.io.parser", "inscripta.biocantor.io.genbank.writer"):
        try:
            __import__(name)
        except Exception:  # noqa  (then the children import it themselves, as before)
            pass
    sys.stdout.write("ready\n")
    sys.stdout.flush()
    for line in sys.stdin:
        try:
            req = json.loads(line)
        except ValueError:
            break
        if "line" in req:       # warm / args / lazy lines (harness/impl_operands.py): one pristine child does it all
            def one():
                from harness import impl_operands
                return guarded(lambda: impl_operands.run_line(req["line"]))
            b = _in_child(one)
            res = {"out": b["ok"]} if "ok" in b else {"out": "err! Harness:" + b["err"].replace(" ", "_")}
            sys.stdout.write(json.dumps(res) + "\n")
            sys.stdout.flush()
            continue
        a = _in_child(lambda: reference_answers(req["km"], req["seed"], req["toks"]))
        if "ok" not in a:
            res = {"out": "err! Harness:" + a["err"].replace(" ", "_")}
        else:
            b = _in_child(lambda: guarded(lambda: run_history(req["km"], req["seed"], req["toks"], a["ok"])))
            res = {"out": b["ok"]} if "ok" in b else {"out": "err! Harness:" + b["err"].replace(" ", "_")}
        sys.stdout.write(json.dumps(res) + "\n")
        sys.stdout.flush()


def run_history(kindmode, seed, tokens, ref, snap_every=True):
    recipe = make_recipe(kindmode, seed)
    rng = random.Random(seed * 7919 + 13)
    if "__unknown__" in ref:
        return f"err! UnknownCall:{ref['__unknown__']}"
    cold()
    table = call_table(recipe, recipe.build())
    # the object under test
    cold()
    obj = ctx = snap0 = None
    items = []
    for step, tok in enumerate(tokens):
        if filler(tok, recipe, seed, step, table, tokens):
            continue
        if obj is None:
            obj = recipe.build()
            ctx = Ctx(recipe, obj)
            pristine = recipe.build()
            pctx = Ctx(recipe, pristine)
            pctx.twin                                       # noqa: the pristine reading includes an untouched twin operand
            snap0 = snapshot(pristine, pctx)
            quals0 = _qual_sets(pristine, "", {})
        got = ask(table[tok], obj, ctx)
        what = classify(got, ref[tok])
        if what:
            items.append((tok, step, what))
        if snap_every and (is_export(tok) or rng.random() < 0.25):
            ds = snap_diff(snapshot(obj, ctx), snap0)
            if ds:
                items.append((tok, step, _mut_label(ds, quals0, _qual_sets(obj, "", {}))))
                if not all(p.endswith("#spelling") for p in ds):
                    break   # the object is no longer the object the references were computed for
    else:
        if obj is not None:
            ds = snap_diff(snapshot(obj, ctx), snap0)
            if ds:
                items.append(("end", len(tokens), _mut_label(ds, quals0, _qual_sets(obj, "", {}))))
    if not items:
        return "ok -"
    classes = ",".join(sorted({f"{base_name(tok)}:{what}" for tok, _, what in items}))
    shown = " ".join(f"{tok}@{step}:{what}" for tok, step, what in items[:8])
    more = f" +{len(items) - 8}" if len(items) > 8 else ""
    fams = "+".join(sorted({family(tok, what) for tok, _, what in items}))
    return f"ok fam={fams} {classes} {shown}{more}"


# ----------------------------------------------------------------------------------------------
# the small cache-discipline operations

def _pattern_call(fn, info, cap):
    before = info()
    v = fn()
    after = info()
    if after.hits > before.hits:
        return v, "H"
    if cap > 0 and before.currsize == cap:
        return v, "E"
    return v, "M"


def op_lru(t):
    cap, n = int(t[1]), int(t[2])
    keys = [int(x) for x in t[3:3 + n]]

    @functools.lru_cache(maxsize=cap)
    def f(k):
        return 3 * k + 1
    outs, pat = [], []
    for k in keys:
        v, e = _pattern_call(lambda: f(k), f.cache_info, cap)
        outs.append(v)
        pat.append(e)
    return f"ok {len(outs)} {' '.join(map(str, outs))} {''.join(pat)}"


def op_plru(t):
    n = int(t[2])
    keys = [int(x) for x in t[3:3 + n]]
    cold()
    cap = Parent.cache_info().maxsize
    pat = []
    first = {}
    for k in keys:
        p, e = _pattern_call(lambda: Parent(id=f"lru{k}"), Parent.cache_info, cap)
        if p.id != f"lru{k}":
            return "err! WrongValue"
        # a hit must hand out the very object stored at the miss
        if e == "H" and first.get(k) is not p:
            return "err! HitReturnedOtherObject"
        if e != "H":
            first[k] = p
        pat.append(e)
    cold()
    return "ok " + "".join(pat)


def op_memo(t):
    from methodtools import lru_cache as mlru
    cap, n = int(t[1]), int(t[2])
    calls = [(int(t[3 + 2 * i]), int(t[4 + 2 * i])) for i in range(n)]

    class Obj:
        def __init__(self, o):
            self.o = o

        @mlru(maxsize=cap)
        def m(self, k):
            return 100 * self.o + k
    objs = {}
    outs, pat = [], []
    for o, k in calls:
        ob = objs.setdefault(o, Obj(o))
        v, e = _pattern_call(lambda: ob.m(k), ob.m.cache_info, cap)
        outs.append(v)
        pat.append(e)
    return f"ok {len(outs)} {' '.join(map(str, outs))} {''.join(pat)}"


def op_lazyloc(t):
    st = G.STRANDS[t[1]]
    k = int(t[2])
    blocks = [(int(t[3 + 2 * i]), int(t[4 + 2 * i])) for i in range(k)]
    m = int(t[3 + 2 * k])
    reads = t[4 + 2 * k:4 + 2 * k + m]
    loc = CompoundInterval([b[0] for b in blocks], [b[1] for b in blocks], st)
    out = []
    for r in reads:
        if r == "ov":
            out.append("true" if loc.is_overlapping else "false")
        else:
            out.append("b:" + ",".join(f"{b.start}-{b.end}" for b in loc.blocks))
    return "ok " + " ".join(out)


def op_pstrand(t):
    sa = None if t[1] == "N" else G.STRANDS[t[1]]
    if t[2] == "N":
        ls, ln, n = None, None, int(t[3])
    else:
        ls, ln, n = G.STRANDS[t[2]], int(t[3]), int(t[4])
    sym = {None: "N", Strand.PLUS: "+", Strand.MINUS: "-", Strand.UNSTRANDED: "."}

    def ask():
        try:
            p = Parent(strand=sa, location=None if ls is None else SingleInterval(0, ln, ls))
        except Exception as e:  # noqa
            return "err:" + exc_token(e).split()[1]
        return " ".join(sym[p.strand] for _ in range(n))

    cold()
    fresh = ask()
    cold()
    # Parents differing from the one asked about in ONE strand (explicit strand / location strand)
    for a in (None, Strand.PLUS, Strand.MINUS, Strand.UNSTRANDED):
        for b in (None, Strand.PLUS, Strand.MINUS, Strand.UNSTRANDED):
            if (a is sa) != (b is ls):
                try:
                    Parent(strand=a, location=None if b is None else SingleInterval(0, ln or 0, b)).strand
                except Exception:  # noqa
                    pass
    warm = ask()
    cold()
    return f"ok {fresh} / {warm}"


def build_cds_literal(t, i):
    """`<strand> <k> (<start> <end>){k} <genome> [<chunk start> <chunk end>]`: CDS with start frame 0, on the chromosome
    or (with a window) on a sequence chunk built like io.parser.seq_chunk_to_parent"""
    st = G.STRANDS[t[i]]
    k = int(t[i + 1])
    blocks = [(int(t[i + 2 + 2 * j]), int(t[i + 3 + 2 * j])) for j in range(k)]
    genome = t[i + 2 + 2 * k]
    window = (int(t[i + 3 + 2 * k]), int(t[i + 4 + 2 * k])) if len(t) > i + 4 + 2 * k else None
    order = blocks if st != Strand.MINUS else blocks[::-1]
    frames, f = [], 0
    for s, e in order:
        frames.append(CDSFrame(f))
        f = (f + e - s) % 3
    if st == Strand.MINUS:
        frames = frames[::-1]
    if window is None:
        parent = Parent(id="chr", sequence_type=SequenceType.CHROMOSOME,
                        sequence=Sequence(genome, Alphabet.NT_EXTENDED_GAPPED, type=SequenceType.CHROMOSOME))
    else:
        cs, ce = window
        cid = f"chr:{cs}-{ce}"
        parent = Parent(id=cid, sequence=Sequence(
            genome[cs:ce], Alphabet.NT_EXTENDED_GAPPED, id=cid, type=SequenceType.SEQUENCE_CHUNK,
            parent=Parent(location=SingleInterval(cs, ce, Strand.PLUS,
                                                  parent=Parent(id="chr", sequence_type=SequenceType.CHROMOSOME)))))
    return CDSInterval([b[0] for b in blocks], [b[1] for b in blocks], st, frames, parent_or_seq_chunk_parent=parent)


def op_cdshist(t):
    cold()
    cds = build_cds_literal(t, 5)
    out = []
    for ch in t[4]:
        try:
            if ch == "c":
                out.append(f"n:{len(cds.chunk_relative_codon_locations)}")
            elif ch == "n":
                out.append(f"n:{cds.num_chunk_relative_codons}")
            elif ch == "e":
                s = cds.extract_sequence()
                out.append(f"{type(s).__name__}:{s}")
            elif ch == "v":
                out.append("true" if cds.has_valid_stop else "false")
            elif ch == "N":
                out.append(f"n:{cds.num_codons}")
        except Exception as e:  # noqa
            tok = exc_token(e)
            out.append("err!" if tok.startswith("err!") else "err:" + tok.split()[1])
    return "ok " + " ".join(out)


def _parse_qdict(t, i):
    n = int(t[i])
    i += 1
    d = []
    for _ in range(n):
        key, m = int(t[i]), int(t[i + 1])
        vals = [int(x) for x in t[i + 2:i + 2 + m]]
        d.append((key, vals))
        i += 2 + m
    return d, i


def _show_qdict(d):
    items = sorted((int(k[1:]), sorted(int(v[1:]) for v in vals)) for k, vals in d.items())
    return f"{len(items)}" + "".join(f" {k} {len(v)}" + "".join(f" {x}" for x in v) for k, v in items)


def op_merge(t):
    own, i = _parse_qdict(t, 1)
    other, _ = _parse_qdict(t, i)
    feat = FeatureInterval([0], [5], Strand.PLUS, qualifiers={f"k{k}": [f"v{v}" for v in vs] for k, vs in own})
    result = feat.export_qualifiers({f"k{k}": {f"v{v}" for v in vs} for k, vs in other})
    return f"ok {_show_qdict(result)} {_show_qdict(feat.qualifiers)}"


EXPORT_KEYS = {100: "protein_id", 101: "product"}        # the keys `CDSInterval.export_qualifiers` adds identifiers under


def _kname(k):
    return EXPORT_KEYS.get(k, f"k{k}")


def _show_qdict_named(d):
    back = {v: k for k, v in EXPORT_KEYS.items()}
    items = sorted((back[k] if k in back else int(k[1:]), sorted(int(v[1:]) for v in vals)) for k, vals in d.items())
    return f"{len(items)}" + "".join(f" {k} {len(v)}" + "".join(f" {x}" for x in v) for k, v in items)


def op_export(t):
    """`export <own> <other> <n> (key val){n}`: CDSInterval.export_qualifiers(parent_qualifiers=other); the (key, val) pairs
    say which identifiers the CDS carries (100 protein_id, 101 product)"""
    own, i = _parse_qdict(t, 1)
    other, i = _parse_qdict(t, i)
    n = int(t[i])
    ids = {int(t[i + 1 + 2 * j]): int(t[i + 2 + 2 * j]) for j in range(n)}
    cds = CDSInterval([0], [6], Strand.PLUS, [CDSFrame.ZERO],
                      qualifiers={_kname(k): [f"v{v}" for v in vs] for k, vs in own},
                      protein_id=f"v{ids[100]}" if 100 in ids else None, product=f"v{ids[101]}" if 101 in ids else None)
    pq = {_kname(k): {f"v{v}" for v in vs} for k, vs in other}
    result = cds.export_qualifiers(pq)
    return f"ok {_show_qdict_named(result)} {_show_qdict_named(cds.qualifiers)} {_show_qdict_named(pq)}"


OPS = {"export": op_export, "lru": op_lru, "plru": op_plru, "memo": op_memo, "lazyloc": op_lazyloc, "pstrand": op_pstrand,
       "cdshist": op_cdshist, "merge": op_merge}


def impl_history_op(line):
    t = line.split()

    def go():
        if t[0] == "hist":
            return isolated_history(t[1], int(t[2]), t[3:])
        if t[0] in ("warm", "args", "lazy"):
            return isolated_line(t)
        return OPS[t[0]](t)
    return guarded(go)


if __name__ == "__main__":
    serve()
