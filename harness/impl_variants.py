"""Implementation side of C13: tokens -> real VariantInterval(Collection) / intervals -> canonical answers.

Line grammar (all coordinates are CHROMOSOME coordinates; `.` = empty string / None):
  <P>   := W | K:<cs>           whole-chromosome parent (ref is the chromosome) | chunk starting at cs (ref is the chunk)
  <V>   := <vs> <ve> <alt>
  <VS>  := 1 <V>  (a VariantInterval)  |  N <n> <V>*n  (a VariantIntervalCollection)
  <L>   := <strand> <k> (<s> <e>)*k
  altseq <P> <ref> <VS>
  lift   <P> <ref> <VS> <L>                 variants.lift_over_location(FeatureInterval(L).chunk_relative_location)
  incF   <P> <ref> <VS> <L>                 FeatureInterval.incorporate_variants
  incT   <P> <ref> <VS> <L> <kc> (<s> <e>)*kc <f0>    TranscriptInterval (kc = 0: non-coding), first CDS frame f0
  incC   <P> <ref> <VS> <L> <f0>            CDSInterval.incorporate_variants
  hap    <P> <ref> <nh> (<n> <V>*n)*nh <nm> (<G|F> <nleaf> <L>*nleaf)*nm
         AnnotationCollection(feature_collections=F members, genes=G members, variant_collections=the nh haplotypes)
         .alternative_haplotype_mapping; answer per haplotype, in input order:
         ok (hap <i> <count> (member <j> <nleaf> (<strand> <k> chromosome blocks <spliced seq>)*nleaf)*count)*nh
         (member index j = position in the op line; genes are non-coding transcripts, F members FeatureIntervals)
  vcf    <n> (<chrom> <start> <end> <nsamples> <ps:. | none | int> <nalt> (<alt> <type>)*nalt)*n
Answers
  altseq: ok <sequence|.>
  lift  : ok E | ok <strand> <k> (<s> <e>)*k <extracted sequence|.>      (coordinates of the returned location)
  inc*  : ok <strand> <k> chromosome blocks | <k'> chunk-relative blocks | <spliced sequence>  [| cds …]
          (for a CDS the sequence is that of its location, untrimmed: frames are C05's subject)
"""
from harness import shims

shims.install()

from harness.common import guarded  # noqa: E402
from harness.impl_loc import Toks, SYM, RSYM  # noqa: E402
from inscripta.biocantor.gene.variants import VariantInterval, VariantIntervalCollection  # noqa: E402
from inscripta.biocantor.gene.feature import FeatureInterval  # noqa: E402
from inscripta.biocantor.gene.transcript import TranscriptInterval  # noqa: E402
from inscripta.biocantor.gene.cds import CDSInterval  # noqa: E402
from inscripta.biocantor.gene.cds_frame import CDSFrame  # noqa: E402
from inscripta.biocantor.io.parser import seq_chunk_to_parent, seq_to_parent  # noqa: E402
from inscripta.biocantor.location.location_impl import EmptyLocation  # noqa: E402


def seqtok(s):
    s = str(s)
    return s if s else "."


def parse_parent(tok, ref):
    if tok == "W":
        return seq_to_parent(ref, seq_id="chrom"), 0
    cs = int(tok[2:])
    return seq_chunk_to_parent(ref, "chrom", cs, cs + len(ref)), cs


PRIOR_USE = [None]      # lines marked ` @v`: (ptok, ref) of the line, see `parse_variants`
PRIOR_MARK = " @v"
_PERM = str.maketrans("ACGTacgt", "CGTAcgta")


def parse_variants(tk, parent):
    """`@v` twin (collections only): every VariantInterval object is first built on ANOTHER reference of the same shape
    (letters permuted) and used on its own there (alternative sequence and alternative parent are computed), and only
    then handed to the collection on the line's reference - the constructor re-parents its members in place."""
    kind = tk.next()
    n = 1 if kind == "1" else tk.int()
    vs = []
    prior = PRIOR_USE[0] if kind != "1" else None
    for _ in range(n):
        s, e, alt = tk.int(), tk.int(), tk.next()
        alt = "" if alt == "." else alt
        vtype = "SNV" if len(alt) == e - s else ("insertion" if len(alt) > e - s else "deletion")
        if prior is not None:
            other, _ = parse_parent(prior[0], prior[1].translate(_PERM))
            v = VariantInterval(s, e, alt, vtype, parent_or_seq_chunk_parent=other)
            for q in ("alternative_genomic_sequence", "parent_with_alternative_sequence"):
                try:
                    getattr(v, q)
                except Exception:  # noqa
                    pass
            vs.append(v)
        else:
            vs.append(VariantInterval(s, e, alt, vtype, parent_or_seq_chunk_parent=parent))
    if kind == "1":
        return vs[0]
    return VariantIntervalCollection(vs, parent_or_seq_chunk_parent=parent)


def parse_blocks(tk):
    k = tk.int()
    s, e = [], []
    for _ in range(k):
        s.append(tk.int())
        e.append(tk.int())
    return s, e


def show_location(loc):
    if loc is EmptyLocation():
        return "E"
    bl = loc.blocks
    try:
        seq = seqtok(loc.extract_sequence())
    except Exception as ex:  # noqa
        seq = "!" + type(ex).__name__
    return f"{RSYM[loc.strand]} {len(bl)} " + " ".join(f"{b.start} {b.end}" for b in bl) + " " + seq


def show_interval(iv, seq_fn):
    bl = list(zip(iv._genomic_starts, iv._genomic_ends))
    loc = iv.chunk_relative_location
    rel = [] if loc is EmptyLocation() else [(b.start, b.end) for b in loc.blocks]
    try:
        seq = seqtok(seq_fn())
    except Exception as ex:  # noqa
        seq = "!" + type(ex).__name__
    return (f"{RSYM[iv.strand]} {len(bl)} " + " ".join(f"{s} {e}" for s, e in bl) + f" | {len(rel)} "
            + " ".join(f"{s} {e}" for s, e in rel) + f" | {seq}")


class _Obj:
    def __init__(self, **kw):
        self.__dict__.update(kw)


def hap_op(tk):
    from inscripta.biocantor.gene import AnnotationCollection, FeatureIntervalCollection, GeneInterval

    ptok, ref = tk.next(), tk.next()
    parent, _cs = parse_parent(ptok, ref)
    nh = tk.int()
    haps = []
    for i in range(nh):
        n = tk.int()
        vs = []
        for _ in range(n):
            s, e, alt = tk.int(), tk.int(), tk.next()
            alt = "" if alt == "." else alt
            vs.append(VariantInterval(s, e, alt, "variant", parent_or_seq_chunk_parent=parent))
        haps.append(VariantIntervalCollection(vs, variant_collection_id=f"h{i}", parent_or_seq_chunk_parent=parent))
    nm = tk.int()
    genes, feats, index = [], [], {}
    for j in range(nm):
        kind, nleaf = tk.next(), tk.int()
        leaves = []
        for l in range(nleaf):
            st = tk.strand()
            es, ee = parse_blocks(tk)
            if kind == "G":
                leaves.append(TranscriptInterval(es, ee, st, transcript_id=f"t{j}_{l}", parent_or_seq_chunk_parent=parent))
            else:
                leaves.append(FeatureInterval(es, ee, st, feature_id=f"t{j}_{l}", parent_or_seq_chunk_parent=parent))
        if kind == "G":
            genes.append(GeneInterval(leaves, gene_id=f"m{j}", parent_or_seq_chunk_parent=parent))
        else:
            feats.append(FeatureIntervalCollection(leaves, feature_collection_id=f"m{j}", parent_or_seq_chunk_parent=parent))
        index[f"m{j}"] = j
    ac = AnnotationCollection(feats, genes, haps, parent_or_seq_chunk_parent=parent)
    mapping = ac.alternative_haplotype_mapping or {}
    out = []
    for i, h in enumerate(haps):
        members = mapping.get(h.guid, [])
        out.append(f"hap {i} {len(members)}")
        for m in members:
            leaves = list(m)
            out.append(f"member {index[m.id]} {len(leaves)}")
            for leaf in leaves:
                bl = list(zip(leaf._genomic_starts, leaf._genomic_ends))
                try:
                    seq = seqtok(leaf.get_spliced_sequence())
                except Exception as ex:  # noqa
                    seq = "!" + type(ex).__name__
                out.append(f"{RSYM[leaf.strand]} {len(bl)} " + " ".join(f"{s} {e}" for s, e in bl) + " " + seq)
    # keys of the mapping that belong to no haplotype of the input would be a bug of their own
    extra = len(set(mapping) - {h.guid for h in haps})
    return "ok " + " ".join(out) + (f" extra {extra}" if extra else "")


def impl_var_op(line):
    if line.endswith(PRIOR_MARK):
        t = line.split()
        PRIOR_USE[0] = (t[1], t[2])
        try:
            return impl_var_op(line[:-len(PRIOR_MARK)])
        finally:
            PRIOR_USE[0] = None
    tk = Toks(line.split())
    op = tk.next()

    def go():
        if op == "vcf":
            return vcf_op(tk)
        if op == "hap":
            return hap_op(tk)
        ptok, ref = tk.next(), tk.next()
        parent, _cs = parse_parent(ptok, ref)
        variants = parse_variants(tk, parent)
        if op == "altseq":
            return "ok " + seqtok(variants.alternative_genomic_sequence)
        st = tk.strand()
        es, ee = parse_blocks(tk)
        if op == "lift":
            loc = FeatureInterval(es, ee, st, parent_or_seq_chunk_parent=parent).chunk_relative_location
            return "ok " + show_location(variants.lift_over_location(loc))
        if op == "incF":
            f = FeatureInterval(es, ee, st, parent_or_seq_chunk_parent=parent)
            g = f.incorporate_variants(variants)
            return "ok " + show_interval(g, g.get_spliced_sequence)
        if op == "incC":
            f0 = CDSFrame.from_int(tk.int())
            c = CDSInterval(es, ee, st, [CDSFrame.NONE] * len(es), parent_or_seq_chunk_parent=parent)
            frames = CDSInterval.construct_frames_from_location(c.chunk_relative_location, f0)
            c = CDSInterval(es, ee, st, frames, parent_or_seq_chunk_parent=parent)
            g = c.incorporate_variants(variants)
            return "ok " + show_interval(g, g.chunk_relative_location.extract_sequence)
        if op == "incT":
            cs_, ce_ = parse_blocks(tk)
            f0 = CDSFrame.from_int(tk.int())
            kw = {}
            if cs_:
                c = CDSInterval(cs_, ce_, st, [CDSFrame.NONE] * len(cs_), parent_or_seq_chunk_parent=parent)
                frames = CDSInterval.construct_frames_from_location(c.chunk_relative_location, f0)
                kw = dict(cds_starts=cs_, cds_ends=ce_, cds_frames=frames)
            t = TranscriptInterval(es, ee, st, parent_or_seq_chunk_parent=parent, **kw)
            g = t.incorporate_variants(variants)
            out = "ok " + show_interval(g, g.get_spliced_sequence)
            if g.cds:
                out += " | cds " + show_interval(g.cds, g.cds.chunk_relative_location.extract_sequence)
            else:
                out += " | cds none"
            return out
        raise KeyError(op)

    return guarded(go)


def vcf_op(tk):
    from inscripta.biocantor.io.vcf.parser import convert_vcf_records_to_model
    import collections
    import warnings

    n = tk.int()
    recs = []
    for _ in range(n):
        chrom, start, end, nsamp, ps, nalt = tk.next(), tk.int(), tk.int(), tk.int(), tk.next(), tk.int()
        alts = []
        for _ in range(nalt):
            a, ty = tk.next(), tk.next()
            alts.append(_Obj(sequence="" if a == "." else a, type=ty))
        if ps == ".":
            data = collections.namedtuple("CallData", ["GT"])("0|1")
        else:
            data = collections.namedtuple("CallData", ["GT", "PS"])("0|1", None if ps == "none" else int(ps))
        samples = [_Obj(data=data) for _ in range(nsamp)]
        recs.append(_Obj(CHROM=chrom, POS=start + 1, affected_start=start, affected_end=end, ALT=alts, samples=samples))
    with warnings.catch_warnings():
        warnings.simplefilter("ignore")
        res = convert_vcf_records_to_model(recs)
    out = []
    for seq_id, colls in res.items():
        out.append(f"seq {seq_id} {len(colls)}")
        for c in colls:
            out.append(f"coll {c.variant_collection_id if c.variant_collection_id is not None else '.'} "
                       f"{c.sequence_name} {len(c.variant_intervals)}")
            for v in c.variant_intervals:
                out.append(f"{v.start} {v.end} {v.sequence or '.'} {v.variant_type} "
                           f"{v.phase_block if v.phase_block is not None else '.'}")
    return "ok " + " ".join(out)
