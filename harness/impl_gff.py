"""Implementation side of C11 (GFF3 export / re-parse): op line -> real BioCantor calls -> canonical answer.

Families
  esckey / escval / attrs / row / rows   answered by the REAL `GFFAttributes.escape_key`, `escape_value`,
                                         `GFFAttributes.__str__`, `GFFRow.__str__`, `collection_to_gff3`
                                         (compared with the Lean model AND judged by the Lean spec driver);
  coll <seed> <profile> <fasta> <mode> <par>
                                         a generated collection (harness/gen_collections.py, rebuilt from the seed):
                                         real `collection_to_gff3` text -> the independent checker below
                                         (`check_export`) -> real `parse_standard_gff3` / `parse_gff3_embedded_fasta`
                                         -> comparison with the source -> re-export (twice).  Answer `ok clean` or
                                         `ok viol <clause>...`; the spec driver only demands `ok clean`.

String tokens are armoured (see Driver/SpecGff.lean): `~` None, `\\e` empty, `\\\\ \\s \\t \\n \\r \\~`, `\\xHEX;`.
"""
from harness import shims

shims.install()

import io  # noqa: E402
import os  # noqa: E402
import random  # noqa: E402
import re  # noqa: E402
import tempfile  # noqa: E402
import uuid  # noqa: E402
import warnings  # noqa: E402

from harness.common import guarded, SCRATCH  # noqa: E402
from harness import gen_collections as G  # noqa: E402

import inscripta.biocantor.gene  # noqa: E402,F401  (first: io.gff3.rows <-> gene is a circular import otherwise)
from inscripta.biocantor.io.gff3.rows import GFFAttributes, GFFRow  # noqa: E402
from inscripta.biocantor.io.gff3.constants import BioCantorFeatureTypes  # noqa: E402
from inscripta.biocantor.io.gff3.writer import collection_to_gff3  # noqa: E402
from inscripta.biocantor.io.gff3.parser import parse_standard_gff3, parse_gff3_embedded_fasta  # noqa: E402
from inscripta.biocantor.gene.cds_frame import CDSPhase  # noqa: E402
from inscripta.biocantor.location.strand import Strand  # noqa: E402

# ------------------------------------------------------------------------------------------------------
# token codec

_ARM = {"\\": "\\\\", " ": "\\s", "\t": "\\t", "\n": "\\n", "\r": "\\r", "~": "\\~"}
_UNARM = {"\\": "\\", "s": " ", "t": "\t", "n": "\n", "r": "\r", "~": "~"}


def arm(s):
    if s is None:
        return "~"
    if s == "":
        return "\\e"
    out = []
    for ch in s:
        if ch in _ARM:
            out.append(_ARM[ch])
        elif ord(ch) < 0x21 or ord(ch) > 0x7E:
            out.append("\\x%x;" % ord(ch))
        else:
            out.append(ch)
    return "".join(out)


def unarm(t):
    if t == "~":
        return None
    out = []
    i = 0
    while i < len(t):
        ch = t[i]
        if ch != "\\":
            out.append(ch)
            i += 1
            continue
        c2 = t[i + 1]
        if c2 == "e":
            i += 2
        elif c2 == "x":
            j = t.index(";", i)
            out.append(chr(int(t[i + 2:j], 16)))
            i = j + 1
        else:
            out.append(_UNARM[c2])
            i += 2
    return "".join(out)


class Toks:
    def __init__(self, toks):
        self.t = toks
        self.i = 0

    def next(self):
        v = self.t[self.i]
        self.i += 1
        return v

    def int(self):
        return int(self.next())

    def bool(self):
        return self.next() == "1"

    def str(self):
        return unarm(self.next())

    def quals(self):
        n = self.int()
        q = {}
        for _ in range(n):
            k = self.str()
            m = self.int()
            q[k] = [self.str() for _ in range(m)]
        return q


SYM = {"+": "PLUS", "-": "MINUS", ".": "UNSTRANDED"}
RSYM = {v: k for k, v in SYM.items()}


# ------------------------------------------------------------------------------------------------------
# encoders: plain data (gen_collections vocabulary) -> `rows` line

def enc_quals(q):
    q = q or {}
    return f"{len(q)}" + "".join(f" {arm(k)} {len(v)}" + "".join(" " + arm(x) for x in v) for k, v in q.items())


def enc_blocks(starts, ends):
    return f"{len(starts)}" + "".join(f" {s} {e}" for s, e in zip(starts, ends))


def guid_str(n):
    return str(uuid.UUID(int=n))


def enc_rows_line(coll, mode, raise_, par, guids):
    """`guids`: dict ("gene",i)/("tx",i,j)/("cds",i,j)/("fc",i)/("feat",i,j) -> UUID string"""
    parts = ["rows", mode, "1" if raise_ else "0", arm(coll["sequence_name"]), par,
             str(len(coll["genes"]) + len(coll["feature_collections"]))]
    for i, g in enumerate(coll["genes"]):
        parts += ["G", guids[("gene", i)], arm(g["gene_id"]), arm(g["gene_symbol"]), arm(g["gene_type"]),
                  arm(g["locus_tag"]), enc_quals(g["qualifiers"]), str(len(g["transcripts"]))]
        for j, t in enumerate(g["transcripts"]):
            parts += [guids[("tx", i, j)], RSYM[t["strand"]], enc_blocks(t["exon_starts"], t["exon_ends"]),
                      arm(t["transcript_id"]), arm(t["transcript_symbol"]), arm(t["transcript_type"]),
                      arm(t["protein_id"]), arm(t["product"]), enc_quals(t["qualifiers"])]
            if t["cds_starts"]:
                parts += [str(len(t["cds_starts"])), guids[("cds", i, j)]]
                for s, e, f in zip(t["cds_starts"], t["cds_ends"], t["cds_frames"]):
                    parts += [str(s), str(e), f]
            else:
                parts.append("0")
    for i, fc in enumerate(coll["feature_collections"]):
        parts += ["F", guids[("fc", i)], arm(fc["feature_collection_name"]), arm(fc["feature_collection_id"]),
                  arm(fc["feature_collection_type"]), arm(fc["locus_tag"]), enc_quals(fc["qualifiers"]),
                  str(len(fc["feature_intervals"]))]
        for j, f in enumerate(fc["feature_intervals"]):
            ft = f["feature_types"] or []
            parts += [guids[("feat", i, j)], RSYM[f["strand"]], enc_blocks(f["interval_starts"], f["interval_ends"]),
                      arm(f["feature_name"]), arm(f["feature_id"]), str(len(ft))] + [arm(x) for x in ft] + \
                     [enc_quals(f["qualifiers"])]
    return " ".join(parts)


def enc_coll_body(coll, par, guids):
    """the `<seqname> <par> <n> child*` part of a `rows` line (shared with `gfftext`)"""
    return enc_rows_line(coll, "chrom", True, par, guids).split(" ", 3)[3]


def default_guids(coll, rng=None, collide=False, base=0):
    """small-integer UUIDs, all distinct (or, with `collide`, drawn from a tiny pool)"""
    out = {}
    n = [0]

    def nxt():
        n[0] += 1
        return guid_str(rng.randint(1, 3) if (collide and rng) else base + n[0])
    for i, g in enumerate(coll["genes"]):
        out[("gene", i)] = nxt()
        for j, t in enumerate(g["transcripts"]):
            out[("tx", i, j)] = nxt()
            if t["cds_starts"]:
                out[("cds", i, j)] = nxt()
    for i, fc in enumerate(coll["feature_collections"]):
        out[("fc", i)] = nxt()
        for j, _ in enumerate(fc["feature_intervals"]):
            out[("feat", i, j)] = nxt()
    return out


# ------------------------------------------------------------------------------------------------------
# decoders: `rows` line -> plain data + guids

def parse_rows_line(tk):
    mode = tk.next()
    raise_ = tk.bool()
    par, chunk, coll, guids = parse_coll_body(tk)
    return mode, raise_, par, chunk, coll, guids


def parse_coll_body(tk):
    """<seqname|~> <N | W | K cs ce> <n> child*  ->  (par, chunk, plain collection, guids)"""
    seqname = tk.str()
    par = tk.next()
    chunk = None
    if par == "K":
        chunk = (tk.int(), tk.int())
    n = tk.int()
    coll = dict(sequence_name=seqname, name=None, genes=[], feature_collections=[], genome_len=0)
    guids = {}
    hi = 0
    for _ in range(n):
        kind = tk.next()
        if kind == "G":
            i = len(coll["genes"])
            guids[("gene", i)] = tk.next()
            g = dict(gene_id=tk.str(), gene_symbol=tk.str(), gene_type=tk.str(), locus_tag=tk.str(),
                     qualifiers=tk.quals() or None, sequence_name=seqname, transcripts=[])
            for j in range(tk.int()):
                guids[("tx", i, j)] = tk.next()
                strand = SYM[tk.next()]
                k = tk.int()
                bl = [(tk.int(), tk.int()) for _ in range(k)]
                t = dict(exon_starts=[s for s, _ in bl], exon_ends=[e for _, e in bl], strand=strand,
                         transcript_id=tk.str(), transcript_symbol=tk.str(), transcript_type=tk.str(),
                         protein_id=tk.str(), product=tk.str(), qualifiers=tk.quals() or None,
                         cds_starts=None, cds_ends=None, cds_frames=None, is_primary_tx=False, sequence_name=seqname)
                m = tk.int()
                if m:
                    guids[("cds", i, j)] = tk.next()
                    cd = [(tk.int(), tk.int(), tk.next()) for _ in range(m)]
                    t.update(cds_starts=[c[0] for c in cd], cds_ends=[c[1] for c in cd], cds_frames=[c[2] for c in cd])
                hi = max([hi] + t["exon_ends"])
                g["transcripts"].append(t)
            coll["genes"].append(g)
        else:
            i = len(coll["feature_collections"])
            guids[("fc", i)] = tk.next()
            fc = dict(feature_collection_name=tk.str(), feature_collection_id=tk.str(),
                      feature_collection_type=tk.str(), locus_tag=tk.str(), qualifiers=tk.quals() or None,
                      sequence_name=seqname, feature_intervals=[])
            for j in range(tk.int()):
                guids[("feat", i, j)] = tk.next()
                strand = SYM[tk.next()]
                k = tk.int()
                bl = [(tk.int(), tk.int()) for _ in range(k)]
                f = dict(interval_starts=[s for s, _ in bl], interval_ends=[e for _, e in bl], strand=strand,
                         feature_name=tk.str(), feature_id=tk.str(),
                         feature_types=[tk.str() for _ in range(tk.int())], qualifiers=tk.quals() or None,
                         sequence_name=seqname, is_primary_feature=False)
                hi = max([hi] + f["interval_ends"])
                fc["feature_intervals"].append(f)
            coll["feature_collections"].append(fc)
    coll["genome_len"] = max(hi + 5, (chunk[1] if chunk else 0), 10)
    return par, chunk, coll, guids


def build_with_guids(coll, guids, par, chunk, seq=None):
    kind = {"N": "none", "W": "chrom", "K": "chunk"}[par]
    if seq is not None and kind != "none":
        from inscripta.biocantor.io.parser import seq_chunk_to_parent, seq_to_parent
        name = coll["sequence_name"] or "chr1"
        parent = seq_to_parent(seq, seq_id=name) if kind == "chrom" else seq_chunk_to_parent(seq, name, chunk[0], chunk[1])
    else:
        parent = G.make_parent(kind, coll["sequence_name"] or "chr1", coll["genome_len"], chunk)
    ug = {k: uuid.UUID(v) for k, v in guids.items() if k[0] != "cds"}
    ac = G.build(coll, parent, ug)
    for (k, *ij) in [k for k in guids if k[0] == "cds"]:
        i, j = ij
        tx = ac.genes[i].transcripts[j]
        if tx.cds is not None:
            tx.cds.guid = uuid.UUID(guids[("cds", i, j)])      # plain attribute; the constructor offers no argument
    return ac


def export_text(collections, add_sequences, chrom_rel, raise_=True, ordered=True):
    buf = io.StringIO()
    with warnings.catch_warnings():
        warnings.simplefilter("ignore")
        collection_to_gff3(collections, buf, add_sequences=add_sequences, ordered=ordered,
                           chromosome_relative_coordinates=chrom_rel, raise_on_reserved_attributes=raise_)
    return buf.getvalue()


ROWTYPES = {"gene": "GENE", "transcript": "TRANSCRIPT", "exon": "EXON", "cds": "CDS",
            "featureCollection": "FEATURE_COLLECTION", "featureInterval": "FEATURE_INTERVAL",
            "subregion": "FEATURE_INTERVAL_REGION"}
PHASES = {".": CDSPhase.NONE, "0": CDSPhase.ZERO, "1": CDSPhase.ONE, "2": CDSPhase.TWO}


def _attrs(tk):
    raise_ = tk.bool()
    ident = tk.str()
    parent = tk.str()
    name = tk.str()
    q = {k: set(v) for k, v in tk.quals().items()}
    return GFFAttributes(id=ident, qualifiers=q, name=name, parent=parent, raise_on_reserved_attributes=raise_)


def impl_gff_op(line):
    tk = Toks(line.split(" "))
    op = tk.next()

    def go():
        with warnings.catch_warnings():
            warnings.simplefilter("ignore")
            if op == "esckey":
                s = tk.str()
                return "ok " + arm(GFFAttributes.escape_key(s, lower=tk.bool()))
            if op == "escval":
                s = tk.str()
                return "ok " + arm(GFFAttributes.escape_value(s, escape_comma=tk.bool()))
            if op == "attrs":
                return "ok " + arm(str(_attrs(tk)))
            if op == "row":
                seqid = tk.str()
                typ = BioCantorFeatureTypes[ROWTYPES[tk.next()]]
                s, e = tk.int(), tk.int()
                st = Strand[SYM[tk.next()]]
                ph = PHASES[tk.next()]
                return "ok " + arm(str(GFFRow(seqid, "BioCantor", typ, s, e, ".", st, ph, _attrs(tk))))
            if op == "rows":
                mode, raise_, par, chunk, coll, guids = parse_rows_line(tk)
                ac = build_with_guids(coll, guids, par, chunk)
                text = export_text([ac], False, mode == "chrom", raise_)
                head, _, body = text.partition("\n")
                if head != "##gff-version 3":
                    return "ok " + arm("BAD-HEADER " + head)
                return "ok " + arm(body)
            if op == "gfftext":
                add_seq, ordered, chrom_rel, raise_ = tk.bool(), tk.bool(), tk.bool(), tk.bool()
                acs = []
                for _ in range(tk.int()):
                    seq = tk.str()
                    par, chunk, coll, guids = parse_coll_body(tk)
                    acs.append(build_with_guids(coll, guids, par, chunk, seq))
                return "ok " + arm(export_text(acs, add_seq, chrom_rel, raise_, ordered))
            if op == "coll":
                from harness import gff_check
                return gff_check.run_coll(tk.t[1:])
        raise KeyError(op)

    return guarded(go)
