"""Generators of block layouts (the repo's own vocabulary: blocks, strands, gaps incl. 0, lengths incl. 0)."""
import itertools


def layouts_exhaustive(max_blocks, genome_len, allow_overlap=True):
    """All block lists (as sorted multisets of (s,e), 0<=s<=e<=genome_len) with 1..max_blocks blocks."""
    intervals = [(s, e) for s in range(genome_len + 1) for e in range(s, genome_len + 1)]
    for k in range(1, max_blocks + 1):
        for combo in itertools.combinations_with_replacement(intervals, k):
            if not allow_overlap:
                ok = all(combo[i][1] <= combo[i + 1][0] for i in range(len(combo) - 1))
                if not ok:
                    continue
            yield list(combo)


def random_layout(rng, max_blocks=8, max_coord=60, p_overlap=0.15, p_empty=0.15, p_adjacent=0.25):
    """Mostly non-overlapping layouts with 0-bp gaps and zero-length blocks; sometimes self-overlapping."""
    k = rng.randint(1, max_blocks)
    blocks = []
    pos = rng.randint(0, max(0, max_coord // 4))
    for _ in range(k):
        ln = 0 if rng.random() < p_empty else rng.randint(1, max(1, max_coord // (2 * k)))
        blocks.append((pos, pos + ln))
        gap = 0 if rng.random() < p_adjacent else rng.randint(1, max(1, max_coord // (2 * k)))
        pos = pos + ln + gap
    if rng.random() < p_overlap and blocks:
        # add a nested / overlapping / duplicate block
        s, e = rng.choice(blocks)
        a = rng.randint(max(0, s - 2), e)
        b = rng.randint(a, e + 2)
        blocks.append((a, b))
    rng.shuffle(blocks)
    return blocks


def classify(blocks):
    bs = sorted(blocks)
    tags = [f"k={min(len(bs), 5)}"]
    if any(s == e for s, e in bs):
        tags.append("zero-len-block")
    if any(bs[i][1] == bs[i + 1][0] for i in range(len(bs) - 1)):
        tags.append("0bp-gap")
    if any(bs[i][1] > bs[i + 1][0] for i in range(len(bs) - 1)):
        tags.append("self-overlap")
    return tags
