"""Implementation side of the C03 operations: tokens -> real BioCantor objects -> canonical answer.

Strings are written `~text`.  A derived Sequence object is shown as `~text nopar` or
`~text par <parent.strand|N> <parent.location|N>`.
"""
import zlib

from harness.common import exc_token

import inscripta.biocantor  # noqa
from inscripta.biocantor.location.location_impl import SingleInterval, CompoundInterval, EmptyLocation
from inscripta.biocantor.location.strand import Strand
from inscripta.biocantor.parent import Parent
from inscripta.biocantor.sequence.alphabet import Alphabet
from inscripta.biocantor.sequence.sequence import Sequence

from harness.impl_loc import Toks, show_loc, RSYM, SYM


def guarded_seq(f):
    try:
        return f()
    except RecursionError:
        return "err! RecursionError"
    except TypeError:
        return "err! TypeError"          # int/None comparison etc. — never a documented refusal here
    except IndexError:
        return "err IndexError"          # Python sequence protocol for an out-of-range integer index
    except Exception as e:  # noqa
        return exc_token(e)


def parse_str(tk):
    s = tk.next()
    if not s.startswith("~"):
        raise KeyError(s)
    return s[1:]


WARM = False   # set per line by impl_seq_op


def warm(loc):
    """Look at the location the way a caller who inspected it first would: fills every lazily cached attribute
    (`_sequence`, `_single_interval_store`, `_is_overlapping`, cached parents' strand property)."""
    for f in (lambda: loc.extract_sequence(), lambda: loc.blocks, lambda: [b.extract_sequence() for b in loc.blocks],
              lambda: loc.is_overlapping, lambda: len(loc), lambda: loc.parent.strand if loc.parent else None,
              lambda: str(loc), lambda: hash(loc)):
        try:
            f()
        except Exception:  # noqa  (e.g. unstranded / empty locations have no sequence)
            pass
    return loc


def parse_loc_on(tk, parent):
    loc = _parse_loc_on(tk, parent)
    return warm(loc) if WARM else loc


def _parse_loc_on(tk, parent):
    kind = tk.next()
    if kind == "E":
        return EmptyLocation()
    st = tk.strand()
    if kind == "S":
        s, e = tk.int(), tk.int()
        return SingleInterval(s, e, st, parent=parent)
    k = tk.int()
    starts, ends = [], []
    for _ in range(k):
        starts.append(tk.int())
        ends.append(tk.int())
    c = CompoundInterval(starts, ends, st, parent=parent)
    _ = c.blocks
    return c


def parse_prog(tk):
    n = tk.int()
    prog = []

    def oi():
        v = tk.next()
        return None if v == "N" else int(v)
    for _ in range(n):
        op = tk.next()
        if op == "sl":
            prog.append(("sl", oi(), oi(), oi()))
        elif op == "ix":
            prog.append(("ix", tk.int()))
        elif op == "rc":
            prog.append(("rc",))
        else:
            raise KeyError(op)
    return prog


def run_prog(x, prog):
    for st in prog:
        if WARM and x.parent is not None and x.parent.location is not None:
            warm(x.parent.location)
        if st[0] == "sl":
            x = x[slice(st[1], st[2], st[3])]
        elif st[0] == "ix":
            x = x[st[1]]
        else:
            x = x.reverse_complement()
    return x


def show_obj(x):
    if type(x) is not Sequence:
        raise AssertionError(f"not a Sequence: {type(x)}")
    if x.parent is None:
        return f"~{x} nopar"
    st = x.parent.strand
    loc = x.parent.location
    return f"~{x} par {RSYM[st] if st is not None else 'N'} {show_loc(loc) if loc is not None else 'N'}"


def obj_of(alphabet, parent, tk):
    loc = parse_loc_on(tk, parent)
    prog = parse_prog(tk)
    x0 = Sequence(str(loc.extract_sequence()), alphabet, parent=Parent(location=loc))
    return run_prog(x0, prog)


def xform(loc, parent, tk):
    t = tk.next()
    if t == "rs":
        return loc.reset_strand(tk.strand())
    if t == "rev2":
        mid = loc.reverse_strand()
        if WARM:
            warm(mid)
        return mid.reverse_strand()
    if t == "rp":
        return loc.reset_parent(parent)
    if t == "opt":
        return loc.optimize_blocks()
    if t == "sh0":
        return loc.shift_position(0)
    raise KeyError(t)


def impl_seq_op(line):
    global WARM
    # a deterministic half of the lines runs with every operand's lazily cached state filled beforehand
    WARM = bool(zlib.crc32(line.encode()) & 1)
    tk = Toks([x for x in line.split(" ") if x != ""])
    op = tk.next()

    def go():
        alphabet = Alphabet[tk.next()]
        ptext = parse_str(tk)
        parent = Parent(id="chr", sequence=Sequence(ptext, alphabet))
        if op == "xform":
            loc = parse_loc_on(tk, parent)
            res = xform(loc, parent, tk)
            if type(res) is CompoundInterval:
                _ = res.blocks
            sq = guarded_seq(lambda: f"~{res.extract_sequence()}")
            return f"ok {show_loc(res)} ; {sq}"
        if op == "extract":
            return f"ok ~{parse_loc_on(tk, parent).extract_sequence()}"
        if op == "revstrand":
            return f"ok ~{parse_loc_on(tk, parent).reverse_strand().extract_sequence()}"
        if op == "split":
            loc = parse_loc_on(tk, parent)
            k = tk.int()
            a = loc.relative_interval_to_parent_location(0, k, Strand.PLUS).extract_sequence()
            b = loc.relative_interval_to_parent_location(k, len(loc), Strand.PLUS).extract_sequence()
            return f"ok ~{a} ~{b}"
        if op == "seqprog":
            return "ok " + show_obj(obj_of(alphabet, parent, tk))
        if op == "append":
            x = obj_of(alphabet, parent, tk)
            y = obj_of(alphabet, parent, tk)
            sx, sy = show_obj(x), show_obj(y)
            sz = guarded_seq(lambda: show_obj(x.append(y)))
            return f"ok {sx} ; {sy} ; {sz}"
        raise KeyError(op)

    return guarded_seq(go)
