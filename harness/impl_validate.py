"""Implementation side of C19: the deterministic grid (constructor x corruption kind, method x boundary argument)
and the plain-data constructor lines compared with the Lean model.

    ctor <Class> <base-id> <param> <kind>          -> ok wf | ok illformed <why> | err <Doc> | err! <PyClass>
    call <Class> <base-id> <method> <arg-tuple-id> -> (same)
    mksingle / mkcompound / mkparent / mkseq / mkcds / mktx / mkvarcoll / scanwin   (see lean/BioCantor/Driver/Validate.lean)

`base-id` = `<template>.<seed>`: the well-formed argument tuple is rebuilt from random.Random(seed), so every line
replays on its own.  Corruptions and argument tuples are deterministic functions of the base.

Exception classification is STRICTER than common.exc_token (which it extends): a ValueError / TypeError /
NotImplementedError counts as documented only when it is raised by an explicit `raise` statement of the library (or by
an Enum value lookup, the documented behaviour of `from_int`); a builtin ValueError/TypeError that merely escapes from
library code (`min()` of an empty list, `None < int`, `range(..., 0)`) is an internal error.
"""
import inspect
import linecache
import os
import random
import warnings

from harness import shims

shims.install()
from harness import common  # noqa: E402
from harness import wf_checks as W  # noqa: E402

import inscripta.biocantor  # noqa: E402,F401
from inscripta.biocantor import DistanceType  # noqa: E402
from inscripta.biocantor.exc import BioCantorException  # noqa: E402
from inscripta.biocantor.gene.biotype import Biotype  # noqa: E402
from inscripta.biocantor.gene.cds import CDSInterval  # noqa: E402
from inscripta.biocantor.gene.cds_frame import CDSFrame, CDSPhase  # noqa: E402
from inscripta.biocantor.gene.codon import Codon, TranslationTable  # noqa: E402
from inscripta.biocantor.gene.collections import AnnotationCollection  # noqa: E402
from inscripta.biocantor.gene.feature import FeatureInterval, FeatureIntervalCollection  # noqa: E402
from inscripta.biocantor.gene.gene import GeneInterval  # noqa: E402
from inscripta.biocantor.gene.transcript import TranscriptInterval  # noqa: E402
from inscripta.biocantor.gene.variants import VariantInterval, VariantIntervalCollection  # noqa: E402
from inscripta.biocantor.location.location_impl import SingleInterval, CompoundInterval, EmptyLocation  # noqa: E402
from inscripta.biocantor.location.strand import Strand  # noqa: E402
from inscripta.biocantor.parent import Parent, SequenceType  # noqa: E402
from inscripta.biocantor.sequence import Sequence  # noqa: E402
from inscripta.biocantor.sequence.alphabet import Alphabet  # noqa: E402

SYM = {"+": Strand.PLUS, "-": Strand.MINUS, ".": Strand.UNSTRANDED}
RSYM = {v: k for k, v in SYM.items()}
LIB = os.path.join(os.path.realpath(common.REPO), "inscripta")
BIG = 10 ** 9


# ----------------------------------------------------------------------------------------------
# exception classification

def _explicit_raise(e):
    """the innermost frame is a `raise` statement of the library, or an Enum value lookup"""
    tb = e.__traceback__
    last = None
    while tb is not None:
        last = tb
        tb = tb.tb_next
    if last is None:
        return False
    fn = os.path.realpath(last.tb_frame.f_code.co_filename)
    if os.path.basename(fn) == "enum.py":
        return isinstance(e, ValueError)
    if not fn.startswith(LIB):
        return False
    lines = linecache.getlines(fn)
    ln = last.tb_lineno
    for k in range(ln, max(0, ln - 6), -1):
        s = lines[k - 1].strip() if 0 < k <= len(lines) else ""
        if s.startswith("raise ") or s == "raise":
            return True
        if k != ln and (s.endswith(":") or s == ""):
            break
    return False


def exc_token(e):
    if isinstance(e, RecursionError):
        return "err! RecursionError"
    if isinstance(e, BioCantorException):
        t = common.exc_token(e)
        if t.startswith("err! "):
            n = type(e).__name__
            for suf in ("Exception", "Error"):
                if n.endswith(suf):
                    n = n[: -len(suf)]
            return "err " + n
        return t
    if isinstance(e, (ValueError, TypeError, NotImplementedError)):
        name = "ValueError" if isinstance(e, ValueError) else \
            "TypeError" if isinstance(e, TypeError) else "NotImplemented"
        if _explicit_raise(e):
            return "err " + name
        return "err! " + type(e).__name__
    return "err! " + type(e).__name__


def guarded(f):
    try:
        with warnings.catch_warnings():
            warnings.simplefilter("ignore")
            return f()
    except RecursionError:
        return "err! RecursionError"
    except Exception as e:  # noqa
        return exc_token(e)


def judge(x):
    r = W.wf_value(x)
    return "ok wf" if r is None else "ok illformed " + r


# ----------------------------------------------------------------------------------------------
# parents (plain-data specs -> fresh objects)

def genome(rng, n):
    return "".join(rng.choice("ACGT") for _ in range(n))


def mk_parent(spec):
    """spec: None | ("str", id) | ("noseq", id) | ("chrom", id, genome) | ("plain", id, genome)
             | ("chunk", id, genome, cs, ce) | ("raw", object)"""
    if spec is None:
        return None
    k = spec[0]
    if k == "raw":
        return spec[1]
    if k == "str":
        return spec[1]
    if k == "noseq":
        return Parent(id=spec[1], sequence_type=SequenceType.CHROMOSOME)
    if k == "chrom":
        return Parent(id=spec[1], sequence_type=SequenceType.CHROMOSOME,
                      sequence=Sequence(spec[2], Alphabet.NT_EXTENDED_GAPPED, id=spec[1], type=SequenceType.CHROMOSOME))
    if k == "plain":
        return Parent(id=spec[1], sequence=Sequence(spec[2], Alphabet.NT_EXTENDED_GAPPED, id=spec[1]))
    if k == "chunk":
        _, cid, g, cs, ce = spec
        chunk_id = f"{cid}:{cs}-{ce}"
        return Parent(
            id=chunk_id,
            sequence=Sequence(
                g[cs:ce], Alphabet.NT_EXTENDED_GAPPED, id=chunk_id, type=SequenceType.SEQUENCE_CHUNK,
                parent=Parent(location=SingleInterval(
                    cs, ce, Strand.PLUS, parent=Parent(id=cid, sequence_type=SequenceType.CHROMOSOME)))))
    raise KeyError(k)


def parent_seq_len(spec):
    """length of the sequence of the DIRECT parent, or None"""
    if spec is None or spec[0] in ("str", "noseq", "raw"):
        return None
    if spec[0] in ("chrom", "plain"):
        return len(spec[2])
    return spec[4] - spec[3]


PARENT_MODES = ["none", "str", "noseq", "chrom", "chunk"]


def parent_spec(mode, rng, L=None):
    L = L or rng.randint(40, 80)
    if mode == "none":
        return None, L
    if mode == "str":
        return ("str", "chrS"), L
    if mode == "noseq":
        return ("noseq", "chrN"), L
    if mode == "chrom":
        return ("chrom", "chr1", genome(rng, L)), L
    if mode == "plain":
        return ("plain", "seqP", genome(rng, L)), L
    cs = rng.randint(0, L // 4)
    ce = rng.randint(3 * L // 4, L)
    return ("chunk", "chr1", genome(rng, L), cs, ce), L


def sorted_blocks(rng, lo, hi, k, min_len=1):
    """k sorted, non-overlapping, non-adjacent blocks inside [lo, hi)"""
    k = max(1, min(k, (hi - lo) // 4))
    pts = sorted(rng.sample(range(lo, hi + 1), 2 * k))
    out = []
    for i in range(k):
        a, b = pts[2 * i], pts[2 * i + 1]
        if b - a < min_len:
            b = a + min_len
        out.append([a, b])
    for i in range(1, k):                       # keep a gap of >= 1 between consecutive blocks
        if out[i][0] <= out[i - 1][1]:
            d = out[i - 1][1] + 1 - out[i][0]
            out[i] = [out[i][0] + d, out[i][1] + d]
    if out[-1][1] > hi:
        return sorted_blocks(rng, lo, hi, k - 1, min_len) if k > 1 else [[lo, min(hi, lo + max(min_len, 1))]]
    return out


def frames_for(blocks, strand, first=0):
    order = blocks if strand != "-" else blocks[::-1]
    f, out = first, []
    for s, e in order:
        out.append(f)
        f = (f + (e - s)) % 3
    return out if strand != "-" else out[::-1]


# ----------------------------------------------------------------------------------------------
# grid A: constructors.  A class spec = templates (rng -> plain-data argument dict), build, corruption table.

def RAW(v):
    return ("raw", v)


def val(x, conv=lambda v: v):
    """("raw", v) is handed to the constructor verbatim; anything else goes through `conv`"""
    if isinstance(x, tuple) and len(x) == 2 and x[0] == "raw":
        return x[1]
    return conv(x)


def strand_of(s):
    return val(s, lambda v: SYM[v])


def frames_of(fs, cls=CDSFrame):
    return val(fs, lambda v: [val(f, lambda i: (CDSPhase if (isinstance(i, tuple) and i[0] == "ph") else cls)(
        i[1] if isinstance(i, tuple) else i)) for f in v])


def put(a, **kw):
    b = dict(a)
    b.update(kw)
    return b


class ClassSpec:
    def __init__(self, name, templates, build, corruptions):
        self.name, self.templates, self.build, self.corruptions = name, templates, build, corruptions

    def base(self, base_id):
        t, seed = base_id.rsplit(".", 1)
        return self.templates[t](random.Random(int(seed) * 7919 + 11))


def _swap_first(starts, ends):
    """first block with start > end"""
    s, e = list(starts), list(ends)
    s[0], e[0] = e[0] + 2, s[0]
    return s, e


def _list_corruptions(ps, pe, extra=()):
    """corruptions shared by every (starts, ends) pair of coordinate lists; `extra` = parallel list params
    (frames) that must be permuted / emptied together"""
    def neg(a):
        s = list(a[ps])
        s[0] = -2
        return put(a, **{ps: s})

    def gt(a):
        s, e = _swap_first(a[ps], a[pe])
        return put(a, **{ps: s, pe: e})

    def unsorted(a):
        if len(a[ps]) < 2:
            return None
        return put(a, **{k: list(a[k])[::-1] for k in (ps, pe) + tuple(x for x in extra if a.get(x) is not None)})

    def empty(a):
        return put(a, **{k: [] for k in (ps, pe) + tuple(x for x in extra if a.get(x) is not None)})

    def beyond(a):
        n = parent_seq_len(a.get("parent"))
        if n is None:
            return None
        if a["parent"][0] == "chunk" and a.get("_chrom_coords"):
            return None      # interval classes take chromosome coordinates; the chromosome has no sequence here
        e = list(a[pe])
        e[-1] = n + 3
        return put(a, **{pe: e})

    return [
        (ps, "negative", neg),
        (ps, "start_gt_end", gt),
        (ps, "len_mismatch", lambda a: put(a, **{ps: list(a[ps]) + [a[pe][-1] + 1]})),
        (pe, "len_mismatch", lambda a: put(a, **{pe: list(a[pe])[:-1]}) if len(a[pe]) > 1 else put(a, **{pe: []})),
        (ps, "empty_list", empty),
        (ps, "unsorted", unsorted),
        (pe, "beyond_parent", beyond),
        (ps, "none_value", lambda a: put(a, **{ps: RAW(None)})),
        (pe, "none_value", lambda a: put(a, **{pe: RAW(None)})),
        (ps, "wrong_type", lambda a: put(a, **{ps: RAW(a[ps][0])})),
        (ps, "wrong_type_elem", lambda a: put(a, **{ps: RAW([str(x) for x in a[ps]])})),
    ]


STRAND_CORRUPTIONS = [
    ("strand", "none_value", lambda a: put(a, strand=RAW(None))),
    ("strand", "wrong_type", lambda a: put(a, strand=RAW(a["strand"]))),
]
PARENT_CORRUPTIONS = [
    ("parent", "wrong_type", lambda a: put(a, parent=("raw", 7))),
]


# ---- SingleInterval --------------------------------------------------------------------------
def _t_single(mode):
    def f(rng):
        p, L = parent_spec(mode, rng)
        top = parent_seq_len(p) or L
        s = rng.randint(0, top - 3)
        return {"start": s, "end": rng.randint(s + 1, top), "strand": rng.choice("+-."), "parent": p}
    return f


def _single_beyond(a):
    n = parent_seq_len(a["parent"])
    return None if n is None else put(a, end=n + 3)


SINGLE = ClassSpec(
    "SingleInterval",
    {m: _t_single(m) for m in PARENT_MODES + ["plain"]},
    lambda a: SingleInterval(val(a["start"]), val(a["end"]), strand_of(a["strand"]), parent=mk_parent(a["parent"])),
    [("start", "negative", lambda a: put(a, start=-1)),
     ("start", "start_gt_end", lambda a: put(a, start=a["end"] + 1)),
     ("start", "zero_length", lambda a: put(a, start=a["end"])),
     ("start", "none_value", lambda a: put(a, start=RAW(None))),
     ("start", "wrong_type", lambda a: put(a, start=RAW(str(a["start"])))),
     ("end", "negative", lambda a: put(a, start=-3, end=-1)),
     ("end", "beyond_parent", _single_beyond),
     ("end", "at_parent_end", lambda a: None if parent_seq_len(a["parent"]) is None else put(a, end=parent_seq_len(a["parent"]))),
     ("end", "none_value", lambda a: put(a, end=RAW(None))),
     ("end", "wrong_type", lambda a: put(a, end=RAW(str(a["end"])))),
     ] + STRAND_CORRUPTIONS + PARENT_CORRUPTIONS)


# ---- CompoundInterval ------------------------------------------------------------------------
def _t_compound(mode):
    def f(rng):
        p, L = parent_spec(mode, rng)
        top = parent_seq_len(p) or L
        bl = sorted_blocks(rng, 0, top, rng.randint(2, 4))
        return {"starts": [b[0] for b in bl], "ends": [b[1] for b in bl], "strand": rng.choice("+-."), "parent": p}
    return f


COMPOUND = ClassSpec(
    "CompoundInterval",
    {m: _t_compound(m) for m in PARENT_MODES + ["plain"]},
    lambda a: CompoundInterval(val(a["starts"]), val(a["ends"]), strand_of(a["strand"]), parent=mk_parent(a["parent"])),
    _list_corruptions("starts", "ends") + [
        ("starts", "negative_later", lambda a: put(a, starts=[a["starts"][0], -2] + list(a["starts"][2:]))),
        ("starts", "overlapping", lambda a: put(a, starts=[a["starts"][0], a["starts"][0]] + list(a["starts"][2:]))),
        ("starts", "tuple_ok", lambda a: put(a, starts=RAW(tuple(a["starts"])), ends=RAW(tuple(a["ends"])))),
    ] + STRAND_CORRUPTIONS + PARENT_CORRUPTIONS)


# ---- Parent ----------------------------------------------------------------------------------
def _mk_loc(spec):
    if spec is None:
        return None
    if spec[0] == "raw":
        return spec[1]
    if spec[0] == "E":
        return EmptyLocation()
    if spec[0] == "S":
        _, s, e, st, pid = spec
        return SingleInterval(s, e, SYM[st], parent=pid)
    _, ss, ee, st, pid = spec
    return CompoundInterval(ss, ee, SYM[st], parent=pid)


def _mk_seq(spec):
    """(data, alphabet-name, id, type, parent) ; parent = None | ("loc", s, e, strand, chrom-id) | parent spec"""
    if spec is None:
        return None
    if spec[0] == "raw":
        return spec[1]
    data, alph, sid, ty, par = spec
    if par is not None and par[0] == "loc":
        _, s, e, st, cid = par
        p = Parent(location=SingleInterval(s, e, SYM[st], parent=Parent(id=cid, sequence_type=SequenceType.CHROMOSOME)))
    elif par is not None and par[0] == "cloc":
        _, ss, ee, st, cid = par
        p = Parent(location=CompoundInterval(ss, ee, SYM[st], parent=Parent(id=cid, sequence_type=SequenceType.CHROMOSOME)))
    else:
        p = mk_parent(par)
    return Sequence(val(data), val(alph, lambda n: Alphabet[n]), id=sid, type=ty, parent=p)


def _build_parent(a):
    return Parent(id=val(a["id"]), sequence_type=val(a["sequence_type"]),
                  strand=None if a["strand"] is None else strand_of(a["strand"]),
                  location=_mk_loc(a["location"]), sequence=_mk_seq(a["sequence"]), parent=mk_parent(a["parent"]))


def _t_parent(kind):
    def f(rng):
        L = rng.randint(30, 60)
        g = genome(rng, L)
        s = rng.randint(0, L - 5)
        e = rng.randint(s + 1, L)
        st = rng.choice("+-")
        a = {"id": None, "sequence_type": None, "strand": None, "location": None, "sequence": None, "parent": None}
        if kind == "idonly":
            a.update(id="p1", sequence_type="chromosome")
        elif kind == "loc":
            a.update(id="chr1", sequence_type="chromosome", strand=st, location=("S", s, e, st, None))
        elif kind == "locpid":
            a.update(id="chr1", location=("S", s, e, st, "chr1"))
        elif kind == "locseq":
            a.update(id="chr1", sequence_type="chromosome", location=("S", s, e, st, None),
                     sequence=(g, "NT_STRICT", "chr1", "chromosome", None))
        elif kind == "cloc":
            bl = sorted_blocks(rng, 0, L, 3)
            a.update(id="chr1", strand=st, location=("C", [b[0] for b in bl], [b[1] for b in bl], st, None),
                     sequence=(g, "NT_STRICT", "chr1", None, None))
        elif kind == "nested":
            a.update(sequence=(g[s:e], "NT_STRICT", "chunk", "sequence_chunk", ("loc", s, e, "+", "chr1")))
        elif kind == "withparent":
            a.update(id="chunk", sequence=(g[s:e], "NT_STRICT", "chunk", None, None), parent=("chrom", "chr1", g))
        elif kind == "both":     # sequence.parent and parent given and equal (except location)
            a.update(sequence=(g[s:e], "NT_STRICT", "chunk", None, ("noseq", "chr1")), parent=("noseq", "chr1"))
        a["_L"], a["_g"] = L, g
        return a
    return f


def _p_beyond(a):
    if a["sequence"] is None or a["location"] is None:
        return None
    n = len(a["sequence"][0])
    loc = a["location"]
    if loc[0] == "S":
        return put(a, location=("S", loc[1], n + 2, loc[3], loc[4]))
    return put(a, location=("C", loc[1], loc[2][:-1] + [n + 2], loc[3], loc[4]))


def _p_seq_longer(a):
    if a["sequence"] is None or a["parent"] is None or parent_seq_len(a["parent"]) is None:
        return None
    s = a["sequence"]
    return put(a, sequence=(a["_g"] + "ACGT", s[1], s[2], s[3], s[4]))


def _p_strand_mismatch(a):
    if a["location"] is None:
        return None
    st = a["location"][3]
    return put(a, strand="-" if st == "+" else "+")


PARENT = ClassSpec(
    "Parent",
    {k: _t_parent(k) for k in ("idonly", "loc", "locpid", "locseq", "cloc", "nested", "withparent", "both")},
    _build_parent,
    [("id", "mismatch", lambda a: put(a, id="other") if (a["sequence"] or (a["location"] and a["location"][-1])) else None),
     ("sequence_type", "mismatch", lambda a: put(a, sequence_type="plasmid") if a["sequence"] and a["sequence"][3] else None),
     ("strand", "mismatch", _p_strand_mismatch),
     ("strand", "unstranded", lambda a: put(a, strand=".") if a["location"] else None),
     ("strand", "wrong_type", lambda a: put(a, strand=RAW("+"))),
     ("location", "beyond_parent", _p_beyond),
     ("location", "empty_location", lambda a: put(a, location=("E",))),
     ("location", "zero_length", lambda a: put(a, location=("S", 3, 3, "+", None))),
     ("location", "parent_mismatch", lambda a: put(a, location=("S", 1, 2, "+", "elsewhere")) if a["id"] else None),
     ("location", "wrong_type", lambda a: put(a, location=RAW(5))),
     ("sequence", "longer_than_parent", _p_seq_longer),
     ("sequence", "parent_mismatch",
      lambda a: put(a, parent=("noseq", "chrOther")) if a["sequence"] and a["sequence"][4] else None),
     ("sequence", "wrong_type", lambda a: put(a, sequence=RAW("ACGT"))),
     ("parent", "wrong_type", lambda a: put(a, parent=("raw", 7))),
     ("parent", "str_ok", lambda a: put(a, parent=("str", "chrS")) if a["parent"] is None and (
         a["sequence"] is None or a["sequence"][4] is None) else None),
     ])


# ---- Sequence --------------------------------------------------------------------------------
def _t_seq(kind):
    def f(rng):
        n = rng.randint(6, 20)
        g = genome(rng, n)
        a = {"data": g, "alphabet": "NT_STRICT", "id": "s1", "type": None, "parent": None}
        if kind == "lower":
            a.update(data=g.lower() + "-", alphabet="NT_STRICT_GAPPED")
        elif kind == "protein":
            a.update(data="".join(rng.choice("GALMFWKQESPVICYHRNDT") for _ in range(n)) + "*", alphabet="AA")
        elif kind == "withloc":
            s = rng.randint(0, 30)
            a.update(parent=("loc", s, s + n, rng.choice("+-"), "chr1"), type="sequence_chunk")
        elif kind == "cloc":
            k = rng.randint(1, n - 1)
            s = rng.randint(0, 30)
            a.update(parent=("cloc", [s, s + k + 5], [s + k, s + n + 5], rng.choice("+-"), "chr1"))
        elif kind == "noseqparent":
            a.update(parent=("noseq", "chr1"))
        return a
    return f


def _seq_bad_letter(pos, ch):
    def f(a):
        d = a["data"]
        i = {"mid": len(d) // 2, "first": 0, "last": len(d) - 1}[pos]
        bad = {"NT_STRICT": "N", "NT_STRICT_GAPPED": "N", "AA": "J"}[a["alphabet"]] if ch is None else ch
        return put(a, data=d[:i] + bad + d[i + 1:])
    return f


def _seq_build(a):
    return _mk_seq((a["data"], a["alphabet"], a["id"], a["type"], a["parent"]))


SEQUENCE = ClassSpec(
    "Sequence",
    {k: _t_seq(k) for k in ("bare", "lower", "protein", "withloc", "cloc", "noseqparent")},
    _seq_build,
    [("data", "wrong_alphabet", _seq_bad_letter("mid", None)),
     ("data", "wrong_alphabet_first", _seq_bad_letter("first", None)),
     ("data", "wrong_alphabet_last", _seq_bad_letter("last", None)),
     ("data", "wrong_alphabet_lower", _seq_bad_letter("mid", "x")),
     ("data", "wrong_alphabet_space", _seq_bad_letter("mid", " ")),
     ("data", "wrong_alphabet_digit", _seq_bad_letter("last", "1")),
     ("data", "len_mismatch", lambda a: put(a, data=a["data"][:-1]) if a["parent"] and a["parent"][0] in ("loc", "cloc") else None),
     ("data", "len_mismatch_longer", lambda a: put(a, data=a["data"] + a["data"][0]) if a["parent"] and a["parent"][0] in ("loc", "cloc") else None),
     ("data", "empty", lambda a: put(a, data="")),
     ("parent", "zero_length_location", lambda a: put(a, parent=("loc", 3, 3, "+", "chr1"))),
     ("data", "none_value", lambda a: put(a, data=RAW(None))),
     ("data", "wrong_type", lambda a: put(a, data=RAW(12))),
     ("alphabet", "none_value", lambda a: put(a, alphabet=RAW(None))),
     ("alphabet", "wrong_type", lambda a: put(a, alphabet=RAW(a["alphabet"]))),
     ("parent", "wrong_type", lambda a: put(a, parent=("raw", 7))),
     ("parent", "str_ok", lambda a: put(a, parent=("str", "chrS")) if a["parent"] is None else None),
     ])


# ---- interval classes (chromosome coordinates; parent = None | noseq | chrom | chunk) ----------
def _exons(rng, mode, k=None, strand=None, min_len=3):
    p, L = parent_spec(mode, rng, rng.randint(50, 90))
    lo, hi = (p[3] + 1, p[4] - 1) if p and p[0] == "chunk" else (2, L - 2)
    bl = sorted_blocks(rng, lo, hi, k or rng.randint(1, 4), min_len=min_len)
    return p, L, bl, strand or rng.choice("+-")


def _cds_in(rng, bl, strand):
    """CDS blocks = exons clipped to a window that starts/ends inside exons; >= 3 bases"""
    for _ in range(40):
        i = rng.randrange(len(bl))
        j = rng.randrange(i, len(bl))
        a = rng.randint(bl[i][0], bl[i][1] - 1)
        b = rng.randint(bl[j][0] + 1, bl[j][1])
        if b <= a:
            continue
        cb = [[max(s, a), min(e, b)] for s, e in bl if min(e, b) > max(s, a)]
        if sum(e - s for s, e in cb) >= 3:
            return cb
    return [list(b) for b in bl]


def _t_cds(mode, k=None, strand=None, phase=False, first=0):
    def f(rng):
        p, L, bl, st = _exons(rng, mode, k, strand, min_len=6)     # every base CDS has at least one complete codon
        fr = frames_for(bl, st, first)
        if phase:
            fr = [("ph", {0: 0, 1: 2, 2: 1}[x]) for x in fr]
        return {"cds_starts": [b[0] for b in bl], "cds_ends": [b[1] for b in bl], "strand": st, "frames": fr,
                "parent": p, "_chrom_coords": True}
    return f


def _build_cds(a):
    return CDSInterval(val(a["cds_starts"]), val(a["cds_ends"]), strand_of(a["strand"]), frames_of(a["frames"]),
                       parent_or_seq_chunk_parent=mk_parent(a["parent"]))


def _mix_frames(a):
    fr = list(a["frames"])
    if len(fr) < 2:
        return None
    x = fr[-1]
    fr[-1] = x[1] if isinstance(x, tuple) else ("ph", x)
    return put(a, frames=fr)


FRAME_CORRUPTIONS = [
    ("frames", "frames_count_more", lambda a: put(a, frames=list(a["frames"]) + [0])),
    ("frames", "frames_count_less", lambda a: put(a, frames=list(a["frames"])[:-1])),
    ("frames", "mixed_frame_phase", _mix_frames),
    ("frames", "none_value", lambda a: put(a, frames=RAW(None))),
    ("frames", "wrong_type", lambda a: put(a, frames=RAW([x[1] if isinstance(x, tuple) else x for x in a["frames"]]))),
    ("frames", "frame_none", lambda a: put(a, frames=[-1] * len(a["frames"]))),
]

CDS = ClassSpec(
    "CDSInterval",
    {"none1": _t_cds("none", 1), "none": _t_cds("none"), "noseq": _t_cds("noseq"), "chrom": _t_cds("chrom"),
     "chunk": _t_cds("chunk"), "minus": _t_cds("chrom", None, "-"), "phase": _t_cds("none", 3, None, True),
     "frame1": _t_cds("chrom", 2, "+", False, 1)},
    _build_cds,
    _list_corruptions("cds_starts", "cds_ends", ("frames",)) + [
        ("cds_ends", "empty_cds", lambda a: put(a, cds_ends=list(a["cds_starts"]))),
        ("strand", "unstranded", lambda a: put(a, strand=".")),
    ] + STRAND_CORRUPTIONS + FRAME_CORRUPTIONS + PARENT_CORRUPTIONS)


def _t_tx(mode, coding=True, k=None, strand=None, noutr=False):
    def f(rng):
        p, L, bl, st = _exons(rng, mode, k, strand)
        a = {"exon_starts": [b[0] for b in bl], "exon_ends": [b[1] for b in bl], "strand": st,
             "cds_starts": None, "cds_ends": None, "cds_frames": None, "parent": p, "_chrom_coords": True}
        if coding:
            cb = [list(b) for b in bl] if noutr else _cds_in(rng, bl, st)
            a.update(cds_starts=[b[0] for b in cb], cds_ends=[b[1] for b in cb], cds_frames=frames_for(cb, st))
        return a
    return f


def _build_tx(a, **kw):
    return TranscriptInterval(
        val(a["exon_starts"]), val(a["exon_ends"]), strand_of(a["strand"]),
        cds_starts=val(a["cds_starts"]), cds_ends=val(a["cds_ends"]),
        cds_frames=None if a["cds_frames"] is None else frames_of(a["cds_frames"]),
        parent_or_seq_chunk_parent=mk_parent(a["parent"]), **kw)


def _coding(fn):
    return lambda a: fn(a) if a["cds_starts"] is not None else None


def _cds_in_intron(a):
    """CDS [s, e) that starts inside exon 0 and ends inside intron 0 (F-C19h)"""
    if a["cds_starts"] is None or len(a["exon_starts"]) < 2 or a["exon_starts"][1] - a["exon_ends"][0] < 2:
        return None
    s = a["exon_ends"][0] - 2
    e = a["exon_ends"][0] + 1
    return put(a, cds_starts=[s], cds_ends=[e], cds_frames=[0])


TRANSCRIPT = ClassSpec(
    "TranscriptInterval",
    {"noncoding": _t_tx("none", False), "coding": _t_tx("none"), "single": _t_tx("none", True, 1),
     "multi": _t_tx("none", True, 3), "noseq": _t_tx("noseq"), "chrom": _t_tx("chrom"), "chunk": _t_tx("chunk"),
     "minus": _t_tx("chrom", True, 3, "-"), "noutr": _t_tx("chrom", True, 2, None, True)},
    _build_tx,
    _list_corruptions("exon_starts", "exon_ends") + [
        ("strand", "unstranded", lambda a: put(a, strand=".")),
        ("cds_starts", "only_starts", _coding(lambda a: put(a, cds_ends=None))),
        ("cds_ends", "only_ends", _coding(lambda a: put(a, cds_starts=None))),
        ("cds_starts", "len_mismatch", _coding(lambda a: put(a, cds_starts=list(a["cds_starts"]) + [a["cds_ends"][-1]]))),
        ("cds_starts", "before_exons", _coding(lambda a: put(a, cds_starts=[a["exon_starts"][0] - 1] + list(a["cds_starts"][1:])))),
        ("cds_ends", "after_exons", _coding(lambda a: put(a, cds_ends=list(a["cds_ends"][:-1]) + [a["exon_ends"][-1] + 1]))),
        ("cds_starts", "cds_in_intron", _cds_in_intron),
        ("cds_starts", "empty_list", _coding(lambda a: put(a, cds_starts=[], cds_ends=[], cds_frames=[]))),
        ("cds_starts", "start_gt_end", _coding(lambda a: put(a, cds_starts=[a["cds_ends"][0]] + list(a["cds_starts"][1:]),
                                                            cds_ends=[a["cds_starts"][0]] + list(a["cds_ends"][1:])))),
        ("cds_starts", "unsorted", _coding(lambda a: put(a, **{k: list(a[k])[::-1] for k in ("cds_starts", "cds_ends", "cds_frames")})
                                         if len(a["cds_starts"]) > 1 else None)),
        ("cds_ends", "empty_cds", _coding(lambda a: put(a, cds_ends=list(a["cds_starts"])))),
        ("cds_frames", "none_value", _coding(lambda a: put(a, cds_frames=None))),
        ("cds_frames", "frames_count_more", _coding(lambda a: put(a, cds_frames=list(a["cds_frames"]) + [0]))),
        ("cds_frames", "frames_count_less", _coding(lambda a: put(a, cds_frames=list(a["cds_frames"])[:-1]))),
        ("cds_frames", "wrong_type", _coding(lambda a: put(a, cds_frames=RAW(list(a["cds_frames"]))))),
        ("cds_frames", "frames_without_cds", lambda a: put(a, cds_frames=[0]) if a["cds_starts"] is None else None),
    ] + STRAND_CORRUPTIONS + PARENT_CORRUPTIONS)


def _t_feat(mode, k=None):
    def f(rng):
        p, L, bl, st = _exons(rng, mode, k)
        return {"interval_starts": [b[0] for b in bl], "interval_ends": [b[1] for b in bl], "strand": rng.choice([st, "."]),
                "feature_types": rng.choice([None, ["promoter"]]), "qualifiers": rng.choice([None, {"note": ["a", "b"]}]),
                "parent": p, "_chrom_coords": True}
    return f


def _build_feat(a, **kw):
    return FeatureInterval(val(a["interval_starts"]), val(a["interval_ends"]), strand_of(a["strand"]),
                           qualifiers=val(a["qualifiers"]), feature_types=val(a["feature_types"]),
                           parent_or_seq_chunk_parent=mk_parent(a["parent"]), **kw)


QUAL_CORRUPTIONS = [
    ("qualifiers", "wrong_type", lambda a: put(a, qualifiers=RAW([("note", ["a"])]))),
    ("qualifiers", "wrong_type_value", lambda a: put(a, qualifiers={"note": "a"})),
    ("qualifiers", "empty_ok", lambda a: put(a, qualifiers={})),
]

FEATURE = ClassSpec(
    "FeatureInterval",
    {"none": _t_feat("none"), "single": _t_feat("none", 1), "noseq": _t_feat("noseq"), "chrom": _t_feat("chrom"),
     "chunk": _t_feat("chunk")},
    _build_feat,
    _list_corruptions("interval_starts", "interval_ends") + STRAND_CORRUPTIONS + QUAL_CORRUPTIONS + PARENT_CORRUPTIONS)


# ---- collections -----------------------------------------------------------------------------
def _t_gene(mode, n=None, coding=True, typed=True):
    def f(rng):
        p, L = parent_spec(mode, rng, rng.randint(60, 90))
        st = rng.choice("+-")
        txs, seen = [], set()
        for _ in range(n or rng.randint(1, 3)):
            t = _t_tx("none", coding and rng.random() < 0.8, None, st)(rng)
            lo = (p[3] + 1) if p and p[0] == "chunk" else 0
            hi = (p[4] - 1) if p and p[0] == "chunk" else L
            if t["exon_ends"][-1] > hi or t["exon_starts"][0] < lo or repr(t) in seen:
                t = put(t, exon_starts=[lo + 2], exon_ends=[lo + 14 + len(txs)], cds_starts=None, cds_ends=None, cds_frames=None)
            if repr(t) in seen:
                continue
            seen.add(repr(t))
            t["parent"] = p
            txs.append(t)
        return {"transcripts": txs, "gene_type": rng.choice(["protein_coding", "lncRNA"]) if typed else None,
                "qualifiers": None, "parent": p}
    return f


def _build_gene(a):
    txs = val(a["transcripts"], lambda l: [val(t, lambda d: _build_tx(d, **d.get("_kw", {}))) for t in l])
    return GeneInterval(txs, gene_type=val(a["gene_type"], lambda n: Biotype[n] if n else None),
                        qualifiers=val(a["qualifiers"]), parent_or_seq_chunk_parent=mk_parent(a["parent"]))


def _flip(t, key="strand"):
    return put(t, **{key: "-" if t[key] == "+" else "+"})


def _coll_corruptions(p, child_other_type, primary_kw):
    def two_primaries(a):
        ch = list(a[p])
        if len(ch) < 2:
            return None
        return put(a, **{p: [put(c, _kw={primary_kw: True}) for c in ch]})

    return [
        (p, "empty_collection", lambda a: put(a, **{p: []})),
        (p, "none_value", lambda a: put(a, **{p: RAW(None)})),
        (p, "duplicate_child", lambda a: put(a, **{p: list(a[p]) + [a[p][0]]})),
        (p, "mixed_strands", lambda a: put(a, **{p: list(a[p]) + [put(_flip(a[p][0]), cds_starts=None, cds_ends=None, cds_frames=None)
                                                       if "cds_starts" in a[p][0] else _flip(a[p][0])]})
         if a[p][0]["strand"] in "+-" else None),
        (p, "two_primaries", two_primaries),
        (p, "wrong_type_child", lambda a: put(a, **{p: list(a[p]) + [RAW(child_other_type())]})),
        (p, "wrong_type", lambda a: put(a, **{p: RAW(5)})),
        (p, "child_parent_mismatch",
         lambda a: put(a, **{p: [put(c, parent=("noseq", "chrOther")) for c in a[p]]}) if a["parent"] is not None else None),
    ]


GENE = ClassSpec(
    "GeneInterval",
    {"none": _t_gene("none"), "one": _t_gene("none", 1), "noncoding": _t_gene("none", 2, False),
     "noseq": _t_gene("noseq"), "chrom": _t_gene("chrom"), "chunk": _t_gene("chunk"),
     "notype": _t_gene("chrom", None, True, False)},
    _build_gene,
    _coll_corruptions("transcripts", lambda: FeatureInterval([1], [5], Strand.PLUS), "is_primary_tx") + [
        ("gene_type", "wrong_type", lambda a: put(a, gene_type=RAW("protein_coding"))),
    ] + QUAL_CORRUPTIONS + PARENT_CORRUPTIONS)


def _t_fc(mode, n=None):
    def f(rng):
        p, L = parent_spec(mode, rng, rng.randint(60, 90))
        fs, seen = [], set()
        for _ in range(n or rng.randint(1, 3)):
            t = _t_feat("none")(rng)
            lo = (p[3] + 1) if p and p[0] == "chunk" else 0
            hi = (p[4] - 1) if p and p[0] == "chunk" else L
            if t["interval_ends"][-1] > hi or t["interval_starts"][0] < lo or repr(t) in seen:
                t = put(t, interval_starts=[lo + 2], interval_ends=[lo + 14 + len(fs)])
            if repr(t) in seen:
                continue
            seen.add(repr(t))
            t["parent"] = p
            fs.append(t)
        return {"feature_intervals": fs, "qualifiers": None, "parent": p}
    return f


def _build_fc(a):
    fs = val(a["feature_intervals"], lambda l: [val(t, lambda d: _build_feat(d, **d.get("_kw", {}))) for t in l])
    return FeatureIntervalCollection(fs, qualifiers=val(a["qualifiers"]), parent_or_seq_chunk_parent=mk_parent(a["parent"]))


FEATCOLL = ClassSpec(
    "FeatureIntervalCollection",
    {"none": _t_fc("none"), "one": _t_fc("none", 1), "noseq": _t_fc("noseq"), "chrom": _t_fc("chrom"), "chunk": _t_fc("chunk")},
    _build_fc,
    _coll_corruptions("feature_intervals", lambda: TranscriptInterval([1], [5], Strand.PLUS), "is_primary_feature")
    + QUAL_CORRUPTIONS + PARENT_CORRUPTIONS)


# ---- variants --------------------------------------------------------------------------------
def _t_var(mode):
    def f(rng):
        p, L = parent_spec(mode, rng, rng.randint(50, 80))
        lo, hi = (p[3] + 1, p[4] - 1) if p and p[0] == "chunk" else (1, L - 1)
        s = rng.randint(lo, hi - 4)
        e = rng.randint(s + 1, s + 3)
        return {"start": s, "end": e, "sequence": rng.choice(["A", "ACG", "", "N"]),
                "variant_type": "snv", "parent": p, "_chrom_coords": True}
    return f


def _build_var(a):
    return VariantInterval(val(a["start"]), val(a["end"]), val(a["sequence"]), val(a["variant_type"]),
                           parent_or_seq_chunk_parent=mk_parent(a["parent"]))


def _var_beyond(a):
    if a["parent"] is None or a["parent"][0] != "chrom":
        return None
    return put(a, end=len(a["parent"][2]) + 2)


VARIANT = ClassSpec(
    "VariantInterval",
    {"none": _t_var("none"), "noseq": _t_var("noseq"), "chrom": _t_var("chrom"), "chunk": _t_var("chunk")},
    _build_var,
    [("start", "start_eq_end", lambda a: put(a, start=a["end"])),
     ("start", "start_gt_end", lambda a: put(a, start=a["end"] + 1)),
     ("start", "negative", lambda a: put(a, start=-1)),
     ("start", "none_value", lambda a: put(a, start=RAW(None))),
     ("start", "wrong_type", lambda a: put(a, start=RAW(str(a["start"])))),
     ("end", "beyond_parent", _var_beyond),
     ("end", "none_value", lambda a: put(a, end=RAW(None))),
     ("sequence", "wrong_alphabet", lambda a: put(a, sequence="AXG")),
     ("sequence", "wrong_alphabet_lower", lambda a: put(a, sequence="ax")),
     ("sequence", "lower_ok", lambda a: put(a, sequence="acgn")),
     ("sequence", "none_value", lambda a: put(a, sequence=RAW(None))),
     ("sequence", "wrong_type", lambda a: put(a, sequence=RAW(5))),
     ("variant_type", "none_value", lambda a: put(a, variant_type=RAW(None))),
     ] + QUAL_CORRUPTIONS + PARENT_CORRUPTIONS)


def _t_vc(mode, n=None):
    def f(rng):
        p, L = parent_spec(mode, rng, rng.randint(60, 90))
        lo, hi = (p[3] + 1, p[4] - 1) if p and p[0] == "chunk" else (1, L - 1)
        k = n or rng.randint(1, 3)
        bl = sorted_blocks(rng, lo, hi, k)
        vs = [{"start": b[0], "end": min(b[1], b[0] + 3), "sequence": rng.choice(["A", "AC", "", "TTT"]),
               "variant_type": "v", "parent": p, "qualifiers": None} for b in bl]
        return {"variant_intervals": vs, "qualifiers": None, "parent": p}
    return f


def _build_vc(a):
    vs = val(a["variant_intervals"], lambda l: [val(t, _build_var) for t in l])
    return VariantIntervalCollection(vs, qualifiers=val(a["qualifiers"]), parent_or_seq_chunk_parent=mk_parent(a["parent"]))


def _vc_overlap(a):
    v = a["variant_intervals"][0]
    return put(a, variant_intervals=list(a["variant_intervals"]) + [put(v, start=v["end"] - 1, end=v["end"] + 1, sequence="G")])


VARCOLL = ClassSpec(
    "VariantIntervalCollection",
    {"none": _t_vc("none"), "one": _t_vc("none", 1), "noseq": _t_vc("noseq"), "chrom": _t_vc("chrom"), "chunk": _t_vc("chunk")},
    _build_vc,
    [("variant_intervals", "overlap_variants", _vc_overlap),
     ("variant_intervals", "adjacent_ok", lambda a: put(a, variant_intervals=list(a["variant_intervals"]) + [
         put(a["variant_intervals"][-1], start=a["variant_intervals"][-1]["end"], end=a["variant_intervals"][-1]["end"] + 1, sequence="C")])),
     ("variant_intervals", "duplicate_child", lambda a: put(a, variant_intervals=list(a["variant_intervals"]) + [a["variant_intervals"][0]])),
     ("variant_intervals", "empty_collection", lambda a: put(a, variant_intervals=[])),
     ("variant_intervals", "none_value", lambda a: put(a, variant_intervals=RAW(None))),
     ("variant_intervals", "wrong_type_child", lambda a: put(a, variant_intervals=list(a["variant_intervals"]) + [RAW(FeatureInterval([1], [5], Strand.PLUS))])),
     ("variant_intervals", "child_parent_mismatch",
      lambda a: put(a, variant_intervals=[put(c, parent=("noseq", "chrOther")) for c in a["variant_intervals"]]) if a["parent"] is not None else None),
     ] + QUAL_CORRUPTIONS + PARENT_CORRUPTIONS)


def _t_ac(mode, shape="full"):
    def f(rng):
        p, L = parent_spec(mode, rng, rng.randint(70, 100))
        a = {"genes": None, "feature_collections": None, "variant_collections": None, "start": None, "end": None,
             "qualifiers": None, "parent": p}
        seed = rng.randint(0, 10 ** 6)
        lo, hi = (p[3] + 1, p[4] - 1) if p and p[0] == "chunk" else (0, L)
        if shape in ("full", "genes", "bounds"):
            g = _t_gene("none")(random.Random(seed))
            g["parent"] = p
            for t in g["transcripts"]:
                t["parent"] = p
            if min(t["exon_starts"][0] for t in g["transcripts"]) < lo or max(t["exon_ends"][-1] for t in g["transcripts"]) > hi:
                g["transcripts"] = [put(g["transcripts"][0], exon_starts=[lo + 2], exon_ends=[lo + 14],
                                        cds_starts=None, cds_ends=None, cds_frames=None)]
            a["genes"] = [g]
        if shape in ("full", "fcs"):
            c = _t_fc("none")(random.Random(seed + 1))
            c["parent"] = p
            for t in c["feature_intervals"]:
                t["parent"] = p
            if min(t["interval_starts"][0] for t in c["feature_intervals"]) < lo or \
                    max(t["interval_ends"][-1] for t in c["feature_intervals"]) > hi:
                c["feature_intervals"] = [put(c["feature_intervals"][0], interval_starts=[lo + 3], interval_ends=[lo + 9])]
            a["feature_collections"] = [c]
        if shape == "bounds":
            a.update(start=0, end=L)
        if shape == "boundsonly":
            a.update(start=2, end=L - 2)
        return a
    return f


def _build_ac(a):
    p = mk_parent(a["parent"])
    return AnnotationCollection(
        feature_collections=val(a["feature_collections"], lambda l: None if l is None else [val(c, _build_fc) for c in l]),
        genes=val(a["genes"], lambda l: None if l is None else [val(g, _build_gene) for g in l]),
        variant_collections=val(a["variant_collections"], lambda l: None if l is None else [val(c, _build_vc) for c in l]),
        start=val(a["start"]), end=val(a["end"]), qualifiers=val(a["qualifiers"]), parent_or_seq_chunk_parent=p)


ANNOT = ClassSpec(
    "AnnotationCollection",
    {"full": _t_ac("none"), "genes": _t_ac("none", "genes"), "fcs": _t_ac("none", "fcs"), "bounds": _t_ac("none", "bounds"),
     "boundsonly": _t_ac("none", "boundsonly"), "empty": _t_ac("none", "empty"), "noseq": _t_ac("noseq"),
     "chrom": _t_ac("chrom"), "chunk": _t_ac("chunk"), "emptychrom": _t_ac("chrom", "empty")},
    _build_ac,
    [("start", "only_start", lambda a: put(a, start=1, end=None)),
     ("end", "only_end", lambda a: put(a, start=None, end=9)),
     ("start", "start_gt_end", lambda a: put(a, start=20, end=10)),
     ("start", "negative", lambda a: put(a, start=-5, end=(a["end"] or 50))),
     ("start", "wrong_type", lambda a: put(a, start=RAW("0"), end=(a["end"] or 50))),
     ("end", "beyond_parent", lambda a: put(a, start=0, end=len(a["parent"][2]) + 5) if a["parent"] and a["parent"][0] == "chrom" else None),
     ("genes", "duplicate_child", lambda a: put(a, genes=list(a["genes"]) + [a["genes"][0]]) if a["genes"] else None),
     ("genes", "empty_collection", lambda a: put(a, genes=[], feature_collections=[], variant_collections=[])),
     ("genes", "wrong_type_child", lambda a: put(a, genes=[RAW(FeatureInterval([1], [5], Strand.PLUS))])),
     ("genes", "wrong_type", lambda a: put(a, genes=RAW(5))),
     ("genes", "child_parent_mismatch",
      lambda a: put(a, genes=[put(g, parent=("noseq", "chrOther"), transcripts=[put(t, parent=("noseq", "chrOther")) for t in g["transcripts"]])
                              for g in a["genes"]]) if a["genes"] and a["parent"] is not None else None),
     ] + QUAL_CORRUPTIONS + PARENT_CORRUPTIONS)


# ---- small value classes ---------------------------------------------------------------------
def _fixed(**kw):
    return lambda rng: dict(kw)


CODON = ClassSpec(
    "Codon", {"atg": _fixed(codon="ATG"), "lower": _fixed(codon="atg"), "nnn": _fixed(codon="NNN"), "rna": _fixed(codon="AUG")},
    lambda a: Codon(val(a["codon"])),
    [("codon", "too_long", lambda a: put(a, codon=a["codon"] + "A")),
     ("codon", "too_short", lambda a: put(a, codon=a["codon"][:2])),
     ("codon", "empty", lambda a: put(a, codon="")),
     ("codon", "wrong_alphabet", lambda a: put(a, codon="AT" + "X")),
     ("codon", "wrong_alphabet_gap", lambda a: put(a, codon="A-G")),
     ("codon", "none_value", lambda a: put(a, codon=RAW(None))),
     ("codon", "wrong_type", lambda a: put(a, codon=RAW(123)))])


def _enum_spec(name, fn, good, bad):
    return ClassSpec(
        name, {f"v{i}": _fixed(value=g) for i, g in enumerate(good)}, lambda a: fn(val(a["value"])),
        [("value", f"out_of_range{i}", (lambda b: lambda a: put(a, value=RAW(b)))(b)) for i, b in enumerate(bad)]
        + [("value", "none_value", lambda a: put(a, value=RAW(None)))])


class _EnumOK:
    pass


FRAME_FROM_INT = _enum_spec("CDSFrame.from_int", CDSFrame.from_int, [-1, 0, 1, 2], [3, -2, "0", 1.5])
PHASE_FROM_INT = _enum_spec("CDSPhase.from_int", CDSPhase.from_int, [-1, 0, 1, 2], [3, -2, "0", 1.5])
STRAND_FROM_INT = _enum_spec("Strand.from_int", Strand.from_int, [1, -1, 0], [2, -2, "+", 0.5])
STRAND_FROM_SYMBOL = _enum_spec("Strand.from_symbol", Strand.from_symbol, ["+", "-", "."], ["x", "", "++", 1])

CLASSES = {c.name: c for c in (SINGLE, COMPOUND, PARENT, SEQUENCE, CDS, TRANSCRIPT, FEATURE, GENE, FEATCOLL, VARIANT,
                               VARCOLL, ANNOT, CODON, FRAME_FROM_INT, PHASE_FROM_INT, STRAND_FROM_INT, STRAND_FROM_SYMBOL)}


def corrupt(spec, args, param, kind):
    if kind == "none":
        return args
    for p, k, fn in spec.corruptions:
        if p == param and k == kind:
            return fn(args)
    raise KeyError(f"{spec.name}.{param}.{kind}")


def ctor_points(cls_name, base_id):
    """the applicable (param, kind) pairs for a base"""
    spec = CLASSES[cls_name]
    args = spec.base(base_id)
    out = [("-", "none")]
    for p, k, fn in spec.corruptions:
        try:
            if fn(args) is not None:
                out.append((p, k))
        except Exception:  # noqa  (a corruption that does not apply to this base)
            continue
    return out


def _force(obj):
    """touch what a constructor defers (CompoundInterval builds its blocks lazily: F-C19g)"""
    return obj


def impl_ctor(t):
    _, cls_name, base_id, param, kind = t
    spec = CLASSES[cls_name]
    args = corrupt(spec, spec.base(base_id), param, kind)
    if args is None:
        return "err! NotApplicable"

    def go():
        obj = spec.build(args)
        if cls_name.endswith((".from_int", ".from_symbol")):
            return "ok wf" if isinstance(obj, (Strand, CDSFrame, CDSPhase)) else "ok illformed not-an-enum-member"
        return judge(obj)
    ans = guarded(go)
    if kind in TYPE_KINDS and ans == "err! TypeError":
        # ill-typed argument (against the annotation): Python's own TypeError is the documented refusal
        return "err TypeError"
    return ans


# ----------------------------------------------------------------------------------------------
# grid B: public methods x boundary arguments (signature driven)

TYPE_KINDS = ("none_value", "wrong_type", "wrong_type_elem", "wrong_type_child", "wrong_type_value")

INT_NAMES = {"parent_pos", "relative_pos", "pos", "shift", "extend_start", "extend_end", "extend_upstream",
             "extend_downstream", "window_size", "step_size", "start_pos", "relative_start", "relative_end", "rel_start",
             "rel_end", "chr_start", "chr_end", "chromosome_start", "chromosome_end", "start", "end", "num_chars", "score"}
STRAND_NAMES = {"relative_strand", "rel_strand", "chr_strand", "new_strand"}
LOC_NAMES = {"parent_location", "location"}
PARENT_NAMES = {"new_parent", "parent_or_seq_chunk_parent"}
SEQTYPE_NAMES = {"sequence_type", "ancestor_type"}
V1 = ["-1", "0", "1", "len-1", "len", "len+1", "start-1", "start", "end-1", "end", "end+1"]
P2 = [("0", "0"), ("0", "len"), ("len", "len"), ("len", "len+1"), ("len-1", "len"), ("-1", "0"), ("1", "0"), ("0", "1"),
      ("start", "end"), ("start", "start"), ("end", "end"), ("end-1", "end"), ("end", "end+1"), ("start-1", "start"),
      ("start-1", "end+1"), ("0", "big")]
INT_OVERRIDES = {
    "scan_windows": [("len", "1", "0"), ("len+1", "1", "0"), ("0", "1", "0"), ("1", "0", "0"), ("1", "1", "len"),
                     ("1", "1", "len-1"), ("1", "1", "-1"), ("2", "1", "len-1"), ("1", "len", "0"), ("3", "2", "0"),
                     ("-1", "-1", "0")],
    "shift_position": [("0",), ("1",), ("-1",), ("-start",), ("-start-1",), ("big",)],
    "extend_absolute": [("0", "0"), ("1", "1"), ("start", "0"), ("start+1", "0"), ("0", "big"), ("-1", "0"), ("0", "-1")],
    "extend_relative": [("0", "0"), ("1", "1"), ("start", "end"), ("start+1", "0"), ("0", "start+1"), ("0", "big"), ("-1", "0")],
    "to_fasta": [("1",), ("60",), ("len",), ("0",), ("-1",)],
}
OPT_INT_PAIRS = [("None", "None"), ("start", "end"), ("start", "start"), ("end", "start"), ("start-1", "end+1"),
                 ("-1", "big"), ("start", "None"), ("None", "end"), ("0", "0"), ("end", "end+1")]
LOC_OPERANDS = ["twin", "sub", "disjoint", "rev", "uns", "empty", "zero", "noparent", "otherparent", "compound"]
SKIP_METHODS = {"cache_clear", "cache_info", "from_dict", "from_location", "from_chunk_relative_location",
                "initialize_location", "liftover_location_to_seq_chunk_parent", "construct_frames_from_location",
                "from_single_intervals", "validate_alphabet"}
_ENUM_DOMAINS = {"distance_type": [("inner", DistanceType.INNER), ("outer", DistanceType.OUTER),
                                   ("starts", DistanceType.STARTS), ("ends", DistanceType.ENDS)],
                 "translation_table": [("DEFAULT", TranslationTable.DEFAULT), ("STANDARD", TranslationTable.STANDARD),
                                       ("PROKARYOTE", TranslationTable.PROKARYOTE)]}


def is_location(o):
    return isinstance(o, (SingleInterval, CompoundInterval, W._EmptyLocation))


def _span(o):
    """(start, end, length) the symbolic ints refer to"""
    if isinstance(o, W._EmptyLocation):
        return 0, 0, 0
    if isinstance(o, W.PARENT_CLS):
        loc = o.location
        if loc is None or isinstance(loc, W._EmptyLocation):
            return 0, 0, 0
        return loc.start, loc.end, len(loc)
    if isinstance(o, Sequence):
        return 0, len(o), len(o)
    if isinstance(o, AnnotationCollection):
        return getattr(o, "start", 0), getattr(o, "end", 0), len(o)
    return o.start, o.end, len(o)


def _int_sym(o, sym):
    if sym == "None":
        return None
    s, e, n = _span(o)
    env = {"len": n, "start": s, "end": e, "big": BIG}
    neg = sym.startswith("-") and not sym[1:2].isdigit()
    body = sym[1:] if neg else sym
    total, cur, sign = 0, "", 1
    for ch in body + "+":
        if ch in "+-" and cur != "":
            total += sign * (env[cur] if cur in env else int(cur))
            cur, sign = "", (1 if ch == "+" else -1)
        elif ch in "+-":
            sign = 1 if ch == "+" else -1
        else:
            cur += ch
    return -total if neg else total


def _obj_parent(o):
    if is_location(o):
        return o.parent
    if isinstance(o, (W.PARENT_CLS, Sequence)):
        return o.parent
    return getattr(o, "_parent_or_seq_chunk_parent", None)


def _obj_strand(o):
    try:
        st = o.strand if is_location(o) else getattr(o, "_strand", Strand.PLUS)
    except Exception:  # noqa (EmptyLocation)
        st = Strand.PLUS
    return st if isinstance(st, Strand) else Strand.PLUS


def _loc_operand(o, sym):
    s, e, _ = _span(o)
    if e <= s:
        e = s + 6
    st = _obj_strand(o)
    par = o.parent.strip_location_info() if is_location(o) and o.parent else None
    if par is not None and par.sequence is not None:
        e = min(e, len(par.sequence))
    mid = (s + e) // 2
    if sym == "twin":
        if isinstance(o, CompoundInterval):
            return CompoundInterval(o._starts, o._ends, st, par)
        return SingleInterval(s, e, st, par)
    if sym == "sub":
        return SingleInterval(s, max(s + 1, mid), st, par)
    if sym == "disjoint":
        return SingleInterval(0, s - 1, st, par) if s >= 3 else SingleInterval(e + 2, e + 5, st, par)
    if sym == "rev":
        return SingleInterval(s, e, st.reverse(), par)
    if sym == "uns":
        return SingleInterval(s, e, Strand.UNSTRANDED, par)
    if sym == "empty":
        return EmptyLocation()
    if sym == "zero":
        return SingleInterval(s, s, st, par)
    if sym == "noparent":
        return SingleInterval(s, e, st, None if par is not None else "chrX")
    if sym == "otherparent":
        return SingleInterval(s, e, st, "otherchr")
    if sym == "compound":
        if e - s < 3:
            raise LookupError("too short")
        return CompoundInterval([s, mid + 1], [mid, e], st, par)
    raise KeyError(sym)


def _parent_operand(o, sym):
    s, e, _ = _span(o)
    if sym == "none":
        return None
    if sym == "same":
        p = _obj_parent(o)
        if p is None:
            raise LookupError("no parent")
        return p
    if sym == "other":
        return Parent(id="otherchr", sequence_type=SequenceType.CHROMOSOME)
    if sym == "str":
        return "chrS"
    if sym == "chrom":
        return mk_parent(("chrom", "chr1", "ACGT" * ((e + 8) // 4 + 1)))
    if sym == "short":
        return mk_parent(("chrom", "chr1", "ACGT" * max(1, (e - 1) // 4))) if e > 4 else mk_parent(("chrom", "chr1", "A"))
    if sym == "chunk":
        g = "ACGT" * ((e + 12) // 4 + 1)
        return mk_parent(("chunk", "chr1", g, max(0, s - 2), min(len(g), e + 2)))
    if sym == "chunkcut":
        g = "ACGT" * ((e + 12) // 4 + 1)
        return mk_parent(("chunk", "chr1", g, s + 1, max(s + 2, e - 1)))
    if sym == "chunkout":
        g = "ACGT" * ((e + 12) // 4 + 1)
        return mk_parent(("chunk", "chr1", g, e + 1, e + 5))
    raise KeyError(sym)


def _seq_operand(o, sym):
    if sym == "other":
        return Sequence("ACGTN", Alphabet.NT_EXTENDED_GAPPED)
    if sym == "same":
        return Sequence(str(o), o.alphabet) if isinstance(o, Sequence) else Sequence("ACGT", Alphabet.NT_STRICT)
    if sym == "otheralphabet":
        return Sequence("MKV", Alphabet.AA)
    if sym == "empty":
        return Sequence("", Alphabet.NT_EXTENDED_GAPPED)
    if sym == "root":        # the sequence at the top of the object's own hierarchy, if any
        p = _obj_parent(o)
        while p is not None:
            if p.sequence is not None and p.parent is None:
                return p.sequence
            if p.sequence is not None and p.sequence.parent is None:
                return p.sequence
            p = p.parent
        raise LookupError("no root sequence")
    raise KeyError(sym)


def _variant_operand(o, sym):
    s, e, _ = _span(o)
    par = _obj_parent(o)
    if sym == "snv_in":
        return VariantInterval(s + 1, s + 2, "A", "snv", parent_or_seq_chunk_parent=par)
    if sym == "del_in":
        return VariantInterval(s + 1, min(e, s + 4), "", "del", parent_or_seq_chunk_parent=par)
    if sym == "ins_edge":
        return VariantInterval(s, s + 1, "ACGT", "ins", parent_or_seq_chunk_parent=par)
    if sym == "out":
        return VariantInterval(e + 3, e + 4, "A", "snv", parent_or_seq_chunk_parent=par)
    if sym == "span":
        return VariantInterval(max(0, s - 1), e + 1, "A", "del", parent_or_seq_chunk_parent=par)
    if sym == "noparent":
        return VariantInterval(s + 1, s + 2, "A", "snv")
    if sym == "coll":
        return VariantIntervalCollection([VariantInterval(s + 1, s + 2, "A", "snv", parent_or_seq_chunk_parent=par),
                                          VariantInterval(e - 1, e, "GG", "ins", parent_or_seq_chunk_parent=par)],
                                         parent_or_seq_chunk_parent=par)
    raise KeyError(sym)


def _children_of(o):
    try:
        return list(o.iter_children())
    except Exception:  # noqa
        return []


def _guid_operand(o, sym, method):
    import uuid
    kids = _children_of(o)
    if method in ("query_by_interval_guids", "query_by_transcript_interval_guids", "query_by_feature_interval_guids"):
        kids = [g for k in kids for g in _children_of(k)]
    if sym == "first":
        return [kids[0].guid]
    if sym == "all":
        return [k.guid for k in kids]
    if sym == "unknown":
        return [uuid.UUID(int=7)]
    if sym == "single":
        return kids[0].guid
    if sym == "emptylist":
        return []
    if sym == "dup":
        return [kids[0].guid, kids[0].guid]
    raise KeyError(sym)


def resolve(o, method, pname, sym):
    if pname in INT_NAMES:
        return _int_sym(o, sym)
    if pname in STRAND_NAMES:
        return SYM[sym]
    if pname in LOC_NAMES or (pname == "other" and is_location(o)):
        return _loc_operand(o, sym)
    if pname in PARENT_NAMES:
        return _parent_operand(o, sym)
    if pname in SEQTYPE_NAMES:
        return SequenceType[sym[2:]] if sym.startswith("E:") else sym
    if pname == "sequence" or (pname == "other" and isinstance(o, Sequence)):
        return _seq_operand(o, sym)
    if pname == "other":                 # Parent.equals_except_location
        return {"twin": o, "none": None, "str": "chr1", "otherid": Parent(id="zz")}[sym]
    if pname in _ENUM_DOMAINS:
        return dict(_ENUM_DOMAINS[pname])[sym]
    if pname == "variants":
        return _variant_operand(o, sym)
    if pname == "id_or_ids":
        if method == "query_by_feature_identifiers":
            return {"known": [x for k in _children_of(o) for x in k.identifiers][:2] or ["G0"], "unknown": ["nosuch"],
                    "single": "nosuch", "emptylist": []}[sym]
        return _guid_operand(o, sym, method)
    if pname == "child_type":
        return sym
    if pname in ("parent_qualifiers", "new_qualifiers"):
        return {"none": None, "pq": {"k": {"v"}}, "empty": {}}[sym]
    if pname == "parent":
        return {"none": None, "P1": "P1"}[sym]
    if pname in ("new_id", "new_type", "name"):
        return None if sym == "none" else sym
    if pname == "location_arg":
        return _loc_operand(o, sym)
    if sym in ("T", "F"):
        return sym == "T"
    raise KeyError(pname)


def _domain(o, method, pname, default):
    """symbolic values tried for an OPTIONAL parameter (besides its default), or the operand list of a required one"""
    if pname in STRAND_NAMES:
        return ["+", "-", "."]
    if pname in LOC_NAMES or (pname == "other" and is_location(o)):
        return LOC_OPERANDS
    if pname in PARENT_NAMES:
        # `reset_parent(None)` is documented; `liftover_to_parent_or_seq_chunk_parent` is annotated `Parent` (None and a
        # bare id string would be ill-typed there, and a string is ill-typed for reset_parent as well)
        base = ["same", "other", "chrom", "short", "chunk", "chunkcut", "chunkout"]
        return (["none"] + base) if pname == "new_parent" else base
    if pname in SEQTYPE_NAMES:
        return ["chromosome", "E:CHROMOSOME", "sequence_chunk", "E:SEQUENCE_CHUNK", "nosuch"]
    if pname == "sequence" or (pname == "other" and isinstance(o, Sequence)):
        return ["other", "same", "otheralphabet", "empty", "root"]
    if pname == "other":
        return ["twin", "none", "str", "otherid"]
    if pname in _ENUM_DOMAINS:
        return [k for k, _ in _ENUM_DOMAINS[pname]]
    if pname == "variants":
        return ["snv_in", "del_in", "ins_edge", "out", "span", "noparent", "coll"]
    if pname == "id_or_ids":
        return ["known", "unknown", "single", "emptylist"] if method == "query_by_feature_identifiers" else \
            ["first", "all", "unknown", "single", "emptylist", "dup"]
    if pname == "child_type":
        return ["gene", "feature_collection", "variant_collection", "nosuch"]
    if pname in ("parent_qualifiers", "new_qualifiers"):
        return ["pq", "empty"]
    if pname == "parent":
        return ["P1"]
    if pname in ("new_id", "new_type"):
        return ["x"]
    if pname == "name":
        return ["guid", "nosuch_attribute"]
    if isinstance(default, bool):
        return ["F" if default else "T"]
    return None


def _public_callables(o):
    cls = type(o)
    props, methods = [], []
    names = set(n for n in dir(cls) if not n.startswith("_"))
    try:
        names |= set(n for n in vars(o) if not n.startswith("_"))
    except TypeError:
        pass
    for k in cls.__mro__:
        for n in getattr(k, "__slots__", ()) or ():
            if not n.startswith("_"):
                names.add(n)
    for name in sorted(names):
        if name in SKIP_METHODS:
            continue
        st = inspect.getattr_static(cls, name, None)
        tn = type(st).__name__
        if tn in ("staticmethod", "classmethod"):
            continue
        if tn in ("function", "_MethodRope"):
            methods.append(name)
        else:
            props.append(name)
    return props, methods


DUNDERS = ["__len__", "__str__", "__repr__", "__hash__", "__eq__", "__iter__", "__bool__", "__lt__", "__getitem__", "pickle"]
REPARENT_THEN = ["get_spliced_sequence", "get_reference_sequence", "get_genomic_sequence", "get_transcript_sequence",
                 "get_cds_sequence", "get_protein_sequence", "has_sequence", "chunk_relative_location", "to_dict"]
CDS_THEN = ["extract_sequence", "has_valid_stop", "num_codons", "translate", "has_in_frame_stop"]
IO_OPS = ["io:gff3", "io:genbank", "io:tbl", "io:tbl_prok"]


def method_points(o):
    """[(method, arg-tuple-id)] for one object; symbolic tuples that resolve to the same values are merged"""
    props, methods = _public_callables(o)
    out = [(p, "prop") for p in props]
    for m in methods:
        try:
            sig = inspect.signature(getattr(o, m))
        except (TypeError, ValueError, AttributeError):
            continue
        req = [p for p in sig.parameters.values() if p.default is inspect.Parameter.empty
               and p.kind in (p.POSITIONAL_ONLY, p.POSITIONAL_OR_KEYWORD)]
        opt = [p for p in sig.parameters.values() if p.default is not inspect.Parameter.empty]
        ints = [p.name for p in req if p.name in INT_NAMES]
        others = [p.name for p in req if p.name not in INT_NAMES]
        tuples = []
        if m in INT_OVERRIDES:
            names = [p.name for p in sig.parameters.values() if p.name in INT_NAMES]
            tuples = [dict(zip(names, t)) for t in INT_OVERRIDES[m]]
        elif len(ints) == 1:
            tuples = [{ints[0]: v} for v in V1]
        elif len(ints) == 2:
            tuples = [dict(zip(ints, t)) for t in P2]
        elif not ints:
            tuples = [{}]
        else:
            continue
        # required non-int parameters: first value of the domain everywhere, the other values on the first int tuple
        doms = {}
        ok = True
        for n in others:
            d = _domain(o, m, n, None)
            if not d:
                ok = False
            doms[n] = d
        if not ok:
            continue
        full = []
        for i, t in enumerate(tuples):
            base = dict(t)
            base.update({n: doms[n][0] for n in others})
            full.append(base)
            if i == (1 if len(tuples) > 1 else 0):
                for n in others:
                    for v in doms[n][1:]:
                        full.append(dict(base, **{n: v}))
        # optional parameters: each alternative once, on the canonical tuple
        canon = full[1] if len(full) > 1 and ints else full[0]
        opt_ints = [p.name for p in opt if p.name in INT_NAMES]
        if len(opt_ints) == 2 and m not in INT_OVERRIDES:
            for a, b in OPT_INT_PAIRS:
                full.append(dict(canon, **{opt_ints[0]: a, opt_ints[1]: b}))
        elif len(opt_ints) == 1 and m not in INT_OVERRIDES:
            for v in ("0", "5", "-1"):
                full.append(dict(canon, **{opt_ints[0]: v}))
        for p in opt:
            if p.name in INT_NAMES:
                continue
            d = _domain(o, m, p.name, p.default)
            for v in d or []:
                full.append(dict(canon, **{p.name: v}))
        seen = set()
        for t in full:
            try:
                key = repr([(k, _canon_val(resolve(o, m, k, v))) for k, v in sorted(t.items())])
            except Exception:  # noqa  (operand not constructible for this object: not a grid point)
                continue
            if key in seen:
                continue
            seen.add(key)
            out.append((m, ",".join(f"{k}={v}" for k, v in t.items()) or "-"))
    for d in DUNDERS:
        if d == "pickle":
            # pickling is part of the public surface only where the class defines its own protocol
            if "__getstate__" in vars(type(o)):
                out.append((d, "-"))
        elif d == "__lt__":
            if getattr(type(o), "__lt__", None) is not object.__lt__:      # ordering defined by the class
                out.append((d, "twin"))
        elif d == "__eq__":
            out += [(d, "twin"), (d, "none"), (d, "int")]
        elif d == "__getitem__":
            if isinstance(o, Sequence):
                # in-range indexes and every kind of slice (an out-of-range int index answers IndexError by the
                # Python sequence protocol: not a grid point)
                n = len(o)
                out += [(d, s) for s in (["0", "len-1", "-1"] if n else [])]
                out += [(d, s) for s in ("0:0", "1:", ":2", "0:len", "0:len+1", "len:len", "2:1", "::2", "1:3")]
        elif hasattr(type(o), d):
            out.append((d, "-"))
    if isinstance(o, (SingleInterval, CompoundInterval)):
        # a binary operation must refuse mismatched parents in BOTH operand orders or in neither (F-C19j)
        out += [(f"sym:{m}", f"other={v}") for m in ("union", "union_preserve_overlaps") for v in ("noparent", "otherparent", "twin")]
    if isinstance(o, CDSInterval):
        out += [("then:chunk_relative_codon_locations:" + m, "-") for m in CDS_THEN]
    if isinstance(o, AnnotationCollection):
        out += [(m, "-") for m in IO_OPS]
    if type(o) in (TranscriptInterval, FeatureInterval) and getattr(o, "_parent_or_seq_chunk_parent", None) is not None:
        # re-parenting history: questioned, then made a member of an aggregate on a sequence-less parent, then asked
        out += [("reparent:" + m, "-") for m in REPARENT_THEN if hasattr(type(o), m)]
    return out


def _canon_val(v):
    if is_location(v):
        return (type(v).__name__, str(v), v.parent.id if v.parent else None)
    if isinstance(v, (W.PARENT_CLS, Sequence)):
        return repr(v)
    return repr(v)


def _io(o, method):
    import io as _io_mod
    buf = _io_mod.StringIO()
    if method == "io:gff3":
        from inscripta.biocantor.io.gff3.writer import collection_to_gff3
        collection_to_gff3([o], buf)
    elif method == "io:genbank":
        from inscripta.biocantor.io.genbank.writer import collection_to_genbank
        collection_to_genbank([o], buf)
    else:
        from inscripta.biocantor.io.ncbi.tbl_writer import collection_to_tbl
        from inscripta.biocantor.io.genbank.constants import GenbankFlavor
        collection_to_tbl([o], buf, locus_tag_prefix="LT", submitter_lab_name="lab", random_seed=1,
                          genbank_flavor=GenbankFlavor.PROKARYOTIC if method.endswith("prok") else GenbankFlavor.EUKARYOTIC)
    return buf.getvalue()


class _Asymmetric(Exception):
    pass


class _Verbatim:
    def __init__(self, r):
        self.r = r


def _get_or_call(o, name):
    v = getattr(o, name)
    st = inspect.getattr_static(type(o), name, None)
    return v() if type(st).__name__ in ("function", "_MethodRope") else v


def _call(o, method, argid):
    if method.startswith("io:"):
        return _io(o, method)
    if method.startswith("sym:"):
        name = method[4:]
        other = _loc_operand(o, argid.split("=", 1)[1])
        a = guarded(lambda: judge(getattr(o, name)(other)))
        b = guarded(lambda: judge(getattr(other, name)(o)))
        if (a == "err MismatchedParent") != (b == "err MismatchedParent"):
            raise _Asymmetric()
        for r in (a, b):
            if r.startswith(("err!", "ok illformed")):
                return _Verbatim(r)
        return None
    if method.startswith("reparent:"):
        # the object is asked every argument-less question (per-object memos and flags are warm), then handed as the only
        # member to an aggregate whose parent is the same chromosome WITHOUT sequence (aggregates re-parent their members
        # in place), then asked: the answer is that of an object on a sequence-less parent - a value or a documented
        # refusal (NullSequenceException), never an internal error
        from harness import warm as _warm
        m = method.split(":", 1)[1]
        _warm.ask_everything(o, _top=False, skip=(m,))      # (the member itself is memoised: it is asked only afterwards)
        old_parent = o._parent_or_seq_chunk_parent
        try:
            cid = old_parent.first_ancestor_of_type(SequenceType.CHROMOSOME).id
        except Exception:  # noqa
            cid = old_parent.id
        bare = Parent(id=cid, sequence_type=SequenceType.CHROMOSOME)
        if isinstance(o, TranscriptInterval):
            GeneInterval([o], parent_or_seq_chunk_parent=bare)
        else:
            FeatureIntervalCollection([o], parent_or_seq_chunk_parent=bare)
        return _get_or_call(o, m)
    if method.startswith("then:"):
        _, first, second = method.split(":")
        x = _get_or_call(o, first)
        if inspect.isgenerator(x) or hasattr(x, "__next__"):
            list(x)
        r = _get_or_call(o, second)
        if second == "extract_sequence" and not isinstance(r, Sequence):
            return _Verbatim("ok illformed extract_sequence-returned-" + type(r).__name__)      # F-C10a regression
        return r
    if argid == "prop":
        return getattr(o, method)
    if method in DUNDERS:
        if method == "pickle":
            import pickle
            return pickle.loads(pickle.dumps(o))
        if method in ("__eq__", "__lt__"):
            other = {"twin": o, "none": None, "int": 3}[argid]
            return (o == other) if method == "__eq__" else (o < other)
        if method == "__getitem__":
            if ":" in argid:
                parts = [(_int_sym(o, x) if x else None) for x in argid.split(":")]
                return o[slice(*parts)]
            return o[_int_sym(o, argid)]
        return {"__len__": len, "__str__": str, "__repr__": repr, "__hash__": hash, "__iter__": lambda x: list(iter(x)),
                "__bool__": bool}[method](o)
    kwargs = {}
    if argid != "-":
        for kv in argid.split(","):
            k, v = kv.split("=", 1)
            kwargs[k] = resolve(o, method, k, v)
    return getattr(o, method)(**kwargs)


# extra base objects that exist only for grid B (valid by construction; fixed data)
def _special(cls_name, name):
    G = "ATGAAATTTGGGCCCTAAACGTACGTTAGCATGCCCGGGTTTAAATGA" * 2
    chrom = ("chrom", "chr1", G)
    P, M, U = Strand.PLUS, Strand.MINUS, Strand.UNSTRANDED
    cp = lambda: mk_parent(chrom)  # noqa: E731
    table = {
        ("SingleInterval", "x_zero"): lambda: SingleInterval(5, 5, P),
        ("SingleInterval", "x_zero_parent"): lambda: SingleInterval(5, 5, M, cp()),
        ("SingleInterval", "x_uns"): lambda: SingleInterval(2, 9, U, cp()),
        ("SingleInterval", "x_full"): lambda: SingleInterval(0, len(G), P, cp()),
        ("SingleInterval", "x_at0"): lambda: SingleInterval(0, 4, M),
        ("CompoundInterval", "x_big1200"): lambda: CompoundInterval([3 * i for i in range(1200)], [3 * i + 2 for i in range(1200)], P),
        ("CompoundInterval", "x_big1200m"): lambda: CompoundInterval([3 * i for i in range(1200)], [3 * i + 2 for i in range(1200)], M),
        ("CompoundInterval", "x_allempty"): lambda: CompoundInterval([5, 7], [5, 7], P),
        ("CompoundInterval", "x_overlap"): lambda: CompoundInterval([0, 3], [5, 8], P),
        ("CompoundInterval", "x_nested"): lambda: CompoundInterval([0, 2], [10, 5], M),
        ("CompoundInterval", "x_adjacent"): lambda: CompoundInterval([0, 5], [5, 9], P, cp()),
        ("CompoundInterval", "x_oneblock"): lambda: CompoundInterval([3], [8], M, cp()),
        ("CompoundInterval", "x_leadempty"): lambda: CompoundInterval([2, 2, 6], [2, 2, 9], P, mk_parent(("chunk", "chr1", G, 4, 40))),
        ("CompoundInterval", "x_uns"): lambda: CompoundInterval([1, 8], [4, 12], U, cp()),
        ("EmptyLocation", "x_e"): lambda: EmptyLocation(),
        ("Parent", "x_chunk"): lambda: mk_parent(("chunk", "chr1", G, 4, 40)),
        ("Parent", "x_chunkloc"): lambda: SingleInterval(2, 9, P, mk_parent(("chunk", "chr1", G, 4, 40))).parent,
        ("Parent", "x_empty"): lambda: Parent(),
        ("Sequence", "x_empty"): lambda: Sequence("", Alphabet.NT_STRICT, id="e"),
        ("Sequence", "x_minusloc"): lambda: Sequence("ACGTAC", Alphabet.NT_STRICT, parent=Parent(location=SingleInterval(3, 9, M))),
        ("Sequence", "x_chunk"): lambda: mk_parent(("chunk", "chr1", G, 4, 40)).sequence,
        ("CDSInterval", "x_nocodon"): lambda: CDSInterval([0], [2], P, [CDSFrame.ZERO], parent_or_seq_chunk_parent=cp()),
        ("CDSInterval", "x_frame2len3"): lambda: CDSInterval([0], [3], P, [CDSFrame.TWO], parent_or_seq_chunk_parent=cp()),
        ("CDSInterval", "x_orf"): lambda: CDSInterval([0], [18], P, [CDSFrame.ZERO], parent_or_seq_chunk_parent=cp()),
        ("CDSInterval", "x_orf_noseq"): lambda: CDSInterval([0, 12], [9, 21], M, [CDSFrame.ZERO, CDSFrame.ZERO]),
        ("CDSInterval", "x_chunkcut"): lambda: CDSInterval([2, 20], [11, 29], P, [CDSFrame.ZERO, CDSFrame.ZERO],
                                                            parent_or_seq_chunk_parent=mk_parent(("chunk", "chr1", G, 6, 24))),
        ("CDSInterval", "x_outside"): lambda: CDSInterval([2], [11], M, [CDSFrame.ZERO],
                                                           parent_or_seq_chunk_parent=mk_parent(("chunk", "chr1", G, 30, 50))),
        ("CDSInterval", "x_frameshift"): lambda: CDSInterval([0, 12, 24], [9, 20, 33], P, [CDSFrame.ZERO, CDSFrame.ONE, CDSFrame.ZERO],
                                                              parent_or_seq_chunk_parent=cp()),
        ("TranscriptInterval", "x_noutr_multi"): lambda: TranscriptInterval([0, 20], [10, 30], P, [0, 20], [10, 30],
                                                                             [CDSFrame.ZERO, CDSFrame.ONE], parent_or_seq_chunk_parent=cp()),
        ("TranscriptInterval", "x_cds_at_exon_end"): lambda: TranscriptInterval([0, 20], [10, 30], P, [5, 20], [10, 30],
                                                                                 [CDSFrame.ZERO, CDSFrame.TWO], parent_or_seq_chunk_parent=cp()),
        ("TranscriptInterval", "x_chunkcut"): lambda: TranscriptInterval([2, 20], [11, 29], M, [5, 20], [11, 26],
                                                                          [CDSFrame.ZERO, CDSFrame.ZERO],
                                                                          parent_or_seq_chunk_parent=mk_parent(("chunk", "chr1", G, 6, 24))),
        ("TranscriptInterval", "x_outside"): lambda: TranscriptInterval([2], [11], P, [2], [11], [CDSFrame.ZERO],
                                                                         parent_or_seq_chunk_parent=mk_parent(("chunk", "chr1", G, 30, 50))),
        ("TranscriptInterval", "x_notype"): lambda: TranscriptInterval([2, 20], [11, 29], P, parent_or_seq_chunk_parent=cp()),
        ("FeatureInterval", "x_zero"): lambda: FeatureInterval([4], [4], P, parent_or_seq_chunk_parent=cp()),
        ("FeatureInterval", "x_outside"): lambda: FeatureInterval([2], [11], P, parent_or_seq_chunk_parent=mk_parent(("chunk", "chr1", G, 30, 50))),
        ("GeneInterval", "x_notype"): lambda: GeneInterval([TranscriptInterval([0], [4], P)]),
        ("GeneInterval", "x_mixed"): lambda: GeneInterval([TranscriptInterval([1], [3], P), TranscriptInterval([1], [4], M)],
                                                          gene_type=Biotype.protein_coding),
        ("GeneInterval", "x_coding_seq"): lambda: GeneInterval(
            [TranscriptInterval([0, 20], [10, 30], P, [0, 20], [10, 28], [CDSFrame.ZERO, CDSFrame.ONE], parent_or_seq_chunk_parent=cp()),
             TranscriptInterval([0], [30], P, parent_or_seq_chunk_parent=cp())], gene_type=Biotype.protein_coding,
            parent_or_seq_chunk_parent=cp()),
        ("FeatureIntervalCollection", "x_mixed"): lambda: FeatureIntervalCollection(
            [FeatureInterval([1], [3], P), FeatureInterval([1], [4], M)]),
        ("AnnotationCollection", "x_export"): lambda: AnnotationCollection(
            genes=[GeneInterval([TranscriptInterval([0, 20], [10, 30], P, [0, 20], [10, 28], [CDSFrame.ZERO, CDSFrame.ONE],
                                                    transcript_type=Biotype.protein_coding, transcript_id="T1", sequence_name="chr1",
                                                    parent_or_seq_chunk_parent=cp()),
                                 TranscriptInterval([0], [30], P, transcript_type=Biotype.lncRNA, transcript_id="T2",
                                                    sequence_name="chr1", parent_or_seq_chunk_parent=cp())],
                                gene_type=Biotype.protein_coding, gene_id="G1", locus_tag="LT1", sequence_name="chr1",
                                parent_or_seq_chunk_parent=cp())],
            feature_collections=[FeatureIntervalCollection([FeatureInterval([3], [9], P, feature_types=["promoter"], sequence_name="chr1",
                                                                            parent_or_seq_chunk_parent=cp())],
                                                           sequence_name="chr1", parent_or_seq_chunk_parent=cp())],
            sequence_name="chr1", parent_or_seq_chunk_parent=cp()),
        ("AnnotationCollection", "x_export_notype"): lambda: AnnotationCollection(
            genes=[GeneInterval([TranscriptInterval([0], [30], P, sequence_name="chr1", parent_or_seq_chunk_parent=cp())],
                                gene_type=Biotype.lncRNA, sequence_name="chr1", parent_or_seq_chunk_parent=cp())],
            sequence_name="chr1", parent_or_seq_chunk_parent=cp()),
        ("AnnotationCollection", "x_empty"): lambda: AnnotationCollection(),
        ("AnnotationCollection", "x_empty_seq"): lambda: AnnotationCollection(parent_or_seq_chunk_parent=cp()),
        ("AnnotationCollection", "x_variants"): lambda: AnnotationCollection(
            genes=[GeneInterval([TranscriptInterval([0, 20], [10, 30], P, [0, 20], [10, 28], [CDSFrame.ZERO, CDSFrame.ONE],
                                                    parent_or_seq_chunk_parent=cp())], parent_or_seq_chunk_parent=cp())],
            variant_collections=[VariantIntervalCollection([VariantInterval(3, 4, "G", "snv", parent_or_seq_chunk_parent=cp())],
                                                           parent_or_seq_chunk_parent=cp())],
            parent_or_seq_chunk_parent=cp()),
    }
    return table[(cls_name, name)]


SPECIALS = {
    "SingleInterval": ["x_zero", "x_zero_parent", "x_uns", "x_full", "x_at0"],
    "CompoundInterval": ["x_big1200", "x_big1200m", "x_allempty", "x_overlap", "x_nested", "x_adjacent", "x_oneblock",
                         "x_leadempty", "x_uns"],
    "EmptyLocation": ["x_e"],
    "Parent": ["x_chunk", "x_chunkloc", "x_empty"],
    "Sequence": ["x_empty", "x_minusloc", "x_chunk"],
    "CDSInterval": ["x_nocodon", "x_frame2len3", "x_orf", "x_orf_noseq", "x_chunkcut", "x_outside", "x_frameshift"],
    "TranscriptInterval": ["x_noutr_multi", "x_cds_at_exon_end", "x_chunkcut", "x_outside", "x_notype"],
    "FeatureInterval": ["x_zero", "x_outside"],
    "GeneInterval": ["x_notype", "x_mixed", "x_coding_seq"],
    "FeatureIntervalCollection": ["x_mixed"],
    "VariantInterval": [], "VariantIntervalCollection": [],
    "AnnotationCollection": ["x_empty", "x_empty_seq", "x_variants", "x_export", "x_export_notype"],
}
CALL_CLASSES = list(SPECIALS)


def call_object(cls_name, base_id):
    t = base_id.rsplit(".", 1)[0]
    if t.startswith("b:"):
        return boundary_object(cls_name, base_id)
    if t.startswith("x_"):
        return _special(cls_name, t)()
    spec = CLASSES[cls_name]
    return spec.build(spec.base(base_id))


def must_refuse(o, method, argid):
    """argument tuples that the documentation of the Location classes says are refused: answering them is a violation"""
    if not isinstance(o, (SingleInterval, CompoundInterval)) or "=" not in argid or method.startswith(("sym:", "then:", "reparent:")):
        return False
    kw = dict(kv.split("=", 1) for kv in argid.split(","))
    n = len(o)
    if method in ("extend_absolute", "extend_relative"):
        return any(_int_sym(o, v) < 0 for v in kw.values())
    if method == "relative_to_parent_pos":
        return not 0 <= _int_sym(o, kw["relative_pos"]) < n
    if method == "parent_to_relative_pos":
        p = _int_sym(o, kw["parent_pos"])
        return not any(s <= p < e for s, e in ([(o.start, o.end)] if isinstance(o, SingleInterval) else zip(o._starts, o._ends)))
    if method == "relative_interval_to_parent_location":
        a, b = _int_sym(o, kw["relative_start"]), _int_sym(o, kw["relative_end"])
        return not 0 <= a <= b <= n
    if method == "shift_position":
        return o.start + _int_sym(o, kw["shift"]) < 0
    if method == "scan_windows":
        w, st, sp = (_int_sym(o, kw[k]) for k in ("window_size", "step_size", "start_pos"))
        return not (0 <= sp < n and w >= 1 and st >= 1 and sp + w <= n)
    return False


def must_answer(o, method, argid):
    """argument tuples inside the documented domain: refusing them is a violation (regressions F-C19a / F-C19b)"""
    if isinstance(o, (SingleInterval, CompoundInterval)) and "=" in argid and not method.startswith(("sym:", "then:", "reparent:")):
        if o.strand not in (Strand.PLUS, Strand.MINUS) or len(o) == 0:
            return False
        kw = dict(kv.split("=", 1) for kv in argid.split(","))
        n = len(o)
        if method == "relative_interval_to_parent_location":
            return 0 <= _int_sym(o, kw["relative_start"]) <= _int_sym(o, kw["relative_end"]) <= n
        if method == "relative_to_parent_pos":
            return 0 <= _int_sym(o, kw["relative_pos"]) < n
        return False
    if isinstance(o, (SingleInterval, CompoundInterval)) and method in ("gap_list", "gaps_location", "optimize_blocks",
                                                                        "optimize_and_combine_blocks", "merge_overlapping"):
        # (gap_list of an UNSTRANDED multi-block location raises InvalidStrandException: a documented class, C02's subject)
        return o.strand in (Strand.PLUS, Strand.MINUS) or method not in ("gap_list", "gaps_location")
    if isinstance(o, TranscriptInterval) and method in ("get_5p_interval", "get_3p_interval"):
        return o.cds is not None and not isinstance(o.chunk_relative_location, W._EmptyLocation) and \
            not isinstance(o.cds.chunk_relative_location, W._EmptyLocation)
    return False


def impl_call(t):
    _, cls_name, base_id, method, argid = t

    def go():
        o = call_object(cls_name, base_id)
        try:
            r = _call(o, method, argid)
        except _Asymmetric:
            return "ok illformed mismatched-parent-refused-in-one-operand-order-only"
        if isinstance(r, _Verbatim):
            return r.r
        if inspect.isgenerator(r) or hasattr(r, "__next__"):
            r = list(r)
        if must_refuse(o, method, argid):
            return "ok illformed accepted-invalid-argument"
        return judge(r)
    ans = guarded(go)
    if ans.startswith("err ") and guarded(lambda: "yes" if must_answer(call_object(cls_name, base_id), method, argid) else "no") == "yes":
        return "ok illformed refused-valid-argument " + ans.split()[1]
    return ans


# ----------------------------------------------------------------------------------------------
# plain-data constructor lines (compared with the Lean model; formats in lean/BioCantor/Driver/Validate.lean)

def _o(x):
    # a sequence type may come back as the SequenceType member even when the plain string was given (the Parent
    # cache treats the two spellings as one key: F-C10c) - the value is what is compared
    return "_" if x is None else str(getattr(x, "value", x))


def _ints(l):
    return " ".join([str(len(l))] + [str(x) for x in l])


def _is_plain_ints(l):
    return isinstance(l, (list, tuple)) and all(isinstance(x, int) and not isinstance(x, bool) for x in l) and \
        not (isinstance(l, tuple) and len(l) == 2 and l[0] == "raw")


def _strand_sym(s):
    return s if isinstance(s, str) and s in SYM else None


def data_line(cls_name, a):
    """the `mk…` line of a (possibly corrupted) argument dict, or None when the arguments are not plain data
    (ill-typed values, chunk parents, ...)"""
    st = _strand_sym(a.get("strand")) if "strand" in a else None
    par = a.get("parent")
    if par is not None and par[0] not in ("str", "noseq", "chrom", "plain"):
        return None
    plen = parent_seq_len(par)
    if cls_name == "SingleInterval":
        if st and isinstance(a["start"], int) and isinstance(a["end"], int):
            return f"mksingle {a['start']} {a['end']} {st} {_o(plen)}"
    elif cls_name == "CompoundInterval":
        if st and _is_plain_ints(a["starts"]) and _is_plain_ints(a["ends"]):
            return f"mkcompound {st} {_ints(a['starts'])} {_ints(a['ends'])} {_o(plen)}"
    elif cls_name == "CDSInterval":
        if st and par is None and _is_plain_ints(a["cds_starts"]) and _is_plain_ints(a["cds_ends"]) and isinstance(a["frames"], list):
            fps = []
            for f in a["frames"]:
                if isinstance(f, tuple) and f[0] == "ph":
                    fps.append(f"P{f[1]}")
                elif isinstance(f, int):
                    fps.append(f"F{f}")
                else:
                    return None
            return f"mkcds {st} {_ints(a['cds_starts'])} {_ints(a['cds_ends'])} {len(fps)} {' '.join(fps)}".rstrip()
    elif cls_name == "TranscriptInterval":
        if st and par is None and _is_plain_ints(a["exon_starts"]) and _is_plain_ints(a["exon_ends"]):
            parts = []
            for k in ("cds_starts", "cds_ends", "cds_frames"):
                v = a[k]
                if v is None:
                    parts.append("_")
                elif _is_plain_ints(v):
                    parts.append(_ints(v))
                else:
                    return None
            return f"mktx {st} {_ints(a['exon_starts'])} {_ints(a['exon_ends'])} {' '.join(parts)}"
    elif cls_name == "VariantIntervalCollection":
        vs = a["variant_intervals"]
        if par is None and isinstance(vs, list) and all(isinstance(v, dict) and isinstance(v["start"], int) and isinstance(v["end"], int)
                                                        and v.get("parent") is None for v in vs):
            return ("mkvarcoll " + " ".join([str(len(vs))] + [f"{v['start']} {v['end']}" for v in vs])).rstrip()
    elif cls_name == "Sequence":
        d, al, p = a["data"], a["alphabet"], a["parent"]
        if isinstance(d, str) and isinstance(al, str) and d.isascii() and " " not in d:
            if p is None:
                return f"mkseq {al} ~{d} _"
            if p[0] == "loc":
                return f"mkseq {al} ~{d} {p[2] - p[1]}"
            if p[0] == "cloc":
                return f"mkseq {al} ~{d} {sum(e - s for s, e in zip(p[1], p[2]))}"
            if p[0] in ("noseq", "str"):
                return f"mkseq {al} ~{d} N"
    elif cls_name == "Parent":
        return _parent_line(a)
    return None


def _parent_line(a):
    st = a["strand"]
    if st is not None and st not in SYM:
        return None
    loc, seq, par = a["location"], a["sequence"], a["parent"]
    if loc is None:
        lt = "_"
    elif loc[0] == "E":
        lt = "E"
    elif loc[0] == "S":
        lt = f"L {loc[3]} 1 {loc[1]} {loc[2]} {_o(loc[4])} _"
    elif loc[0] == "C":
        lt = f"L {loc[3]} {len(loc[1])} " + " ".join(f"{s} {e}" for s, e in zip(loc[1], loc[2])) + f" {_o(loc[4])} _"
    else:
        return None
    if seq is None:
        qt = "_"
    elif seq[0] == "raw" or not isinstance(seq[0], str):
        return None
    else:
        sp = seq[4]
        if sp is None:
            spt = "_"
        elif sp[0] == "noseq":
            spt = f"K {sp[1]} chromosome"
        else:
            return None        # sequence.parent with its own location / grand-parent: not plain data
        qt = f"Q {len(seq[0])} {_o(seq[2])} {_o(seq[3])} {spt}"
    if par is None:
        pt = "_"
    elif par[0] == "noseq":
        pt = f"K {par[1]} chromosome _"
    elif par[0] == "chrom":
        pt = f"K {par[1]} chromosome {len(par[2])}"
    elif par[0] == "str":
        pt = f"K {par[1]} _ _"
    else:
        return None
    if not isinstance(a["id"], (str, type(None))) or not isinstance(a["sequence_type"], (str, type(None))):
        return None
    return f"mkparent {_o(a['id'])} {_o(a['sequence_type'])} {_o(st)} {lt} {qt} {pt}"


class _Tk:
    def __init__(self, t):
        self.t, self.i = t, 0

    def next(self):
        v = self.t[self.i]
        self.i += 1
        return v

    def opt(self, conv=str):
        v = self.next()
        return None if v == "_" else conv(v)

    def ints(self):
        n = int(self.next())
        return [int(self.next()) for _ in range(n)]

    def opt_ints(self):
        v = self.next()
        if v == "_":
            return None
        return [int(self.next()) for _ in range(int(v))]


def _qual_arg(tk):
    k = tk.next()
    if k == "_":
        return None
    if k == "L0":
        return []
    if k == "L1":
        return [("a", ["b"])]
    n = int(tk.next())
    return {f"k{i}": (["v"] if tk.next() == "1" else "v") for i in range(n)}


def _plain_parent(plen):
    return None if plen is None else Parent(id="p", sequence=Sequence("A" * plen, Alphabet.NT_STRICT, id="p"))


def _seqtype(x):
    return x


def impl_mk(t):
    op, tk = t[0], _Tk(t[1:])
    if op == "mksingle":
        s, e, st, plen = int(tk.next()), int(tk.next()), SYM[tk.next()], tk.opt(int)

        def go():
            x = SingleInterval(s, e, st, parent=_plain_parent(plen))
            return f"ok S {RSYM[x.strand]} {x.start} {x.end}"
        return guarded(go)
    if op == "mkcompound":
        st = SYM[tk.next()]
        ss, es = tk.ints(), tk.ints()
        plen = tk.opt(int)

        def go():
            x = CompoundInterval(ss, es, st, parent=_plain_parent(plen))
            return "ok " + " ".join([str(len(x._starts))] + [f"{a} {b}" for a, b in zip(x._starts, x._ends)])
        return guarded(go)
    if op == "mkparent":
        pid, pty, st = tk.opt(), tk.opt(), tk.opt(lambda v: SYM[v])
        k = tk.next()
        loc = None
        if k == "E":
            loc = ("E",)
        elif k == "L":
            lst = tk.next()
            n = int(tk.next())
            bl = [(int(tk.next()), int(tk.next())) for _ in range(n)]
            lpid, lpty = tk.opt(), tk.opt()
            loc = (lst, bl, lpid, lpty)
        k = tk.next()
        seq = None
        if k == "Q":
            n, sid, sty = int(tk.next()), tk.opt(), tk.opt()
            k2 = tk.next()
            sp = (tk.opt(), tk.opt()) if k2 == "K" else None
            seq = (n, sid, sty, sp)
        k = tk.next()
        par = (tk.opt(), tk.opt(), tk.opt(int)) if k == "K" else None

        def go():
            L = None
            if loc is not None:
                if loc[0] == "E":
                    L = EmptyLocation()
                else:
                    lp = Parent(id=loc[2], sequence_type=loc[3]) if (loc[2] is not None or loc[3] is not None) else None
                    bl = loc[1]
                    L = SingleInterval(bl[0][0], bl[0][1], SYM[loc[0]], parent=lp) if len(bl) == 1 else \
                        CompoundInterval([b[0] for b in bl], [b[1] for b in bl], SYM[loc[0]], parent=lp)
            Q = None
            if seq is not None:
                sp = Parent(id=seq[3][0], sequence_type=seq[3][1]) if seq[3] is not None else None
                Q = Sequence("A" * seq[0], Alphabet.NT_STRICT, id=seq[1], type=seq[2], parent=sp)
            PP = None
            if par is not None:
                PP = Parent(id=par[0], sequence_type=par[1],
                            sequence=None if par[2] is None else Sequence("A" * par[2], Alphabet.NT_STRICT, id=par[0], type=par[1]))
            x = Parent(id=pid, sequence_type=pty, strand=st, location=L, sequence=Q, parent=PP)
            return f"ok {_o(x.id)} {_o(x.sequence_type)} {_o(None if x.strand is None else RSYM[x.strand])} {1 if x.parent is not None else 0}"
        return guarded(go)
    if op == "mkseq":
        al, data, pl = Alphabet[tk.next()], tk.next()[1:], tk.next()

        def go():
            if pl == "_":
                p = None
            elif pl == "N":
                p = Parent(id="chr1")
            else:
                n = int(pl)
                p = Parent(location=SingleInterval(2, 2 + n, Strand.PLUS))
            return f"ok {len(Sequence(data, al, parent=p))}"
        return guarded(go)
    if op == "mkcds":
        st = SYM[tk.next()]
        ss, es = tk.ints(), tk.ints()
        n = int(tk.next())
        fps = []
        for _ in range(n):
            v = tk.next()
            fps.append((CDSFrame if v[0] == "F" else CDSPhase)(int(v[1:])))

        def go():
            c = CDSInterval(ss, es, st, fps)
            return f"ok {c.start} {c.end} " + " ".join([str(len(c.frames))] + [str(f.value) for f in c.frames])
        return guarded(go)
    if op == "mktx":
        st = SYM[tk.next()]
        ss, es = tk.ints(), tk.ints()
        cs, ce, cf = tk.opt_ints(), tk.opt_ints(), tk.opt_ints()

        def go():
            x = TranscriptInterval(ss, es, st, cds_starts=cs, cds_ends=ce,
                                   cds_frames=None if cf is None else [CDSFrame(f) for f in cf])
            return f"ok {x.start} {x.end} " + (f"1 {x.cds.start} {x.cds.end}" if x.cds is not None else "0 0 0")
        return guarded(go)
    if op == "mkvarcoll":
        n = int(tk.next())
        raw = [(int(tk.next()), int(tk.next())) for _ in range(n)]

        def go():
            vs = [VariantInterval(s, e, "A", "v") for s, e in raw]
            c = VariantIntervalCollection(vs)
            return f"ok {c.start} {c.end}"
        return guarded(go)
    if op == "mkvar":
        vs, ve, alt = int(tk.next()), int(tk.next()), tk.next()[1:]

        def go():
            v = VariantInterval(vs, ve, alt, "v")
            return f"ok {v.start} {v.end}"
        return guarded(go)
    if op == "mkfeat":
        st = SYM[tk.next()]
        ss, es = tk.ints(), tk.ints()
        q = _qual_arg(tk)

        def go():
            f = FeatureInterval(ss, es, st, qualifiers=q)
            return f"ok {f.start} {f.end}"
        return guarded(go)
    if op in ("mkgene", "mkfcoll"):
        import uuid
        n = int(tk.next())
        kids = [(int(tk.next()), int(tk.next()), int(tk.next()), tk.next() == "1") for _ in range(n)]
        q = _qual_arg(tk)

        def go():
            if op == "mkgene":
                ch = [TranscriptInterval([a], [b], Strand.PLUS, guid=uuid.UUID(int=g + 1), is_primary_tx=True if pr else None)
                      for a, b, g, pr in kids]
                c = GeneInterval(ch, qualifiers=q)
            else:
                ch = [FeatureInterval([a], [b], Strand.PLUS, guid=uuid.UUID(int=g + 1), is_primary_feature=True if pr else None)
                      for a, b, g, pr in kids]
                c = FeatureIntervalCollection(ch, qualifiers=q)
            return f"ok {c.start} {c.end}"
        return guarded(go)
    if op == "mkannot":
        import uuid
        a_s, a_e = tk.opt(int), tk.opt(int)
        n = int(tk.next())
        kids = [(int(tk.next()), int(tk.next()), int(tk.next())) for _ in range(n)]

        def go():
            genes = [GeneInterval([TranscriptInterval([a], [b], Strand.PLUS)], guid=uuid.UUID(int=g + 1)) for a, b, g in kids]
            c = AnnotationCollection(genes=genes or None, start=a_s, end=a_e)
            if isinstance(c._location, W._EmptyLocation):
                return "ok E"
            return f"ok {c.start} {c.end}"
        return guarded(go)
    if op == "mkcodon":
        txt = tk.next()[1:]
        return guarded(lambda: "ok " + Codon(txt).value)
    if op == "fromint":
        which, v = tk.next(), int(tk.next())

        def go():
            if which == "strand":
                return "ok " + RSYM[Strand.from_int(v)]
            return f"ok {(CDSFrame if which == 'frame' else CDSPhase).from_int(v).value}"
        return guarded(go)
    if op == "fromsym":
        txt = tk.next()[1:]
        return guarded(lambda: "ok " + RSYM[Strand.from_symbol(txt)])
    if op == "scanwin":
        from harness.impl_loc import Toks, parse_loc
        tk2 = Toks(t[1:])

        def go():
            loc = parse_loc(tk2)
            w, s, sp = tk2.int(), tk2.int(), tk2.int()
            n = 0
            for win in loc.scan_windows(w, s, sp):
                r = W.wf_location(win)
                if r:
                    return "ok illformed " + r
                n += 1
            return f"ok {n}"
        return guarded(go)
    return "err! UnknownOp"


MK_OPS = {"mksingle", "mkcompound", "mkparent", "mkseq", "mkcds", "mktx", "mkvarcoll", "scanwin",
          "mkvar", "mkfeat", "mkgene", "mkfcoll", "mkannot", "mkcodon", "fromint", "fromsym"}
MODEL_OPS = MK_OPS | {"sappend", "pcons", "hier"}


def cold():
    """every grid point is answered from the cache state of a fresh process (the process-wide Parent cache would
    otherwise make answers depend on the lines evaluated before: its key comparison calls Location.__eq__)"""
    from inscripta.biocantor.parent import parent as parent_module
    Parent.cache_clear()
    parent_module._unique_value_or_none.cache_clear()


def impl(line):
    cold()
    t = line.split()
    if t[0] == "ctor":
        return impl_ctor(t)
    if t[0] == "call":
        return impl_call(t)
    if t[0] == "sappend":
        return impl_sappend(t)
    if t[0] == "pcons":
        return impl_pcons(t)
    if t[0] == "gbparse":
        return impl_gbparse(t)
    if t[0] == "bcall":
        return impl_bcall(t)
    if t[0] in ("hier", "hierx", "hiers"):
        return impl_hier(t)
    return impl_mk(t)


# ----------------------------------------------------------------------------------------------
# operand-pair grids (second strengthening round)
#   sappend <N> <st1> <a1> <b1> <st2> <a2> <b2> <data_only>   Sequence.append of two located sub-sequences of one parent
#   pcons <op> <n> <k1> … <kn>                                   multi-operand operations over a pool of parent kinds
# The expected verdicts are computed by the spec driver (lean/BioCantor/Spec/Validate.lean) from the plain numbers on
# the line; this side only reports what the library did and what the result looks like.

APPEND_GENOME = "ACGTTGCAAGTC"
_COMP = {"A": "T", "C": "G", "G": "C", "T": "A"}


def _extract(genome, blocks, strand):
    """independent reading of a block list on a strand (plus: ascending; minus: reverse complement of that)"""
    s = "".join(genome[a:b] for a, b in sorted(blocks))
    return s if strand == "+" else "".join(_COMP[c] for c in reversed(s))


def _sub_sequence(genome, st, a, b):
    whole = Sequence(genome, Alphabet.NT_STRICT, id="par", type="chromosome")
    data = genome[a:b] if st != "-" else _extract(genome, [(a, b)], "-")
    return Sequence(data, Alphabet.NT_STRICT, type="piece",
                    parent=Parent(id="par", sequence_type="chromosome", sequence=whole, location=SingleInterval(a, b, SYM[st])))


def impl_sappend(t):
    n, st1, a1, b1, st2, a2, b2, data_only = int(t[1]), t[2], int(t[3]), int(t[4]), t[5], int(t[6]), int(t[7]), t[8] == "1"
    genome = APPEND_GENOME[:n]

    def go():
        s1, s2 = _sub_sequence(genome, st1, a1, b1), _sub_sequence(genome, st2, a2, b2)
        r = s1.append(s2, data_only=data_only)
        if not isinstance(r, Sequence):
            return "ok illformed not-a-Sequence"
        text_ok = str(r) == str(s1) + str(s2)
        if data_only:
            return f"ok D {len(r)} {1 if text_ok and r.parent is None else 0}"
        loc = r.parent.location if r.parent is not None else None
        if loc is None:
            return f"ok N {len(r)} {1 if text_ok else 0}"
        blocks = [(x.start, x.end) for x in loc.blocks]
        rec_ok = text_ok and str(r) == _extract(genome, blocks, RSYM[loc.strand]) and len(r) == len(str(r))
        return f"ok L {len(r)} {RSYM[loc.strand]} " + " ".join([str(len(blocks))] + [f"{x} {y}" for x, y in blocks]) + \
            f" {1 if rec_ok else 0}"
    return guarded(go)


PARENT_KINDS = 17


def parent_kind(k):
    """the pool of parent kinds (descriptors in Spec.Validate.parentKinds): plain strings only, fresh objects.
    Kinds 10-16 sit on a grand-parent: `Parent(id="g", location=<where the parent sits on g>, parent=<great-grand-parent>)`"""
    def seq(d):
        return Sequence(d, Alphabet.NT_STRICT, id="p")

    def g(st, a, b, gg=None):
        return Parent(id="g", sequence_type="chromosome", location=SingleInterval(a, b, SYM[st]), parent=gg)

    def gg(a, b):
        return Parent(id="gg", location=SingleInterval(a, b, Strand.PLUS))
    return [lambda: None,
            lambda: Parent(id="p"),
            lambda: Parent(id="p", sequence_type="chromosome"),
            lambda: Parent(id="p", sequence_type="plasmid"),
            lambda: Parent(id="p", sequence=seq("ACGTACGTAC")),
            lambda: Parent(id="p", sequence=seq("TTTTTTTTTT")),
            lambda: Parent(id="p", parent=Parent(id="gA")),
            lambda: Parent(id="p", parent=Parent(id="gB")),
            lambda: Parent(sequence_type="X"),
            lambda: Parent(sequence_type="Y"),
            lambda: Parent(id="p", parent=g("+", 0, 10)),
            lambda: Parent(id="p", parent=g("+", 20, 30)),
            lambda: Parent(id="p", parent=g("-", 0, 10)),
            lambda: Parent(id="p", sequence=seq("ACGTACGTAC"), parent=g("+", 0, 10)),
            lambda: Parent(id="p", sequence=seq("ACGTACGTAC"), parent=g("+", 20, 30)),
            lambda: Parent(id="p", parent=g("+", 0, 10, gg(0, 50))),
            lambda: Parent(id="p", parent=g("+", 0, 10, gg(100, 150))),
            ][k]()


def _kind_of(p):
    """descriptor tuple of a Parent read attribute by attribute (no Parent.__eq__ / __hash__)"""
    if p is None:
        return None
    def loc_of(q):
        return None if q.location is None else (q.location.start, q.location.end, RSYM[q.location.strand])
    anc, q = [], p.parent
    while q is not None:
        anc.append((q.id, loc_of(q)))
        q = q.parent
    return (p.id, None if p.sequence_type is None else str(getattr(p.sequence_type, "value", p.sequence_type)),
            None if p.sequence is None else str(p.sequence), tuple(anc))


PCONS_OPS = {
    "fsi": lambda xs: CompoundInterval.from_single_intervals(xs),
    "union": lambda xs: xs[0].union(xs[1]),
    "upo": lambda xs: xs[0].union_preserve_overlaps(xs[1]),
    "isect": lambda xs: xs[0].intersection(xs[1], strict_parent_compare=True),
    "dist": lambda xs: xs[0].distance_to(xs[1]),
    "minus": lambda xs: xs[0].minus(xs[1], strict_parent_compare=True),
    "contains": lambda xs: xs[0].contains(xs[1], strict_parent_compare=True),
    "overlap": lambda xs: xs[0].has_overlap(xs[1], strict_parent_compare=True),
    "locrel": lambda xs: SingleInterval(0, 6, Strand.PLUS, xs[0].parent).location_relative_to(
        SingleInterval(4, 9, Strand.PLUS, xs[1].parent)),
}
_SPANS = [(0, 2), (4, 6), (8, 9)]


def impl_pcons(t):
    op, n = t[1], int(t[2])
    kinds = [int(x) for x in t[3:3 + n]]

    def go():
        if op == "append":
            a = Sequence("AC", Alphabet.NT_STRICT, parent=parent_kind(kinds[0]))
            b = Sequence("GT", Alphabet.NT_STRICT, parent=parent_kind(kinds[1]))
            r = a.append(b)
            want = _kind_of(parent_kind(kinds[0]))
            got = _kind_of(r.parent)
        elif op == "mkpar":
            r = Parent(id="c", sequence=Sequence("ACGT", Alphabet.NT_STRICT, id="c", parent=parent_kind(kinds[0])),
                       parent=parent_kind(kinds[1]))
            want = _kind_of(parent_kind(kinds[0] if kinds[0] else kinds[1]))
            got = _kind_of(r.parent)
        else:
            xs = [SingleInterval(s, e, Strand.PLUS, parent_kind(k)) for (s, e), k in zip(_SPANS, kinds)]
            r = PCONS_OPS[op](xs)
            want = _kind_of(parent_kind(kinds[0]))
            # (location_relative_to answers in the coordinates of the second operand: parent-less by design)
            got = _kind_of(r.parent) if is_location(r) and not isinstance(r, W._EmptyLocation) and op != "locrel" else want
        w = W.wf_value(r)
        if w:
            return "ok illformed " + w
        if got != want and not (want is not None and got is not None and got[:3] == want[:3]):
            return "ok illformed result-on-another-parent"
        return "ok wf"
    return guarded(go)


# ----------------------------------------------------------------------------------------------
# parent-hierarchy grid (fourth strengthening round): every interval / collection constructor x every shape of the
# hierarchy handed in as `parent_or_seq_chunk_parent`
#   hier  <Class> <kind>     judged by the spec AND compared with the modelled parent validation (exact class)
#   hierx <Class> <kind>     judged by the spec only (constructors that do more than validate their parent)
# The expected verdict is `Spec.Validate.hierRefusal` of the plain descriptor `Spec.Validate.hierKinds[kind]`; this side
# reports what the library did and, for an accepted object, whether it is well formed and survives being exported.

HIER_G = "ATGAAATTTGGGCCCTAAACGTACGTTAGCATGCCCGGGTTTAAATGA"
HIER_CS, HIER_CE = 6, 36
HIER_KIND_NAMES = [
    "none", "chromosome+sequence", "chromosome", "untyped+sequence", "untyped", "plasmid+sequence",
    "chunk-on-chromosome", "chunk-without-parent", "chunk-on-plasmid", "chunk-on-untyped", "chunk-on-chunk",
    "chunk-without-sequence", "chunk-not-located", "chunk-on-contig-on-chromosome", "located-untyped",
    "chunk-on-minus-strand", "chunk-on-chromosome+sequence", "typed-chunk-without-sequence-or-parent",
    "chromosome-inside-chunk", "chunk-on-chromosome(location-without-parent-pointer)",
]
HIER_KINDS = len(HIER_KIND_NAMES)


def hier_kind(k):
    """fresh Parent of kind k (descriptors: Spec.Validate.hierKinds / Model.Validate.hierKey, same order)"""
    G, cs, ce = HIER_G, HIER_CS, HIER_CE
    CH, CK = SequenceType.CHROMOSOME, SequenceType.SEQUENCE_CHUNK
    P = Strand.PLUS

    def seq(d, ty=None, parent=None, sid=None):
        return Sequence(d, Alphabet.NT_EXTENDED_GAPPED, id=sid, type=ty, parent=parent)

    def on(top, strand=P):
        # the documented form: the place of the chunk is a location that points at the sequence it was cut from
        return Parent(location=SingleInterval(cs, ce, strand, parent=top))

    def chunk(above, data=G[cs:ce]):
        return Parent(id="ck", sequence=seq(data, CK, above, "ck"))

    def depth3():
        chrom = Parent(id="chr1", sequence_type=CH, location=SingleInterval(100, 200, P))
        return chunk(Parent(location=SingleInterval(cs, ce, P, parent=Parent(id="ctg", sequence_type="contig", parent=chrom)),
                            parent=chrom))
    return [
        lambda: None,
        lambda: Parent(id="chr1", sequence_type=CH, sequence=seq(G, CH, None, "chr1")),
        lambda: Parent(id="chr1", sequence_type=CH),
        lambda: Parent(id="chr1", sequence=seq(G, None, None, "chr1")),
        lambda: Parent(id="chr1"),
        lambda: Parent(id="pl", sequence_type="plasmid", sequence=seq(G, "plasmid", None, "pl")),
        lambda: chunk(on(Parent(id="chr1", sequence_type=CH))),
        lambda: chunk(None),
        lambda: chunk(on(Parent(id="chr1", sequence_type="plasmid"))),
        lambda: chunk(on(Parent(id="chr1"))),
        lambda: chunk(on(Parent(id="chr1", sequence_type=CK))),
        lambda: Parent(id="ck", sequence_type=CK, parent=on(Parent(id="chr1", sequence_type=CH))),
        lambda: chunk(Parent(id="chr1", sequence_type=CH)),
        depth3,
        lambda: Parent(id="chr1", location=SingleInterval(cs, ce, P)),
        lambda: chunk(on(Parent(id="chr1", sequence_type=CH), Strand.MINUS)),
        lambda: chunk(on(Parent(id="chr1", sequence_type=CH, sequence=seq(G, CH, None, "chr1")))),
        lambda: Parent(id="ck", sequence_type=CK),
        lambda: Parent(id="chr1", sequence_type=CH, sequence=seq(G, CH, None, "chr1"),
                       parent=Parent(id="ck", sequence=seq(G + G, CK, None, "ck"), location=SingleInterval(0, len(G), P))),
        lambda: chunk(Parent(id="chr1", sequence_type=CH, location=SingleInterval(cs, ce, P))),
    ][k]()


def _h_feat(p):
    return FeatureInterval([8, 20], [14, 30], Strand.PLUS, parent_or_seq_chunk_parent=p)


def _h_tx(p):
    return TranscriptInterval([8, 20], [14, 30], Strand.MINUS, [9, 20], [14, 27], [CDSFrame.ZERO, CDSFrame.ONE],
                              parent_or_seq_chunk_parent=p)


def _h_nctx(p):
    return TranscriptInterval([8, 20], [14, 30], Strand.PLUS, parent_or_seq_chunk_parent=p)


def _h_cds(p):
    return CDSInterval([9, 20], [14, 27], Strand.PLUS, [CDSFrame.ZERO, CDSFrame.ONE], parent_or_seq_chunk_parent=p)


def _h_var(p):
    return VariantInterval(10, 12, "A", "snv", parent_or_seq_chunk_parent=p)


def _h_gene(p):
    return GeneInterval([_h_tx(p), _h_nctx(p)], parent_or_seq_chunk_parent=p)


def _h_gene1(p):
    return GeneInterval([_h_tx(p)], parent_or_seq_chunk_parent=p)


def _h_fc(p):
    return FeatureIntervalCollection([_h_feat(p)], parent_or_seq_chunk_parent=p)


def _h_vc(p):
    return VariantIntervalCollection([_h_var(p)], parent_or_seq_chunk_parent=p)


# class token -> (builder, (start, end) the object must report)
HIER_CLASSES = {
    "FeatureInterval": (_h_feat, (8, 30)),
    "TranscriptInterval": (_h_tx, (8, 30)),
    "TranscriptInterval:noncoding": (_h_nctx, (8, 30)),
    "CDSInterval": (_h_cds, (9, 27)),
    "VariantInterval": (_h_var, (10, 12)),
    "GeneInterval": (_h_gene, (8, 30)),
    "GeneInterval:one-child": (_h_gene1, (8, 30)),
    "FeatureIntervalCollection": (_h_fc, (8, 30)),
    "VariantIntervalCollection": (_h_vc, (10, 12)),
    "AnnotationCollection": (lambda p: AnnotationCollection(feature_collections=[_h_fc(p)], genes=[_h_gene(p)],
                                                            parent_or_seq_chunk_parent=p), None),
    "AnnotationCollection:one-gene": (lambda p: AnnotationCollection(genes=[_h_gene1(p)], start=8, end=30,
                                                                     parent_or_seq_chunk_parent=p), (8, 30)),
    "AnnotationCollection:bounds-only": (lambda p: AnnotationCollection(start=8, end=30, parent_or_seq_chunk_parent=p), (8, 30)),
    "AnnotationCollection:empty": (lambda p: AnnotationCollection(parent_or_seq_chunk_parent=p), None),
}
# spec-judged only: the constructor also incorporates the variants into the genes (C08's subject)
HIERX_CLASSES = {
    "AnnotationCollection:variants": (lambda p: AnnotationCollection(genes=[_h_gene(p)], variant_collections=[_h_vc(p)],
                                                                     parent_or_seq_chunk_parent=p), None),
}


def _survives(o):
    """exporting an accepted object: a documented refusal is an answer, anything else is reported"""
    probes = [("to_dict", lambda: o.to_dict())]
    if isinstance(o, AnnotationCollection):
        import pickle
        probes += [("to_dict(export_parent)", lambda: o.to_dict(export_parent=True)),
                   ("pickle", lambda: pickle.loads(pickle.dumps(o)))]
    else:
        probes += [("chromosome_location", lambda: o.chromosome_location),
                   ("chunk_relative_location", lambda: o.chunk_relative_location),
                   ("from_dict(to_dict)", lambda: type(o).from_dict(o.to_dict(), o._parent_or_seq_chunk_parent))]
    for name, f in probes:
        a = guarded(lambda: judge(f()))
        if a.startswith("err!"):
            return f"{name}:{a.split()[1]}"
        if a.startswith("ok illformed"):
            return f"{name}:{a.split()[2]}"
    return None


def impl_hier(t):
    """hier / hierx: the constructor's verdict (refusal class, or well-formedness and coordinates of what was built);
    hiers: what exporting the built object does (the constructor's refusal is repeated, the spec answers n/a)"""
    table = HIERX_CLASSES if t[0] == "hierx" else dict(HIER_CLASSES, **HIERX_CLASSES)
    build, span = table[t[1]]
    k = int(t[2])

    def go():
        o = build(hier_kind(k))
        if t[0] == "hiers":
            r = _survives(o)
            return "ok illformed " + r if r else "ok wf"
        r = W.wf_value(o)
        if r:
            return "ok illformed " + r
        if span is not None and (o.start, o.end) != span:
            return "ok illformed reports-other-coordinates"
        return "ok wf"
    return guarded(go)


def hier_lines():
    for cn in HIER_CLASSES:
        for k in range(HIER_KINDS):
            yield f"hier {cn} {k}"
    for cn in HIERX_CLASSES:
        for k in range(HIER_KINDS):
            yield f"hierx {cn} {k}"
    for cn in list(HIER_CLASSES) + list(HIERX_CLASSES):
        for k in range(HIER_KINDS):
            yield f"hiers {cn} {k}"


# ----------------------------------------------------------------------------------------------
# boundary objects (fourth strengthening round): the method grid on systematically SMALL / BOUNDARY valid objects
#   bcall <Class> <base> <member> <arg-tuple-id> <res>
# `base` = `b:<family>:<parameters>` names a fixed valid object (no random choice); `res` says what the object has to
# work with (P parent, S sequence, D directional strand, C coding, I completely inside its chunk, N non-empty) and is
# derived from the NAME, never from the object: the spec (`Spec.Validate.zeroArgRefusalAllowed`) holds a member
# without arguments to "refuses only what the object lacks".

BG = HIER_G
_STR = {"p": "+", "m": "-", "u": "."}
E2 = [(4, 10), (14, 20)]
TX_SHAPES = {
    # name: (exons, cds blocks | None)
    "full": (E2, E2), "first": (E2, [(4, 10)]), "last": (E2, [(14, 20)]), "endfirst": (E2, [(6, 10)]),
    "startlast": (E2, [(14, 17)]), "touch": (E2, [(7, 10), (14, 17)]), "onebase5": (E2, [(4, 5)]),
    "onebase3": (E2, [(19, 20)]), "lastbasefirst": (E2, [(9, 10)]), "firstbaselast": (E2, [(14, 15)]),
    "inner": (E2, [(5, 9)]), "span2": (E2, [(9, 10), (14, 15)]), "nc": (E2, None),
    "onebaseexons": ([(4, 5), (8, 9), (12, 13)], [(4, 5), (8, 9), (12, 13)]), "onebaseexonsnc": ([(4, 5), (8, 9), (12, 13)], None),
    "zeroexon": ([(4, 4), (6, 12)], None), "zeroexonc": ([(4, 4), (6, 12)], [(6, 12)]),
    "adjacent": ([(4, 10), (10, 16)], [(4, 10), (10, 16)]),
    "at0": ([(0, 6)], [(0, 6)]), "atend": ([(42, 48)], [(42, 48)]), "whole": ([(0, 48)], [(0, 48)]),
    "at0nc": ([(0, 1)], None), "atendnc": ([(47, 48)], None),
}
TX_FRAMED = ("full", "touch", "first", "onebase5", "span2", "at0")
FEAT_SHAPES = {
    "at0": [(0, 1)], "atend": [(47, 48)], "whole": [(0, 48)], "zero": [(0, 0)], "zeroend": [(48, 48)],
    "zeroblock": [(3, 3), (5, 9)], "onebases": [(3, 4), (6, 7)], "adjacent": [(3, 6), (6, 9)],
    "zeromid": [(3, 6), (8, 8), (10, 12)],
}
VAR_SHAPES = {"at0": (0, 1, "A"), "atend": (47, 48, "G"), "whole": (0, 48, ""), "insat0": (0, 1, "ACGT")}
# chunk windows relative to an object that occupies [10, 22) with blocks [10,14) [18,22)
CK_BLOCKS, CK_CDS = [(10, 14), (18, 22)], [(11, 14), (18, 21)]
CK_RELS = {"eq": (10, 22), "in1": (9, 23), "cut5": (11, 22), "cut3": (10, 21), "left": (2, 10), "right": (22, 30),
           "firstexon": (10, 14), "intron": (14, 18), "whole": (0, 48), "onebase": (13, 14)}
CK_INSIDE = ("eq", "in1", "whole")


def _bpar(par):
    if par == "n":
        return None
    if par == "s":
        return mk_parent(("chrom", "chr1", BG))
    if par == "q":
        return mk_parent(("noseq", "chr1"))
    cs, ce = par
    return mk_parent(("chunk", "chr1", BG, cs, ce))


def _b_cds(blocks, st, f, par):
    fr = frames_for([list(b) for b in blocks], st, f)
    return CDSInterval([b[0] for b in blocks], [b[1] for b in blocks], SYM[st], [CDSFrame(x) for x in fr],
                       parent_or_seq_chunk_parent=_bpar(par))


def _b_tx(exons, cds, st, f, par, **kw):
    if cds is None:
        return TranscriptInterval([b[0] for b in exons], [b[1] for b in exons], SYM[st], parent_or_seq_chunk_parent=_bpar(par), **kw)
    fr = frames_for([list(b) for b in cds], st, f)
    return TranscriptInterval([b[0] for b in exons], [b[1] for b in exons], SYM[st], [b[0] for b in cds], [b[1] for b in cds],
                              [CDSFrame(x) for x in fr], parent_or_seq_chunk_parent=_bpar(par), **kw)


def _b_feat(blocks, st, par, **kw):
    return FeatureInterval([b[0] for b in blocks], [b[1] for b in blocks], SYM[st], parent_or_seq_chunk_parent=_bpar(par), **kw)


def _b_var(v, par):
    return VariantInterval(v[0], v[1], v[2], "v", parent_or_seq_chunk_parent=_bpar(par))


def _cds_blocks(L, k):
    if k == 1:
        return [(5, 5 + L)]
    a = (L + 1) // 2
    return [(5, 5 + a), (8 + a, 8 + L)]          # second block empty when L = 1


def _res(par, directional=True, coding=True, inside=True, nonempty=True):
    return "".join([("P" if par != "n" else "-"), ("S" if par not in ("n", "q") else "-"), ("D" if directional else "-"),
                    ("C" if coding else "-"), ("I" if inside else "-"), ("N" if nonempty else "-")])


def _boundary_table():
    """class -> {base name: (builder, res)}; insertion order = grid order"""
    T = {c: {} for c in ("CDSInterval", "TranscriptInterval", "FeatureInterval", "VariantInterval", "GeneInterval",
                         "FeatureIntervalCollection", "VariantIntervalCollection", "AnnotationCollection")}

    def add(cls, name, fn, res):
        T[cls][name] = (fn, res)
    # CDS of total length 1..7 x every start frame x 1-2 exons x both strands, with and without sequence
    for L in range(1, 8):
        for f in (0, 1, 2):
            for k in (1, 2):
                for st in "pm":
                    for par in "sn":
                        add("CDSInterval", f"b:cds:{L}:{f}:{k}:{st}:{par}",
                            (lambda L=L, f=f, k=k, st=st, par=par: _b_cds(_cds_blocks(L, k), _STR[st], f, par)), _res(par))
    # CDS at coordinate 0 / at the end of the parent
    for where in ("0", "e"):
        for L in (3, 4):
            for f in (0, 1, 2):
                for st in "pm":
                    blocks = [(0, L)] if where == "0" else [(len(BG) - L, len(BG))]
                    add("CDSInterval", f"b:cdsedge:{where}:{L}:{f}:{st}",
                        (lambda blocks=blocks, f=f, st=st: _b_cds(blocks, _STR[st], f, "s")), _res("s"))
    # CDS with a zero-length block first / in the middle / last
    for pos, blocks in (("first", [(3, 3), (5, 11)]), ("mid", [(5, 8), (9, 9), (11, 14)]), ("last", [(5, 11), (13, 13)])):
        for f in (0, 1, 2):
            for st in "pm":
                add("CDSInterval", f"b:cdsz:{pos}:{f}:{st}", (lambda blocks=blocks, f=f, st=st: _b_cds(blocks, _STR[st], f, "s")), _res("s"))
    # transcripts whose CDS equals / touches the exon ends, one-base and zero-length exons, coordinate 0 / parent end
    for shape, (exons, cds) in TX_SHAPES.items():
        for st in "pm":
            for f in ((0, 1, 2) if shape in TX_FRAMED else (0,)):
                for par in (("s", "n") if shape in ("full", "nc", "onebase5") and f == 0 else ("s",)):
                    add("TranscriptInterval", f"b:tx:{shape}:{st}:{f}:{par}",
                        (lambda exons=exons, cds=cds, st=st, f=f, par=par: _b_tx(exons, cds, _STR[st], f, par)),
                        _res(par, coding=cds is not None, nonempty=sum(e - s for s, e in exons) > 0))
    for shape, blocks in FEAT_SHAPES.items():
        for st in "pmu":
            for par in (("s", "n") if shape in ("at0", "zero") else ("s",)):
                add("FeatureInterval", f"b:feat:{shape}:{st}:{par}",
                    (lambda blocks=blocks, st=st, par=par: _b_feat(blocks, _STR[st], par)),
                    _res(par, directional=st != "u", coding=False, nonempty=sum(e - s for s, e in blocks) > 0))
    for shape, v in VAR_SHAPES.items():
        add("VariantInterval", f"b:var:{shape}", (lambda v=v: _b_var(v, "s")), _res("s", coding=False))
    # genes with one child, collections with one member
    for shape in ("full", "nc", "onebase5", "onebaseexons", "at0", "atend", "zeroexon"):
        exons, cds = TX_SHAPES[shape]
        for st in "pm":
            add("GeneInterval", f"b:gene:{shape}:{st}",
                (lambda exons=exons, cds=cds, st=st: GeneInterval([_b_tx(exons, cds, _STR[st], 0, "s")], gene_type=Biotype.protein_coding,
                                                                  parent_or_seq_chunk_parent=_bpar("s"))),
                _res("s", coding=cds is not None))
    for shape in ("at0", "atend", "zero", "onebases", "whole"):
        blocks = FEAT_SHAPES[shape]
        add("FeatureIntervalCollection", f"b:fc:{shape}",
            (lambda blocks=blocks: FeatureIntervalCollection([_b_feat(blocks, "+", "s")], parent_or_seq_chunk_parent=_bpar("s"))),
            _res("s", coding=False, nonempty=sum(e - s for s, e in blocks) > 0))
    for shape in ("at0", "atend"):
        v = VAR_SHAPES[shape]
        add("VariantIntervalCollection", f"b:vc:{shape}",
            (lambda v=v: VariantIntervalCollection([_b_var(v, "s")], parent_or_seq_chunk_parent=_bpar("s"))), _res("s", coding=False))

    def gene1(par="s", st="+"):
        return GeneInterval([_b_tx(E2, E2, st, 0, par, transcript_id="T1")], gene_type=Biotype.protein_coding, gene_id="G1",
                            parent_or_seq_chunk_parent=_bpar(par))

    def fc1(par="s"):
        return FeatureIntervalCollection([_b_feat(FEAT_SHAPES["at0"], "+", par, feature_types=["promoter"])],
                                         parent_or_seq_chunk_parent=_bpar(par))
    AC = {
        "onegene": lambda: AnnotationCollection(genes=[gene1()], sequence_name="chr1", parent_or_seq_chunk_parent=_bpar("s")),
        "onefc": lambda: AnnotationCollection(feature_collections=[fc1()], sequence_name="chr1", parent_or_seq_chunk_parent=_bpar("s")),
        "genevar": lambda: AnnotationCollection(genes=[gene1()], variant_collections=[
            VariantIntervalCollection([_b_var((4, 5, "G"), "s")], parent_or_seq_chunk_parent=_bpar("s"))], sequence_name="chr1",
            parent_or_seq_chunk_parent=_bpar("s")),
        "boundseq": lambda: AnnotationCollection(genes=[gene1()], start=4, end=20, sequence_name="chr1", parent_or_seq_chunk_parent=_bpar("s")),
        "boundswhole": lambda: AnnotationCollection(genes=[gene1()], start=0, end=len(BG), sequence_name="chr1",
                                                    parent_or_seq_chunk_parent=_bpar("s")),
        "boundszero": lambda: AnnotationCollection(start=5, end=5, sequence_name="chr1", parent_or_seq_chunk_parent=_bpar("s")),
        "boundsatend": lambda: AnnotationCollection(start=len(BG), end=len(BG), sequence_name="chr1", parent_or_seq_chunk_parent=_bpar("s")),
        "noparent": lambda: AnnotationCollection(genes=[gene1("n")], sequence_name="chr1"),
    }
    for shape, fn in AC.items():
        add("AnnotationCollection", f"b:ac:{shape}", fn,
            _res("n" if shape == "noparent" else "s", nonempty=shape not in ("boundszero", "boundsatend")))
    # chunk parents whose window equals / touches / cuts the object
    for rel, win in CK_RELS.items():
        ins = rel in CK_INSIDE
        for st in "pm":
            add("CDSInterval", f"b:ck:cds:{rel}:{st}", (lambda win=win, st=st: _b_cds(CK_CDS, _STR[st], 0, win)), _res(win, inside=ins))
            add("TranscriptInterval", f"b:ck:tx:{rel}:{st}",
                (lambda win=win, st=st: _b_tx(CK_BLOCKS, CK_CDS, _STR[st], 0, win)), _res(win, inside=ins))
            add("FeatureInterval", f"b:ck:feat:{rel}:{st}", (lambda win=win, st=st: _b_feat(CK_BLOCKS, _STR[st], win)), _res(win, coding=False, inside=ins))
            add("GeneInterval", f"b:ck:gene:{rel}:{st}",
                (lambda win=win, st=st: GeneInterval([_b_tx(CK_BLOCKS, CK_CDS, _STR[st], 0, win)], gene_type=Biotype.protein_coding,
                                                     parent_or_seq_chunk_parent=_bpar(win))), _res(win, inside=ins))
        add("VariantInterval", f"b:ck:var:{rel}", (lambda win=win: _b_var((12, 13, "T"), win)), _res(win, coding=False, inside=win[0] <= 12 < win[1]))
        add("FeatureIntervalCollection", f"b:ck:fc:{rel}",
            (lambda win=win: FeatureIntervalCollection([_b_feat(CK_BLOCKS, "+", win)], parent_or_seq_chunk_parent=_bpar(win))),
            _res(win, coding=False, inside=ins))
        add("AnnotationCollection", f"b:ck:ac:{rel}",
            (lambda win=win: AnnotationCollection(
                genes=[GeneInterval([_b_tx(CK_BLOCKS, CK_CDS, "+", 0, win)], gene_type=Biotype.protein_coding,
                                    parent_or_seq_chunk_parent=_bpar(win))],
                feature_collections=[FeatureIntervalCollection([_b_feat(CK_BLOCKS, "-", win)], parent_or_seq_chunk_parent=_bpar(win))],
                sequence_name="chr1", parent_or_seq_chunk_parent=_bpar(win))), _res(win, inside=ins))
        add("AnnotationCollection", f"b:ck:acb:{rel}",
            (lambda win=win: AnnotationCollection(start=10, end=22, sequence_name="chr1", parent_or_seq_chunk_parent=_bpar(win))),
            _res(win, inside=ins))
    return T


BOUNDARY = _boundary_table()


def boundary_object(cls_name, base_id):
    return BOUNDARY[cls_name][base_id.rsplit(".", 1)[0]][0]()


def boundary_points(cls_name, name, index, stride):
    """[(member, argid)] of one boundary object: every property and every member without arguments; the argument
    tuples of member j when (index + j) % stride == 0 (stride 1 = everything)"""
    o = BOUNDARY[cls_name][name][0]()
    pts = method_points(o)
    members = []
    for m, _ in pts:
        if m not in members:
            members.append(m)
    out = []
    for m, argid in pts:
        if argid in ("prop", "-") or (index + members.index(m)) % stride == 0:
            out.append((m, argid))
    return out


def impl_bcall(t):
    return impl_call(t[:5])


# ----------------------------------------------------------------------------------------------
# parser entry points on malformed-but-parseable feature lists (GenBank: the three parser classes)
#   gbparse <S|L|H> <n> REC*      token codec and SeqRecord construction of harness/impl_genbank.py (C12, read-only)
# Answer: `ok wf` when the parser returned gene / feature models, else the exception class (this module's classifier).

def gb_feature_lists():
    """deterministic pool: name -> list of (type, strand, parts, qualifiers)"""
    A, B = {"locus_tag": ["A"]}, {"locus_tag": ["B"]}
    gene = ("gene", "+", [(0, 30)], A)
    mrna = ("mRNA", "+", [(0, 9), (15, 30)], A)
    cds = ("CDS", "+", [(3, 9), (15, 24)], dict(A, codon_start=["1"]))
    pool = {
        "empty": [],
        "exon_only": [("exon", "+", [(0, 9)], A), ("exon", "+", [(3, 12)], A)],
        "exon_one": [("exon", "+", [(0, 9)], A)],
        "intron_only": [("intron", "+", [(9, 15)], A)],
        "exon_then_gene": [("exon", "+", [(0, 9)], A), gene],
        "gene_exon": [gene, ("exon", "+", [(0, 9)], A)],
        "gene_only": [gene],
        "gene_mrna": [gene, mrna],
        "gene_cds": [gene, cds],
        "gene_mrna_cds": [gene, mrna, cds],
        "cds_only": [cds],
        "cds_noquals": [("CDS", "+", [(3, 9)], {})],
        "mrna_only": [mrna],
        "cds_before_gene": [cds, gene],
        "mrna_cds_no_gene": [mrna, cds],
        "two_genes_same_tag": [gene, ("gene", "+", [(40, 60)], A)],
        "two_genes": [gene, cds, ("gene", "-", [(40, 60)], B), ("CDS", "-", [(40, 55)], B)],
        "gene_untagged_cds_tagged": [("gene", "+", [(0, 30)], {}), cds],
        "gene_tagged_cds_untagged": [gene, ("CDS", "+", [(3, 9)], {})],
        "gene_trna": [gene, ("tRNA", "+", [(0, 30)], A)],
        "gene_ncrna_noclass": [gene, ("ncRNA", "+", [(0, 30)], A)],
        "ncrna_only": [("ncRNA", "+", [(0, 30)], dict(A, ncRNA_class=["lncRNA"]))],
        "codon_start_4": [gene, ("CDS", "+", [(3, 9)], dict(A, codon_start=["4"]))],
        "codon_start_x": [gene, ("CDS", "+", [(3, 9)], dict(A, codon_start=["x"]))],
        "codon_start_0": [gene, ("CDS", "+", [(3, 9)], dict(A, codon_start=["0"]))],
        "codon_start_blank": [gene, ("CDS", "+", [(3, 9)], dict(A, codon_start=[""]))],
        "mixed_strands": [gene, ("CDS", "-", [(3, 9)], A)],
        "cds_outside_gene": [gene, ("CDS", "+", [(40, 49)], A)],
        "cds_two_mrnas": [gene, mrna, ("mRNA", "+", [(0, 30)], A), cds],
        "two_cds_one_mrna": [gene, mrna, cds, ("CDS", "+", [(3, 9)], A)],
        "misc_feature_only": [("misc_feature", "+", [(2, 8)], A)],
        "misc_feature_untagged": [("misc_feature", "+", [(2, 8)], {})],
        "repeat_and_gene": [("repeat_region", ".", [(2, 8)], A), gene, cds],
        "unstranded_gene": [("gene", ".", [(0, 30)], A), ("CDS", ".", [(3, 9)], A)],
        "unstranded_exon": [("exon", ".", [(0, 9)], A)],
        "pseudo_gene": [("gene", "+", [(0, 30)], dict(A, pseudo=[""]))],
        "empty_locus_tag": [("gene", "+", [(0, 30)], {"locus_tag": [""]}), ("CDS", "+", [(3, 9)], {"locus_tag": [""]})],
        "gene_qualifier_only": [("gene", "+", [(0, 30)], {"gene": ["g"]}), ("CDS", "+", [(3, 9)], {"gene": ["g"]})],
        "source_only": [("source", "+", [(0, 60)], {})],
        "cds_minus_join": [("gene", "-", [(0, 30)], A), ("CDS", "-", [(15, 24), (3, 9)], A)],
        "cds_overlapping_parts": [gene, ("CDS", "+", [(3, 12), (9, 24)], A)],
    }
    return pool


def gb_lines():
    from harness.impl_genbank import enc_rec
    for name, recs in gb_feature_lists().items():
        body = " ".join([str(len(recs))] + [enc_rec(r[0], r[1], r[2], list(r[3].items())) for r in recs])
        for mode in "SLH":
            yield f"gbparse {mode} {name} {body}"


def impl_gbparse(t):
    from harness import impl_genbank as GB

    def go():
        tk = GB.Toks([t[1]] + t[3:])
        out = GB._gbp(tk)
        return "ok wf" if out.startswith("ok") else out
    return guarded(go)
