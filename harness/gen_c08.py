"""C08 generator: descriptions of every interval / collection class as PLAIN DATA + builders of the real objects.

Reuses `harness/gen_collections.py` (layouts, reading frames, qualifier strings, genes, feature collections; read-only
use) and adds what the serialisation property needs on top: variants and variant collections, collection-level
qualifiers / identifiers, non-string qualifier values, the four parent situations and chunk windows that CUT the
content, and construction through the PUBLIC CONSTRUCTORS (never through `from_dict`, which is under test).

One op line `obj <kind> <parent kind> <seed> <profile>` denotes exactly one description:
`describe(kind, pkind, seed, profile)` is a pure function of its arguments (own `random.Random(seed-string)`), so the
implementation side (and a subprocess under another PYTHONHASHSEED) rebuilds the very same object.

kinds    tx cds feat var gene fc vc ac
parents  none   no parent
         bare   Parent(id=<seqname>, sequence_type="chromosome") without sequence
         chrom  whole chromosome with sequence (`seq_to_parent(seq, seq_id=...)`)
         chromnoid  the same without sequence id (`seq_to_parent(seq)`, the function's default)
         chunk  sequence chunk [cs, ce) on the plus strand (`seq_chunk_to_parent`); the window either contains the
                object's span or cuts it (classified in the description: "window": contains|cuts-left|cuts-right|inside)
         chunkrev  the same window as a chunk on the MINUS strand of the chromosome
                (`seq_chunk_to_parent(revcomp(genome[cs:ce]), name, cs, ce, strand=Strand.MINUS)`)
profiles plain | adv (adversarial values) | advkey (adversarial keys too) | mixed (non-string qualifier values) | sparse
"""
import random
import uuid

from harness import gen_collections as G

KINDS = ["tx", "cds", "feat", "var", "gene", "fc", "vc", "ac"]
PARENTS = ["none", "bare", "nameonly", "chrom", "chromnoid", "chunk", "chunkrev"]
PROFILES = ["plain", "adv", "advkey", "mixed", "sparse"]
GENOME_LEN = 160
SEQNAME = "chr1"
SEQUENCE_GUID = "5e9c0b1a-7d2f-4c3e-9a41-0123456789ab"


def _rng(*key):
    return random.Random("c08|" + "|".join(str(k) for k in key))


def gen_quals(rng, profile, max_keys=3):
    if profile == "sparse" and rng.random() < 0.6:
        return None
    if profile == "mixed":
        n = rng.randint(0, max_keys)
        out = {}
        for i in range(n):
            k = G.plain_string(rng, "q").lower()
            vals = []
            for _ in range(rng.randint(1, 4)):
                vals.append(rng.choice([rng.randint(-3, 30), True, False, 1.5, "1", "True", "v" + str(rng.randint(0, 9)),
                                        "", " x"]))
            out[k] = vals
        return out or None
    style = {"plain": "plain", "adv": "adv", "advkey": "advkey", "sparse": "plain"}[profile]
    q = G.gen_qualifiers(rng, style, max_keys)
    if q and rng.random() < 0.5:
        # duplicates and unsorted values inside one key (import: list -> set; export: sorted)
        k = rng.choice(sorted(q))
        q[k] = q[k] + [rng.choice(q[k])] + (["0zz", "Zz", "zz"] if rng.random() < 0.5 else [])
        rng.shuffle(q[k])
    return q


def _ident(rng, profile, prefix):
    if profile == "sparse" and rng.random() < 0.5:
        return None
    if profile in ("adv", "advkey"):
        return G.adversarial_string(rng, 5)
    return prefix + str(rng.randint(0, 99))


def gen_tx(rng, profile, lo=0, hi=GENOME_LEN, strand=None, idx=0):
    strand = strand or rng.choice(["PLUS", "MINUS"])
    a = rng.randint(lo, max(lo, hi - 6))
    b = rng.randint(min(hi, a + 3), min(hi, a + 70))
    tx = G.gen_transcript(rng, a, b, strand, SEQNAME, {"p_coding": 0.65, "p_frameshift": 0.15})
    coding = tx["cds_starts"] is not None
    tx.update(transcript_id=_ident(rng, profile, f"tx{idx}."), transcript_symbol=_ident(rng, profile, "TS"),
              transcript_type=rng.choice([None, "protein_coding" if coding else "lncRNA", "tRNA", "mRNA"]),
              protein_id=_ident(rng, profile, "prot") if coding else None,
              product=_ident(rng, profile, "product ") if coding else None,
              qualifiers=gen_quals(rng, profile), is_primary_tx=rng.choice([None, False, True, False]),
              sequence_name=rng.choice([SEQNAME, SEQNAME, None]))
    return tx


def gen_cds(rng, profile):
    while True:
        tx = gen_tx(rng, profile)
        if tx["cds_starts"] is not None:
            break
    return dict(cds_starts=tx["cds_starts"], cds_ends=tx["cds_ends"], strand=tx["strand"], cds_frames=tx["cds_frames"],
                qualifiers=gen_quals(rng, profile), sequence_name=tx["sequence_name"], protein_id=tx["protein_id"],
                product=tx["product"])


def gen_feat(rng, profile, lo=0, hi=GENOME_LEN, idx=0):
    a = rng.randint(lo, max(lo, hi - 4))
    b = rng.randint(min(hi, a + 2), min(hi, a + 50))
    blocks = G.gen_blocks(rng, a, b, 3, 0.3)
    types = rng.sample(["promoter", "enhancer", "misc_feature", "repeat", "a b", "Z"], rng.randint(0, 3))
    return dict(interval_starts=[s for s, _ in blocks], interval_ends=[e for _, e in blocks],
                strand=rng.choice(["PLUS", "MINUS", "UNSTRANDED"]), qualifiers=gen_quals(rng, profile),
                feature_id=_ident(rng, profile, f"feat{idx}."), feature_name=_ident(rng, profile, "FN"),
                feature_types=types if (types or rng.random() < 0.5) else None,
                sequence_name=rng.choice([SEQNAME, None]), is_primary_feature=rng.choice([None, False, True, False]))


def gen_var(rng, profile, lo=0, hi=GENOME_LEN, idx=0):
    s = rng.randint(lo, hi - 2)
    e = rng.randint(s + 1, min(hi, s + 4))
    kind = rng.choice(["SNV", "insertion", "deletion", "SNV"])
    n = e - s
    alt = {"SNV": n, "insertion": n + rng.randint(1, 3), "deletion": rng.randint(0, n - 1)}[kind]
    seq = "".join(rng.choice("ACGT") for _ in range(alt))
    return dict(start=s, end=e, sequence=seq, variant_type=kind, phase_block=rng.choice([None, 0, 1, 7]),
                variant_name=_ident(rng, profile, "vn"), variant_id=_ident(rng, profile, f"v{idx}."),
                qualifiers=gen_quals(rng, profile, 2), variant_guid_int=rng.choice([None, None, rng.getrandbits(64)]))


def gen_vc(rng, profile, lo=0, hi=GENOME_LEN, idx=0):
    n = rng.randint(1, 3)
    cuts = sorted(rng.sample(range(lo, hi), min(2 * n, hi - lo)))
    vs = []
    for i in range(len(cuts) // 2):
        a, b = cuts[2 * i], cuts[2 * i + 1]
        if b - a < 1:
            continue
        v = gen_var(rng, profile, a, min(b, a + 4) if b > a + 1 else b + 1, idx * 10 + i)
        # keep the variant inside its own slot so that variants never overlap
        v["start"], v["end"] = a, min(b, a + (v["end"] - v["start"]))
        if v["end"] <= v["start"]:
            v["end"] = v["start"] + 1
        if v["variant_type"] == "SNV":
            v["sequence"] = (v["sequence"] * 4)[: v["end"] - v["start"]] or "A"
        vs.append(v)
    if not vs:
        vs = [gen_var(rng, profile, lo, hi, idx)]
    rng.shuffle(vs)          # the constructor sorts by start
    return dict(variant_intervals=vs, variant_collection_name=_ident(rng, profile, "VC"),
                variant_collection_id=_ident(rng, profile, f"vc{idx}"), qualifiers=gen_quals(rng, profile, 2),
                sequence_name=rng.choice([SEQNAME, None]))


def gen_gene(rng, profile, lo=0, hi=GENOME_LEN, idx=0):
    strand = rng.choice(["PLUS", "MINUS"])
    txs, seen = [], set()
    for j in range(rng.randint(1, 3)):
        t = gen_tx(rng, profile, lo, hi, strand if rng.random() < 0.9 else None, idx * 10 + j)
        key = repr(sorted((k, repr(v)) for k, v in t.items()))
        if key not in seen:
            seen.add(key)
            txs.append(t)
    # at most one primary transcript (two flagged children are refused by the library)
    flagged = [t for t in txs if t["is_primary_tx"]]
    for t in flagged[1:]:
        t["is_primary_tx"] = False
    coding = any(t["cds_starts"] for t in txs)
    return dict(transcripts=txs, gene_id=_ident(rng, profile, f"gene{idx}"), gene_symbol=_ident(rng, profile, "SYM"),
                gene_type=rng.choice([None, "protein_coding" if coding else "ncRNA"]),
                locus_tag=_ident(rng, profile, "LT_"), qualifiers=gen_quals(rng, profile), sequence_name=SEQNAME)


def gen_fc(rng, profile, lo=0, hi=GENOME_LEN, idx=0):
    feats, seen = [], set()
    for j in range(rng.randint(1, 3)):
        f = gen_feat(rng, profile, lo, hi, idx * 10 + j)
        key = repr(sorted((k, repr(v)) for k, v in f.items()))
        if key not in seen:
            seen.add(key)
            feats.append(f)
    flagged = [f for f in feats if f["is_primary_feature"]]
    for f in flagged[1:]:
        f["is_primary_feature"] = False
    return dict(feature_intervals=feats, feature_collection_name=_ident(rng, profile, "FC"),
                feature_collection_id=_ident(rng, profile, f"fc{idx}"),
                feature_collection_type=rng.choice([None, "regulatory"]), locus_tag=_ident(rng, profile, "FLT_"),
                qualifiers=gen_quals(rng, profile), sequence_name=SEQNAME)


def gen_ac(rng, profile, shape=None):
    shape = shape or rng.choice(["genes", "genes+fc", "fc", "genes+fc+vc", "vc", "genes+vc"])
    parts = shape.split("+")
    genes = [gen_gene(rng, profile, idx=i) for i in range(rng.randint(1, 3))] if "genes" in parts else []
    fcs = [gen_fc(rng, profile, idx=i) for i in range(rng.randint(1, 2))] if "fc" in parts else []
    vcs = [gen_vc(rng, profile, idx=i) for i in range(rng.randint(1, 2))] if "vc" in parts else []
    d = dict(genes=genes, feature_collections=fcs, variant_collections=vcs, name=_ident(rng, profile, "AC"),
             id=_ident(rng, profile, "acid"), qualifiers=gen_quals(rng, profile, 2), sequence_name=SEQNAME,
             sequence_path=rng.choice([None, "/x/y.fa"]), start=None, end=None,
             completely_within=rng.choice([None, None, True, False]), shape=shape,
             # free metadata: the same identifier on every collection that carries one (as for many collections cut from
             # one assembly record)
             sequence_guid=rng.choice([None, SEQUENCE_GUID, SEQUENCE_GUID]))
    if rng.random() < 0.3 and (genes or fcs or vcs):
        lo, hi = span("ac", d)
        d["start"] = rng.randint(0, lo)
        d["end"] = rng.randint(hi, GENOME_LEN)
    return d


GEN = {"tx": gen_tx, "cds": gen_cds, "feat": gen_feat, "var": gen_var, "gene": gen_gene, "fc": gen_fc, "vc": gen_vc,
       "ac": gen_ac}


def span(kind, d):
    """chromosome (lo, hi) of everything in the description"""
    if kind == "tx":
        return d["exon_starts"][0], d["exon_ends"][-1]
    if kind == "cds":
        return d["cds_starts"][0], d["cds_ends"][-1]
    if kind == "feat":
        return d["interval_starts"][0], d["interval_ends"][-1]
    if kind == "var":
        return d["start"], d["end"]
    subs = []
    if kind == "gene":
        subs = [span("tx", t) for t in d["transcripts"]]
    elif kind == "fc":
        subs = [span("feat", f) for f in d["feature_intervals"]]
    elif kind == "vc":
        subs = [span("var", v) for v in d["variant_intervals"]]
    elif kind == "ac":
        subs = ([span("gene", g) for g in d["genes"]] + [span("fc", f) for f in d["feature_collections"]]
                + [span("vc", v) for v in d["variant_collections"]])
    return min(s[0] for s in subs), max(s[1] for s in subs)


def describe(kind, pkind, seed, profile):
    """-> (description dict, parent spec dict)"""
    rng = _rng(kind, pkind, seed, profile)
    if kind == "ac" and int(seed) >= 900000:
        # reserved seeds: the empty collection (even) / a collection holding only variant collections (odd)
        d = gen_ac(rng, profile, shape=("empty", "vc")[int(seed) % 2])
    else:
        d = GEN[kind](rng, profile)
    ps = {"kind": pkind, "seqname": SEQNAME, "genome_len": GENOME_LEN}
    if pkind in ("chunk", "chunkrev"):
        lo, hi = span(kind, d) if not (kind == "ac" and d["shape"] == "empty") else (10, 20)
        how = rng.choice(["contains", "contains", "contains", "cuts-left", "cuts-right", "inside"])
        if kind == "ac" and d.get("start") is not None:
            how = "contains"
            lo, hi = min(lo, d["start"]), max(hi, d["end"])
        if how == "contains" or hi - lo < 3:
            how = "contains"
            cs, ce = rng.randint(0, lo), rng.randint(hi, GENOME_LEN)
        elif how == "cuts-left":
            cs, ce = rng.randint(lo + 1, hi - 1), rng.randint(hi, GENOME_LEN)
        elif how == "cuts-right":
            cs, ce = rng.randint(0, lo), rng.randint(lo + 1, hi - 1)
        else:
            cs = rng.randint(lo + 1, hi - 2)
            ce = rng.randint(cs + 1, hi - 1)
        ps.update(chunk=(cs, ce), window=how)
    return d, ps


# ----------------------------------------------------------------------------------------------------------
# real objects (public constructors only)

def revcomp(s):
    return s[::-1].translate(str.maketrans("ACGT", "TGCA"))


def window_of(ps):
    """the stretch [lo, hi) of the chromosome whose sequence the parent provides, or None (no sequence)"""
    k = ps["kind"]
    if k in ("chrom", "chromnoid"):
        return 0, ps["genome_len"]
    if k in ("chunk", "chunkrev"):
        return ps["chunk"]
    return None


def expected_spliced(blocks, strand, ps):
    """brute force from the plain genome string: the 5'->3' sequence of the part of the blocks inside the window
    (None without sequence; "" when nothing is inside)"""
    w = window_of(ps)
    if w is None or strand == "UNSTRANDED":
        return None                    # an unstranded location has no 5'->3' sequence (the library refuses)
    g = G.genome(max(ps["genome_len"], w[1]))
    parts = [g[max(s, w[0]):min(e, w[1])] for s, e in blocks if max(s, w[0]) < min(e, w[1])]
    seq = "".join(parts)
    return revcomp(seq) if strand == "MINUS" else seq


def expected_sequences(kind, d, ps):
    """brute-force sequences of every member, in the order `impl_serial.seq_tree` reports them"""
    out = []
    if kind == "tx":
        out.append(expected_spliced(list(zip(d["exon_starts"], d["exon_ends"])), d["strand"], ps))
        if d["cds_starts"]:
            out.append(expected_spliced(list(zip(d["cds_starts"], d["cds_ends"])), d["strand"], ps))
    elif kind == "cds":
        out.append(expected_spliced(list(zip(d["cds_starts"], d["cds_ends"])), d["strand"], ps))
    elif kind == "feat":
        out.append(expected_spliced(list(zip(d["interval_starts"], d["interval_ends"])), d["strand"], ps))
    elif kind == "var":
        out.append(expected_spliced([(d["start"], d["end"])], "PLUS", ps))
    else:
        out.append(expected_spliced([span(kind, d)] if kind != "ac" else [], "PLUS", ps) if kind != "ac" else None)
        for ck, c in children(kind, d):
            out += expected_sequences(ck, c, ps)
    return out


def children(kind, d):
    if kind == "gene":
        return [("tx", t) for t in d["transcripts"]]
    if kind == "fc":
        return [("feat", f) for f in d["feature_intervals"]]
    if kind == "vc":
        return [("var", v) for v in sorted(d["variant_intervals"], key=lambda v: v["start"])]
    if kind == "ac":
        return ([("gene", g) for g in d["genes"]] + [("fc", f) for f in d["feature_collections"]]
                + [("vc", v) for v in d["variant_collections"]])
    return []


def make_parent(ps):
    from inscripta.biocantor.parent import Parent
    from inscripta.biocantor.sequence.sequence import SequenceType
    k = ps["kind"]
    if k == "none":
        return None
    if k == "bare":
        return Parent(id=ps["seqname"], sequence_type=SequenceType.CHROMOSOME)
    if k == "nameonly":
        return Parent(id=ps["seqname"])          # a parent that only names its sequence: no type, no sequence
    if k == "chunkrev":
        from inscripta.biocantor.io.parser import seq_chunk_to_parent
        from inscripta.biocantor.location.strand import Strand
        cs, ce = ps["chunk"]
        return seq_chunk_to_parent(revcomp(G.genome(max(ps["genome_len"], ce))[cs:ce]), ps["seqname"], cs, ce,
                                   strand=Strand.MINUS)
    if k == "chromnoid":
        from inscripta.biocantor.io.parser import seq_to_parent
        return seq_to_parent(G.genome(ps["genome_len"]))
    return G.make_parent(k, ps["seqname"], ps["genome_len"], ps.get("chunk"))


def _lib():
    from inscripta.biocantor.gene.biotype import Biotype
    from inscripta.biocantor.gene.cds import CDSInterval
    from inscripta.biocantor.gene.cds_frame import CDSFrame
    from inscripta.biocantor.gene.collections import AnnotationCollection
    from inscripta.biocantor.gene.feature import FeatureInterval, FeatureIntervalCollection
    from inscripta.biocantor.gene.gene import GeneInterval
    from inscripta.biocantor.gene.transcript import TranscriptInterval
    from inscripta.biocantor.gene.variants import VariantInterval, VariantIntervalCollection
    from inscripta.biocantor.location.strand import Strand
    return locals()


def _copyq(q):
    return None if q is None else {k: list(v) for k, v in q.items()}


def build(kind, d, parent, L=None):
    """description -> real object, through the constructors"""
    import uuid
    L = L or _lib()
    S, F, B = L["Strand"], L["CDSFrame"], L["Biotype"]
    if kind == "tx":
        return L["TranscriptInterval"](
            exon_starts=list(d["exon_starts"]), exon_ends=list(d["exon_ends"]), strand=S[d["strand"]],
            cds_starts=None if d["cds_starts"] is None else list(d["cds_starts"]),
            cds_ends=None if d["cds_ends"] is None else list(d["cds_ends"]),
            cds_frames=None if d["cds_frames"] is None else [F[x] for x in d["cds_frames"]],
            qualifiers=_copyq(d["qualifiers"]), is_primary_tx=d["is_primary_tx"], transcript_id=d["transcript_id"],
            transcript_symbol=d["transcript_symbol"],
            transcript_type=B[d["transcript_type"]] if d["transcript_type"] else None,
            sequence_name=d["sequence_name"], protein_id=d["protein_id"], product=d["product"],
            parent_or_seq_chunk_parent=parent)
    if kind == "cds":
        return L["CDSInterval"](list(d["cds_starts"]), list(d["cds_ends"]), S[d["strand"]],
                                [F[x] for x in d["cds_frames"]], sequence_name=d["sequence_name"],
                                protein_id=d["protein_id"], product=d["product"], qualifiers=_copyq(d["qualifiers"]),
                                parent_or_seq_chunk_parent=parent)
    if kind == "feat":
        return L["FeatureInterval"](list(d["interval_starts"]), list(d["interval_ends"]), S[d["strand"]],
                                    qualifiers=_copyq(d["qualifiers"]), sequence_name=d["sequence_name"],
                                    feature_types=None if d["feature_types"] is None else list(d["feature_types"]),
                                    feature_name=d["feature_name"], feature_id=d["feature_id"],
                                    is_primary_feature=d["is_primary_feature"], parent_or_seq_chunk_parent=parent)
    if kind == "var":
        vg = d.get("variant_guid_int")
        return L["VariantInterval"](d["start"], d["end"], d["sequence"], d["variant_type"], d["phase_block"],
                                    variant_guid=None if vg is None else uuid.UUID(int=vg),
                                    variant_name=d["variant_name"], variant_id=d["variant_id"],
                                    qualifiers=_copyq(d["qualifiers"]), parent_or_seq_chunk_parent=parent)
    if kind == "gene":
        return L["GeneInterval"]([build("tx", t, parent, L) for t in d["transcripts"]], gene_id=d["gene_id"],
                                 gene_symbol=d["gene_symbol"], gene_type=B[d["gene_type"]] if d["gene_type"] else None,
                                 locus_tag=d["locus_tag"], qualifiers=_copyq(d["qualifiers"]),
                                 sequence_name=d["sequence_name"], parent_or_seq_chunk_parent=parent)
    if kind == "fc":
        return L["FeatureIntervalCollection"]([build("feat", f, parent, L) for f in d["feature_intervals"]],
                                              feature_collection_name=d["feature_collection_name"],
                                              feature_collection_id=d["feature_collection_id"],
                                              feature_collection_type=d["feature_collection_type"],
                                              locus_tag=d["locus_tag"], sequence_name=d["sequence_name"],
                                              qualifiers=_copyq(d["qualifiers"]), parent_or_seq_chunk_parent=parent)
    if kind == "vc":
        return L["VariantIntervalCollection"]([build("var", v, parent, L) for v in d["variant_intervals"]],
                                              variant_collection_name=d["variant_collection_name"],
                                              variant_collection_id=d["variant_collection_id"],
                                              sequence_name=d["sequence_name"], qualifiers=_copyq(d["qualifiers"]),
                                              parent_or_seq_chunk_parent=parent)
    if kind == "ac":
        return L["AnnotationCollection"](
            feature_collections=[build("fc", f, parent, L) for f in d["feature_collections"]] or None,
            genes=[build("gene", g, parent, L) for g in d["genes"]] or None,
            variant_collections=[build("vc", v, parent, L) for v in d["variant_collections"]] or None,
            name=d["name"], id=d["id"], sequence_name=d["sequence_name"], sequence_path=d["sequence_path"],
            qualifiers=_copyq(d["qualifiers"]), start=d["start"], end=d["end"],
            completely_within=d["completely_within"], parent_or_seq_chunk_parent=parent,
            sequence_guid=(uuid.UUID(d["sequence_guid"]) if d.get("sequence_guid") else None))
    raise KeyError(kind)


# ----------------------------------------------------------------------------------------------------------
# content perturbations (GUID sensitivity) and order permutations (GUID determinism)

def leaves(kind, d):
    """the leaf intervals (kind, dict) of a description, in order"""
    if kind in ("tx", "cds", "feat", "var"):
        return [(kind, d)]
    if kind == "gene":
        return [("tx", t) for t in d["transcripts"]]
    if kind == "fc":
        return [("feat", f) for f in d["feature_intervals"]]
    if kind == "vc":
        return [("var", v) for v in d["variant_intervals"]]
    out = []
    for g in d["genes"]:
        out += leaves("gene", g)
    for f in d["feature_collections"]:
        out += leaves("fc", f)
    for v in d["variant_collections"]:
        out += leaves("vc", v)
    return out


def perturbations(kind, d, rng, limit=6):
    """list of (label, mutate(description copy) -> None) changing ONE coordinate / the strand / ONE frame of one leaf,
    keeping the description valid for the constructors (ascending non-overlapping blocks, CDS inside the exons)."""
    import copy
    out = []
    lv = leaves(kind, d)
    for li, (lk, leaf) in enumerate(lv):
        def add(label, fn, li=li):
            def apply():
                dd = copy.deepcopy(d)
                fn(leaves(kind, dd)[li][1])
                return dd
            out.append((f"{lk}{li}:{label}", apply))
        if lk == "tx":
            add("exon-end+1", lambda t: t["exon_ends"].__setitem__(-1, t["exon_ends"][-1] + 1))
            if leaf["exon_starts"][0] > 0:
                add("exon-start-1", lambda t: t["exon_starts"].__setitem__(0, t["exon_starts"][0] - 1))
            add("strand", lambda t: t.__setitem__("strand", "MINUS" if t["strand"] == "PLUS" else "PLUS"))
            if leaf["cds_frames"]:
                j = rng.randrange(len(leaf["cds_frames"]))
                add(f"frame{j}", lambda t, j=j: t["cds_frames"].__setitem__(
                    j, {"ZERO": "ONE", "ONE": "TWO", "TWO": "ZERO"}[t["cds_frames"][j]]))
                if leaf["cds_ends"][-1] - leaf["cds_starts"][-1] > 1:
                    add("cds-end-1", lambda t: t["cds_ends"].__setitem__(-1, t["cds_ends"][-1] - 1))
                if leaf["cds_ends"][0] - leaf["cds_starts"][0] > 1:
                    add("cds-start+1", lambda t: t["cds_starts"].__setitem__(0, t["cds_starts"][0] + 1))
        elif lk == "cds":
            add("end+1", lambda t: t["cds_ends"].__setitem__(-1, t["cds_ends"][-1] + 1))
            if leaf["cds_starts"][0] > 0:
                add("start-1", lambda t: t["cds_starts"].__setitem__(0, t["cds_starts"][0] - 1))
            add("strand", lambda t: t.__setitem__("strand", "MINUS" if t["strand"] == "PLUS" else "PLUS"))
            j = rng.randrange(len(leaf["cds_frames"]))
            add(f"frame{j}", lambda t, j=j: t["cds_frames"].__setitem__(
                j, {"ZERO": "ONE", "ONE": "TWO", "TWO": "ZERO"}[t["cds_frames"][j]]))
        elif lk == "feat":
            add("end+1", lambda t: t["interval_ends"].__setitem__(-1, t["interval_ends"][-1] + 1))
            if leaf["interval_starts"][0] > 0:
                add("start-1", lambda t: t["interval_starts"].__setitem__(0, t["interval_starts"][0] - 1))
            add("strand", lambda t: t.__setitem__("strand", {"PLUS": "MINUS", "MINUS": "UNSTRANDED",
                                                             "UNSTRANDED": "PLUS"}[t["strand"]]))
        elif lk == "var":
            if kind == "var" or True:
                if leaf["end"] - leaf["start"] > 1:
                    add("end-1", lambda t: t.__setitem__("end", t["end"] - 1))
                    add("start+1", lambda t: t.__setitem__("start", t["start"] + 1))
    rng.shuffle(out)
    return out[:limit]


def permute_orders(kind, d, rng):
    """a content-equal description: qualifier keys re-inserted in another order, values of every key shuffled (and one
    value duplicated), feature_types shuffled.  Children keep their order (the exported lists are ordered)."""
    import copy
    dd = copy.deepcopy(d)

    def shuffle_q(x):
        q = x.get("qualifiers")
        if q:
            keys = list(q)
            rng.shuffle(keys)
            nq = {}
            for k in keys:
                vals = list(q[k])
                rng.shuffle(vals)
                if vals and rng.random() < 0.5:
                    vals.append(vals[0])
                nq[k] = vals
            x["qualifiers"] = nq
        if x.get("feature_types"):
            ft = list(x["feature_types"])
            rng.shuffle(ft)
            x["feature_types"] = ft + ft[:1]

    def walk(k, x):
        shuffle_q(x)
        for key, ck in (("transcripts", "tx"), ("feature_intervals", "feat"), ("variant_intervals", "var"),
                        ("genes", "gene"), ("feature_collections", "fc"), ("variant_collections", "vc")):
            for c in x.get(key) or []:
                walk(ck, c)
    walk(kind, dd)
    return dd
