"""Implementation side of the CDS operations (C05; reusable for C06/C07): tokens -> real CDSInterval -> canonical answer.

CDS literal on an op line (consumed by `parse_cds`):

    <strand + - .> <F|P> <k> (<start> <end> <frame-or-phase value>){k} <sequence | _>

  * exons are given in the order they are handed to the constructor (`cds_starts`, `cds_ends`)
  * `F` = the values are CDSFrame values, `P` = CDSPhase values (-1 = NONE)
  * sequence = the chromosome sequence (alphabet NT_EXTENDED_GAPPED, sequence type `chromosome`), `_` = no parent

Window literal:  `-`  (no window)   |   `W <start|_> <end|_> <expand 0|1>`   (`_` = None)

Operations (`impl_cds_op`):
    codons <api c|k|d> CDS WIN         list of codon locations; api c = chromosome_codon_locations (no window) /
                                       scan_chromosome_codon_locations(window), k = scan_chunk_relative_codon_locations,
                                       d = the deprecated scan_codon_locations()      -> ok <n> <location>*
    numcodons CDS                      num_codons                                     -> ok <n>
    cdsseq CDS                         extract_sequence()  (fast path)                -> ok s:<letters>  (s: = a Sequence)
    cdsseqc CDS                        extract_sequence() after the codon locations were listed (cached codon path)
    scancodons CDS <trunc 0|1>         [str(c) for c in scan_codons(trunc)]           -> ok <n> <codon>*
    translate CDS <trunc> <table 0|1|11> <strict>    translate(...)                   -> ok s:<protein>
    hasstop / inframestop / canonstart CDS           has_valid_stop / has_in_frame_stop / has_canonical_start_codon
    startin CDS <table>                has_start_codon_in_specific_translation_table  -> ok true|false
    frames <location literal of impl_loc> <start frame value>   CDSInterval.construct_frames_from_location
                                                                                      -> ok <frame value>*
"""
import warnings

from harness.common import guarded
from harness.impl_loc import Toks, parse_loc, show_loc, b2s, SYM

import inscripta.biocantor  # noqa
from inscripta.biocantor.gene.cds import CDSInterval
from inscripta.biocantor.gene.cds_frame import CDSFrame, CDSPhase
from inscripta.biocantor.gene.codon import TranslationTable
from inscripta.biocantor.parent import SequenceType
from inscripta.biocantor.parent.parent import Parent
from inscripta.biocantor.sequence import Sequence
from inscripta.biocantor.sequence.alphabet import Alphabet

CHROM_ID = "chr"


def chromosome_parent(seq):
    """Parent carrying the chromosome sequence (the idiom of tests/minimal/gene/test_cds.py)."""
    return Parent(id=CHROM_ID, sequence=Sequence(seq, Alphabet.NT_EXTENDED_GAPPED, type=SequenceType.CHROMOSOME),
                  sequence_type=SequenceType.CHROMOSOME)


def parse_cds(tk, parent_fn=chromosome_parent):
    """Build the real CDSInterval (constructor errors propagate). Returns the object."""
    strand = tk.strand()
    kind = tk.next()
    k = tk.int()
    starts, ends, vals = [], [], []
    for _ in range(k):
        starts.append(tk.int())
        ends.append(tk.int())
        vals.append(tk.int())
    seq = tk.next()
    cls = CDSFrame if kind == "F" else CDSPhase
    fr = [cls(v) for v in vals]
    parent = None if seq == "_" else parent_fn(seq)
    return CDSInterval(starts, ends, strand, fr, parent_or_seq_chunk_parent=parent)


def parse_win(tk):
    w = tk.next()
    if w == "-":
        return None

    def opt():
        v = tk.next()
        return None if v == "_" else int(v)
    return (opt(), opt(), tk.bool())


def enc_cds(strand, exons, values, seq=None, kind="F"):
    """Encode a CDS literal. exons: [(s, e)], values: frame (or phase) values."""
    body = " ".join(f"{s} {e} {v}" for (s, e), v in zip(exons, values))
    return f"{strand} {kind} {len(exons)} {body} {seq if seq else '_'}"


def enc_win(win):
    if win is None:
        return "-"
    s, e, x = win
    return f"W {'_' if s is None else s} {'_' if e is None else e} {1 if x else 0}"


def show_locs(locs):
    locs = list(locs)
    return f"ok {len(locs)}" + "".join(" " + show_loc(l) for l in locs)


def show_str(s):
    """`ok s:<letters>` for a Sequence; any other type (e.g. the `str` of the former F-C10a) gets its own tag,
    which neither the model (`s:`) nor the spec driver's parser accepts."""
    if isinstance(s, Sequence):
        return "ok s:" + str(s)
    return f"ok {type(s).__name__}:{s}"


def impl_cds_op(line):
    tk = Toks(line.split())
    op = tk.next()

    def go():
        if op == "codons":
            api = tk.next()
            c = parse_cds(tk)
            win = parse_win(tk)
            if api == "d":
                with warnings.catch_warnings():
                    warnings.simplefilter("ignore")
                    return show_locs(c.scan_codon_locations())
            if win is None:
                if api == "c":
                    return show_locs(c.chromosome_codon_locations)
                return show_locs(c.scan_chunk_relative_codon_locations())
            fn = c.scan_chromosome_codon_locations if api == "c" else c.scan_chunk_relative_codon_locations
            return show_locs(fn(win[0], win[1], win[2]))
        if op == "numcodons":
            return f"ok {parse_cds(tk).num_codons}"
        if op == "cdsseq":
            return show_str(parse_cds(tk).extract_sequence())
        if op == "cdsseqc":
            c = parse_cds(tk)
            _ = c.chunk_relative_codon_locations
            return show_str(c.extract_sequence())   # must be a Sequence (repaired F-C10a); a `str` is tagged as such
        if op == "scancodons":
            c = parse_cds(tk)
            cod = [str(x) for x in c.scan_codons(tk.bool())]
            return f"ok {len(cod)}" + "".join(" " + x for x in cod)
        if op == "translate":
            c = parse_cds(tk)
            trunc, table, strict = tk.bool(), TranslationTable(tk.int()), tk.bool()
            return show_str(c.translate(truncate_at_in_frame_stop=trunc, translation_table=table, strict=strict))
        if op == "hasstop":
            return "ok " + b2s(parse_cds(tk).has_valid_stop)
        if op == "inframestop":
            return "ok " + b2s(parse_cds(tk).has_in_frame_stop)
        if op == "canonstart":
            return "ok " + b2s(parse_cds(tk).has_canonical_start_codon)
        if op == "startin":
            c = parse_cds(tk)
            return "ok " + b2s(c.has_start_codon_in_specific_translation_table(TranslationTable(tk.int())))
        if op == "frames":
            loc = parse_loc(tk)
            f = CDSFrame(tk.int())
            fr = CDSInterval.construct_frames_from_location(loc, f)
            return "ok" + "".join(f" {x.value}" for x in fr)
        raise KeyError(op)

    return guarded(go)
