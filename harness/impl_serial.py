"""Real-library side of C08 (serialised forms round-trip; identifiers are deterministic functions of content).

Value tokens (shared with lean/BioCantor/Driver/SpecDigest.lean):
  N | T | F | i <int> | s:<str> | u <32 hex> | o s:<str()> s:<repr()> | L <n> val*n | S <n> val*n | D <n> (s:<key> val)*n
  string token: `s:` + characters, everything outside [A-Za-z0-9_] as %XX (code point < 256) or %uXXXXXX.

Operations
  tokens  <nargs> val* <nkw> (s:key val)*                 list(_encode_object_for_digest(*args, **kwargs))
  tokeq   <call> | <call>                                  the two token lists
  qexport <n> (s:key <m> val*)*                            qualifier import (list -> set of str) then export
  vcollide s1 e1 s2 e2                                     do two variants differing only in coordinates share a GUID
  dictrt  <cls> <dict>                                     Cls.from_dict(d).to_dict()      (ac: export_parent=True)
  digest  <cls> <dict>                                     GUID + token stream of the top-level digest call
  obj     <kind> <parent kind> <seed> <profile>            round-trip / determinism / sensitivity clauses on one
                                                           generated object: `ok clean` | `ok viol <clauses> <facts>`
  sweep   <seed0> <count> <profile> <hashseeds>            GUIDs recomputed in subprocesses under other PYTHONHASHSEEDs
  pickleleaf <kind> <parent kind> <seed> <profile>         pickle round trip of a non-AnnotationCollection object
  dumpobj <parent kind> <seed> <profile>                   AnnotationCollectionModel.Schema().dump(<object>) -> load
"""
import hashlib
import json
import os
import pickle
import random
import subprocess
import sys
import uuid

from harness import shims

shims.install()

from harness.common import guarded, ROOT, REPO  # noqa: E402
from harness import gen_c08 as G8  # noqa: E402


# ----------------------------------------------------------------------------------------------------------
# codec

def enc_str(s):
    out = []
    for c in s:
        o = ord(c)
        if (o < 128 and c.isalnum()) or c == "_":
            out.append(c)
        elif o < 256:
            out.append("%%%02X" % o)
        else:
            out.append("%%u%06X" % o)
    return "s:" + "".join(out)


def dec_str(tok):
    assert tok.startswith("s:"), tok
    s, out, i = tok[2:], [], 0
    while i < len(s):
        if s[i] == "%":
            if s[i + 1] == "u":
                out.append(chr(int(s[i + 2:i + 8], 16)))
                i += 8
            else:
                out.append(chr(int(s[i + 1:i + 3], 16)))
                i += 3
        else:
            out.append(s[i])
            i += 1
    return "".join(out)


class Opaque:
    """an object given by its str() and repr() (enum members, locations, floats, ...)"""
    __slots__ = ("s", "r")

    def __init__(self, s, r):
        self.s, self.r = s, r

    def __str__(self):
        return self.s

    def __repr__(self):
        return self.r

    def __hash__(self):
        return hash((self.s, self.r))

    def __eq__(self, o):
        return isinstance(o, Opaque) and (self.s, self.r) == (o.s, o.r)


def enc_val(x):
    if x is None:
        return "N"
    if x is True:
        return "T"
    if x is False:
        return "F"
    if isinstance(x, int):
        return f"i {x}"
    if isinstance(x, str):
        return enc_str(x)
    if isinstance(x, uuid.UUID):
        return "u " + x.hex
    if isinstance(x, (list, tuple)):
        return " ".join([f"L {len(x)}"] + [enc_val(v) for v in x])
    if isinstance(x, (set, frozenset)):
        return " ".join([f"S {len(x)}"] + [enc_val(v) for v in x])
    if isinstance(x, dict):
        return " ".join([f"D {len(x)}"] + [enc_str(k) + " " + enc_val(v) for k, v in x.items()])
    return f"o {enc_str(str(x))} {enc_str(repr(x))}"


class Toks:
    def __init__(self, toks):
        self.t, self.i = toks, 0

    def next(self):
        x = self.t[self.i]
        self.i += 1
        return x

    def peek(self):
        return self.t[self.i]

    def int(self):
        return int(self.next())

    def str_(self):
        return dec_str(self.next())

    def val(self):
        t = self.next()
        if t == "N":
            return None
        if t == "T":
            return True
        if t == "F":
            return False
        if t == "i":
            return self.int()
        if t == "u":
            return uuid.UUID(hex=self.next())
        if t == "o":
            s = self.str_()
            return Opaque(s, self.str_())
        if t == "L":
            return [self.val() for _ in range(self.int())]
        if t == "S":
            return set(self.val() for _ in range(self.int()))
        if t == "D":
            d = {}
            for _ in range(self.int()):
                k = self.str_()
                d[k] = self.val()
            return d
        return dec_str(t)

    def call(self):
        args = [self.val() for _ in range(self.int())]
        kw = {}
        for _ in range(self.int()):
            k = self.str_()
            kw[k] = self.val()
        return args, kw


def show_strs(xs):
    return " ".join([str(len(xs))] + [enc_str(x) for x in xs])


# ----------------------------------------------------------------------------------------------------------
# library access

_LIB = {}


def lib():
    if not _LIB:
        from inscripta.biocantor.util import hashing
        from inscripta.biocantor.io import models as M
        L = G8._lib()
        L.update(hashing=hashing, M=M)
        L["CLS"] = {"tx": L["TranscriptInterval"], "cds": L["CDSInterval"], "feat": L["FeatureInterval"],
                    "var": L["VariantInterval"], "gene": L["GeneInterval"], "fc": L["FeatureIntervalCollection"],
                    "vc": L["VariantIntervalCollection"], "ac": L["AnnotationCollection"]}
        L["MODEL"] = {"tx": (M.TranscriptIntervalModel, "to_transcript_interval"),
                      "feat": (M.FeatureIntervalModel, "to_feature_interval"),
                      "var": (M.VariantIntervalModel, "to_variant_interval"),
                      "gene": (M.GeneIntervalModel, "to_gene_interval"),
                      "fc": (M.FeatureIntervalCollectionModel, "to_feature_collection"),
                      "vc": (M.VariantIntervalCollectionModel, "to_variant_interval_collection"),
                      "ac": (M.AnnotationCollectionModel, "to_annotation_collection")}
        import inscripta.biocantor.gene.transcript as m_tx
        import inscripta.biocantor.gene.cds as m_cds
        import inscripta.biocantor.gene.feature as m_feat
        import inscripta.biocantor.gene.variants as m_var
        import inscripta.biocantor.gene.gene as m_gene
        import inscripta.biocantor.gene.collections as m_ac
        L["MOD"] = {"tx": m_tx, "cds": m_cds, "feat": m_feat, "var": m_var, "gene": m_gene, "fc": m_feat,
                    "vc": m_var, "ac": m_ac}
        _LIB.update(L)
    return _LIB


class Recorder:
    """records the arguments of every `digest_object(...)` call made from one module while an object is built"""

    def __init__(self, kind):
        self.mod = lib()["MOD"][kind]
        self.calls = []

    def __enter__(self):
        self.orig = self.mod.digest_object

        def rec(*a, **k):
            self.calls.append((a, k))
            return self.orig(*a, **k)
        self.mod.digest_object = rec
        return self

    def __exit__(self, *exc):
        self.mod.digest_object = self.orig


def tokens_of(args, kw):
    return list(lib()["hashing"]._encode_object_for_digest(*args, **kw))


def md5_uuid(tokens):
    h = hashlib.md5()
    for t in tokens:
        h.update(t.encode("utf-8"))
    return uuid.UUID(h.hexdigest())


# ----------------------------------------------------------------------------------------------------------
# model-checked operations

def op_tokens(t):
    args, kw = t.call()
    return "ok " + show_strs(tokens_of(args, kw))


def op_tokeq(t):
    a, k = t.call()
    assert t.next() == "|"
    a2, k2 = t.call()
    return "ok " + show_strs(tokens_of(a, k)) + " " + show_strs(tokens_of(a2, k2))


def op_qexport(t):
    L = lib()
    q = {}
    for _ in range(t.int()):
        k = t.str_()
        q[k] = [t.val() for _ in range(t.int())]
    f = L["FeatureInterval"]([0], [1], L["Strand"].PLUS, qualifiers=q)
    out = f._export_qualifiers_to_list()
    if out is None:
        return "ok None"
    return "ok " + " ".join([str(len(out))] + [enc_str(k) + " " + show_strs(v) for k, v in out.items()])


def op_vcollide(t):
    L = lib()
    s1, e1, s2, e2 = t.int(), t.int(), t.int(), t.int()
    a = L["VariantInterval"](s1, e1, "A", "SNV")
    b = L["VariantInterval"](s2, e2, "A", "SNV")
    return "ok same" if a.guid == b.guid else "ok differ"


def op_dictrt(t):
    cls = t.next()
    d = t.val()
    o = lib()["CLS"][cls].from_dict(d)
    out = o.to_dict(export_parent=True) if cls == "ac" else o.to_dict()
    return "ok " + enc_val(out)


MODEL_NAME = {"parent": "ParentModel"}


def _model_class(cls):
    L = lib()
    if cls == "parent":
        return L["M"].ParentModel
    return L["MODEL"][cls][0]


def op_schema(t):
    import marshmallow
    cls, mode = t.next(), t.next()
    d = t.val()
    if mode == "rt":
        o = lib()["CLS"][cls].from_dict(d)
        d = o.to_dict(export_parent=True) if cls == "ac" else o.to_dict()
    try:
        _model_class(cls).Schema().load(jd(d))
    except marshmallow.ValidationError:
        return "ok reject"
    return "ok accept"


def op_schemafields(t):
    cls = t.next()
    fs = _model_class(cls).Schema().fields
    return "ok " + " ".join([str(len(fs))] + [f"{enc_str(k)} {'T' if f.required else 'F'} {'T' if f.allow_none else 'F'}"
                                              for k, f in fs.items()])


def op_digest2(t):
    t.next()
    cls = t.next()
    d1 = t.val()
    assert t.next() == "|"
    d2 = t.val()
    out = []
    for d in (d1, d2):
        with Recorder(cls) as rec:
            o = lib()["CLS"][cls].from_dict(d)
        if not rec.calls:
            return "ok no-digest-call"
        toks = tokens_of(*rec.calls[-1])
        if md5_uuid(toks) != o.guid:
            return "ok viol guid-is-not-md5-of-stream"
        out.append(o.guid.hex + " " + show_strs(toks))
    return "ok " + " | ".join(out)


def op_digest(t):
    cls = t.next()
    d = t.val()
    with Recorder(cls) as rec:
        o = lib()["CLS"][cls].from_dict(d)
    if not rec.calls:
        return "ok no-digest-call"
    args, kw = rec.calls[-1]
    toks = tokens_of(args, kw)
    if md5_uuid(toks) != o.guid:
        return "ok viol guid-is-not-md5-of-stream"
    return "ok " + o.guid.hex + " " + show_strs(toks)


# ----------------------------------------------------------------------------------------------------------
# clauses on generated objects

def jd(o):
    """through JSON text (UUIDs as their str, like marshmallow's UUID field serialises them)"""
    return json.loads(json.dumps(o, default=str))


def guid_tree(kind, x):
    """the object's GUID and those of everything below it"""
    out = [str(x.guid)]
    if kind == "tx":
        out.append(str(x.cds.guid) if x.cds else "-")
    elif kind == "gene":
        for c in x.transcripts:
            out += guid_tree("tx", c)
    elif kind == "fc":
        for c in x.feature_intervals:
            out += guid_tree("feat", c)
    elif kind == "vc":
        for c in x.variant_intervals:
            out += guid_tree("var", c)
    elif kind == "ac":
        for c in x.genes:
            out += guid_tree("gene", c)
        for c in x.feature_collections:
            out += guid_tree("fc", c)
        for c in x.variant_collections:
            out += guid_tree("vc", c)
    return out


def _seq(fn):
    try:
        return str(fn())
    except Exception as e:  # noqa
        return "!" + type(e).__name__


def seq_tree(kind, x):
    """sequences of the object and of every member, in the order of gen_c08.expected_sequences: a leaf reports its
    spliced sequence (a transcript also its CDS blocks' sequence), a collection its reference (span) sequence"""
    if kind == "tx":
        out = [_seq(x.get_spliced_sequence)]
        if x._cds_frames is not None:
            out.append(_seq(x.cds.get_spliced_sequence) if x.cds else "")
        return out
    if kind in ("cds", "feat", "var"):
        return [_seq(x.get_spliced_sequence)]
    out = [_seq(x.get_reference_sequence) if kind != "ac" else None]
    if kind == "gene":
        kids = [("tx", c) for c in x.transcripts]
    elif kind == "fc":
        kids = [("feat", c) for c in x.feature_intervals]
    elif kind == "vc":
        kids = [("var", c) for c in x.variant_intervals]
    else:
        kids = ([("gene", c) for c in x.genes] + [("fc", c) for c in x.feature_collections]
                + [("vc", c) for c in x.variant_collections])
    for k, c in kids:
        out += seq_tree(k, c)
    return out


def seq_matches(obs, exp):
    """observed member sequences against the brute-force expectation; an empty expectation (nothing inside the
    window) may be reported as an empty string or as an exception"""
    if len(obs) != len(exp):
        return False
    for o, e in zip(obs, exp):
        if e is None:
            continue
        if e == "":
            if not (o == "" or (o or "").startswith("!")):
                return False
        elif o != e:
            return False
    return True


def seq_of(x):
    """the sequence the object sees (when it has one)"""
    try:
        loc = x.chunk_relative_location
        if loc.parent is not None and loc.parent.has_ancestor_of_type("chromosome") or (
                loc.parent is not None and loc.parent.sequence is not None):
            return str(x.get_reference_sequence()) if hasattr(x, "get_reference_sequence") else None
    except Exception as e:  # noqa
        return "!" + type(e).__name__
    return None


def same_object(kind, x, y, viol, tag, with_seq=True):
    """the equality clause: ==, guid (tree), to_dict, hash, coordinates through to_dict, sequence when present"""
    try:
        if not (y == x):
            viol.append(tag + ":neq")
        if guid_tree(kind, y) != guid_tree(kind, x):
            viol.append(tag + ":guid")
        dx, dy = x.to_dict(), y.to_dict()
        if dx != dy:
            bad = sorted(k for k in set(dx) | set(dy) if dx.get(k) != dy.get(k))
            viol.append(tag + ":dict[" + "+".join(bad)[:60] + "]")
        if hash(y) != hash(x):
            viol.append(tag + ":hash")
        if with_seq and seq_of(x) != seq_of(y):
            viol.append(tag + ":sequence")
        if with_seq and seq_tree(kind, x) != seq_tree(kind, y):
            viol.append(tag + ":member-sequences")
        if kind == "ac" and with_seq and x._parent_to_dict() != y._parent_to_dict():
            viol.append(tag + ":parent-dict")
    except Exception as e:  # noqa
        viol.append(f"{tag}:compare-raises-{type(e).__name__}")


def facts_of(kind, d, ps):
    f = [f"pk={ps['kind']}"]
    if kind == "ac":
        f.append("shape=" + d["shape"])
        f.append("bounds=" + ("given" if d["start"] is not None else "none"))
        f.append("vc=" + ("1" if d["variant_collections"] else "0"))
    if kind in ("vc",):
        f.append("vc=1")
    if ps["kind"] in ("chunk", "chunkrev"):
        f.append(f"cs={ps['chunk'][0]}")
        f.append("window=" + ps["window"])
    return ";".join(f)


def clauses(kind, pk, seed, profile):
    L = lib()
    d, ps = G8.describe(kind, pk, seed, profile)
    try:
        x = G8.build(kind, d, G8.make_parent(ps), L)
    except Exception as e:  # noqa
        return f"ok skip build:{type(e).__name__}"
    viol = []
    cls = L["CLS"][kind]
    rng = random.Random(f"{kind}|{pk}|{seed}|{profile}|clauses")

    # (s) member sequences against brute-force expectations from the plain genome string
    exp = G8.expected_sequences(kind, d, ps)
    try:
        obs = seq_tree(kind, x)
        if not seq_matches(obs, exp):
            viol.append("s:sequences-differ-from-genome")
    except Exception as e:  # noqa
        viol.append(f"s:raises-{type(e).__name__}")
        obs = None

    def check_seq(y, tag):
        try:
            if not seq_matches(seq_tree(kind, y), exp):
                viol.append(tag + ":sequences-differ-from-genome")
        except Exception as e:  # noqa
            viol.append(f"{tag}:sequences-raise-{type(e).__name__}")

    # (a) to_dict -> from_dict (same parent handed in)
    dd = None
    try:
        dd = x.to_dict()
    except Exception as e:  # noqa
        viol.append(f"a:to_dict-raises-{type(e).__name__}")
    if dd is not None:
        try:
            y = cls.from_dict(dd, G8.make_parent(ps))
            same_object(kind, x, y, viol, "a")
            # the dictionary without identifiers rebuilds the same identifiers (GUIDs are functions of content)
            y2 = cls.from_dict(strip_guids(kind, dd), G8.make_parent(ps))
            if guid_tree(kind, y2) != guid_tree(kind, x):
                viol.append("a:guid-not-recomputed-from-content")
        except Exception as e:  # noqa
            viol.append(f"a:from_dict-raises-{type(e).__name__}")
        # (a') through JSON text
        try:
            y = cls.from_dict(revive(kind, jd(dd)), G8.make_parent(ps))
            same_object(kind, x, y, viol, "aj")
        except Exception as e:  # noqa
            viol.append(f"aj:raises-{type(e).__name__}")
    # (a2) collection with its parent exported into the dictionary
    if kind == "ac" and dd is not None:
        try:
            de = x.to_dict(export_parent=True)
            y = cls.from_dict(de)
            same_object(kind, x, y, viol, "a2")
            check_seq(y, "a2")
            y = cls.from_dict(revive(kind, jd(de)))
            same_object(kind, x, y, viol, "a2j")
        except Exception as e:  # noqa
            viol.append(f"a2:raises-{type(e).__name__}")
    # (b) data model: Schema().load(json(to_dict)) -> to_*() ; Schema().dump(model) -> json -> load
    if kind in L["MODEL"] and dd is not None:
        M, conv = L["MODEL"][kind]
        try:
            m = M.Schema().load(jd(dd))
            y = getattr(m, conv)(G8.make_parent(ps))
            same_object(kind, x, y, viol, "b")
            dumped = jd(M.Schema().dump(m))
            m2 = M.Schema().load(dumped)
            if m2 != m:
                viol.append("b:dump-load-model-differs")
            y = getattr(m2, conv)(G8.make_parent(ps))
            same_object(kind, x, y, viol, "b2")
        except Exception as e:  # noqa
            viol.append(f"b:raises-{type(e).__name__}")
        if kind == "ac":
            # the supported export path with the parent: from_annotation_collection(export_parent=True)
            try:
                m = M.from_annotation_collection(x, export_parent=True)
                m2 = M.Schema().load(jd(M.Schema().dump(m)))
                y = m2.to_annotation_collection()
                same_object(kind, x, y, viol, "b3")
                check_seq(y, "b3")
            except Exception as e:  # noqa
                viol.append(f"b3:raises-{type(e).__name__}")
    # (c) pickle (AnnotationCollection.__getstate__/__setstate__)
    if kind == "ac":
        try:
            y = pickle.loads(pickle.dumps(x))
            same_object(kind, x, y, viol, "c")
            check_seq(y, "c")
        except Exception as e:  # noqa
            viol.append(f"c:raises-{type(e).__name__}")
    # (d) insertion orders (in-process part of the determinism clause)
    try:
        for rep in range(2):
            d2 = G8.permute_orders(kind, d, rng)
            y = G8.build(kind, d2, G8.make_parent(ps), L)
            if guid_tree(kind, y) != guid_tree(kind, x):
                viol.append("d:guid-depends-on-insertion-order")
                break
            if dd is not None and y.to_dict() != dd:
                viol.append("d:to_dict-depends-on-insertion-order")
                break
    except Exception as e:  # noqa
        viol.append(f"d:raises-{type(e).__name__}")
    # (e) sensitivity: one coordinate / the strand / one frame changed => another GUID (of the leaf and of everything above)
    for label, ap in G8.perturbations(kind, d, rng):
        try:
            z = G8.build(kind, ap(), G8.make_parent(ps), L)
        except Exception:  # noqa
            continue                      # the perturbed description is refused (e.g. leaves the chromosome)
        if z.guid == x.guid:
            viol.append("e:same-guid-after-" + label.split(":", 1)[1])
    # (g) the same content seen through a chunk parent and through the chromosome parent
    if pk == "chunk" and kind != "ac":
        try:
            w = G8.build(kind, d, G8.make_parent(dict(ps, kind="chrom")), L)
            if w.guid != x.guid:
                viol.append("g:guid-differs-between-chunk-and-chromosome-parent")
        except Exception as e:  # noqa
            viol.append(f"g:raises-{type(e).__name__}")
    if not viol:
        return "ok clean"
    return "ok viol " + ",".join(dict.fromkeys(viol)) + " " + facts_of(kind, d, ps)


GUID_KEYS = {"transcript_interval_guid", "feature_interval_guid", "gene_guid", "feature_collection_guid",
             "variant_collection_guid", "variant_interval_guid"}
UUID_KEYS = GUID_KEYS | {"transcript_guid", "feature_guid", "variant_guid", "sequence_guid"}


def strip_guids(kind, d):
    """a copy of a to_dict() dictionary with every content-derived identifier removed (set to None)"""
    if isinstance(d, dict):
        return {k: (None if k in GUID_KEYS else strip_guids(kind, v)) for k, v in d.items()}
    if isinstance(d, list):
        return [strip_guids(kind, v) for v in d]
    return d


def revive(kind, d):
    """JSON text has no UUID type: turn the identifier strings back into UUIDs (what the schema's UUID fields do)"""
    if isinstance(d, dict):
        return {k: (uuid.UUID(v) if (k in UUID_KEYS and isinstance(v, str)) else revive(kind, v)) for k, v in d.items()}
    if isinstance(d, list):
        return [revive(kind, v) for v in d]
    return d


def op_obj(t):
    return clauses(t.next(), t.next(), t.int(), t.next())


def op_pickleleaf(t):
    kind, pk, seed, profile = t.next(), t.next(), t.int(), t.next()
    d, ps = G8.describe(kind, pk, seed, profile)
    try:
        x = G8.build(kind, d, G8.make_parent(ps), lib())
    except Exception as e:  # noqa
        return f"ok skip build:{type(e).__name__}"
    try:
        _ = x.to_dict(), hash(x)
        y = pickle.loads(pickle.dumps(x))
    except Exception as e:  # noqa
        return f"ok viol c:pickle-raises-{type(e).__name__} pk={pk}"
    viol = []
    same_object(kind, x, y, viol, "c")
    return "ok clean" if not viol else "ok viol " + ",".join(viol) + f" pk={pk}"


def op_dumpobj(t):
    pk, seed, profile = t.next(), t.int(), t.next()
    d, ps = G8.describe("ac", pk, seed, profile)
    M = lib()["M"].AnnotationCollectionModel
    try:
        x = G8.build("ac", d, G8.make_parent(ps), lib())
        x.to_dict()
    except Exception as e:  # noqa
        return f"ok skip build:{type(e).__name__}"
    try:
        dumped = jd(M.Schema().dump(x))
        y = M.Schema().load(dumped).to_annotation_collection()
    except Exception as e:  # noqa
        return f"ok viol b4:dump-of-object-cannot-be-loaded-{type(e).__name__} {facts_of('ac', d, ps)}"
    viol = []
    same_object("ac", x, y, viol, "b4")
    return "ok clean" if not viol else "ok viol " + ",".join(viol) + " " + facts_of("ac", d, ps)


# ----------------------------------------------------------------------------------------------------------
# export independence: exports share nothing mutable, are not changed by editing an earlier export, and follow the
# object's current state

INDEP_PATHS = ["dict", "dictrel", "state", "model", "pickle", "guid"]


def export_fn(path, kind):
    """-> function object -> plain exported structure (or None when the path does not exist for the class)"""
    L = lib()
    if path == "dict":
        return lambda x: x.to_dict()
    if path == "dictrel":
        return lambda x: x.to_dict(chromosome_relative_coordinates=False)
    if path == "state":
        return (lambda x: x.__getstate__()) if kind == "ac" else None
    if path == "model":
        if kind not in L["MODEL"]:
            return None
        M = L["MODEL"][kind][0]
        return lambda x: M.Schema().dump(M.Schema().load(x.to_dict()))
    if path == "pickle":
        return (lambda x: pickle.loads(pickle.dumps(x)).to_dict(export_parent=True)) if kind == "ac" else None
    if path == "guid":
        return lambda x: guid_tree(kind, x)
    raise KeyError(path)


def containers(v, key="", out=None):
    """id -> last dictionary key on the way, of every mutable container (dict / list / set) in an exported structure"""
    out = {} if out is None else out
    if isinstance(v, dict):
        out[id(v)] = key
        for k, x in v.items():
            containers(x, str(k), out)
    elif isinstance(v, (list, set)):
        out[id(v)] = key
        for x in v:
            containers(x, key, out)
    elif isinstance(v, tuple):
        for x in v:
            containers(x, key, out)
    return out


def deep_mutate(v):
    """edit an exported structure in place as a caller might: a value appended to every list, a key added to every
    dict, scalars replaced"""
    def scalar(x):
        if x is None:
            return "edited"
        if isinstance(x, bool):
            return not x
        if isinstance(x, int):
            return x + 1
        if isinstance(x, str):
            return x + "~"
        if isinstance(x, uuid.UUID):
            return uuid.UUID(int=(x.int + 1) % (1 << 128))
        return x
    if isinstance(v, dict):
        for k in list(v):
            if isinstance(v[k], (dict, list, set)):
                deep_mutate(v[k])
            else:
                v[k] = scalar(v[k])
        v["__edited__"] = ["x"]
    elif isinstance(v, list):
        for i, x in enumerate(v):
            if isinstance(x, (dict, list, set)):
                deep_mutate(x)
            else:
                v[i] = scalar(x)
        v.append("edited" if not v or isinstance(v[0], str) else 99991)
    elif isinstance(v, set):
        v.add("edited")


def diff_keys(a, b, key="", out=None):
    """last dictionary keys under which two exported structures differ"""
    out = set() if out is None else out
    if isinstance(a, dict) and isinstance(b, dict):
        for k in set(a) | set(b):
            if k not in a or k not in b:
                out.add(str(k))
            else:
                diff_keys(a[k], b[k], str(k), out)
    elif isinstance(a, (list, tuple)) and isinstance(b, (list, tuple)):
        if len(a) != len(b):
            out.add(key)
        else:
            for x, y in zip(a, b):
                diff_keys(x, y, key, out)
    elif a != b:
        out.add(key)
    return out


def digest_of(v):
    return hashlib.md5(enc_val(jd(v)).encode("utf-8", "surrogatepass")).hexdigest()[:16]


def blank_guids(v):
    """content identifiers are fixed at construction (documented); they are not part of the `current state` clause"""
    if isinstance(v, dict):
        return {k: (None if k in GUID_KEYS else blank_guids(x)) for k, x in v.items()}
    if isinstance(v, (list, tuple)):
        return [blank_guids(x) for x in v]
    return v


def mutate_quals_object(kind, x):
    """the public mutable input: obj.qualifiers (dict of sets) of the object and of its first leaf"""
    targets = [x]
    for attr in ("transcripts", "feature_intervals", "variant_intervals", "genes", "feature_collections",
                 "variant_collections"):
        kids = getattr(x, attr, None)
        if kids:
            targets.append(kids[0])
            break
    for t in targets:
        if t.qualifiers:
            k = sorted(t.qualifiers, key=str)[0]
            t.qualifiers[k].add("zz-added")
        else:
            t.qualifiers["zzkey"] = {"zz-added"}


def mutate_quals_description(kind, d):
    import copy
    d = copy.deepcopy(d)
    targets = [d]
    for key in ("transcripts", "feature_intervals", "variant_intervals", "genes", "feature_collections",
                "variant_collections"):
        kids = d.get(key)
        if kids:
            if key == "variant_intervals":
                kids = sorted(kids, key=lambda v: v["start"])     # the constructor orders variants by start
            targets.append(kids[0])
            break
    for t in targets:
        q = t.get("qualifiers")
        if q:
            k = sorted(q, key=str)[0]
            q[k] = list(q[k]) + ["zz-added"]
        else:
            t["qualifiers"] = {"zzkey": ["zz-added"]}
    return d


def op_indep(t):
    import copy
    path, kind, pk, seed, profile = t.next(), t.next(), t.next(), t.int(), t.next()
    L = lib()
    fn = export_fn(path, kind)
    if fn is None:
        return "ok skip no-such-path"
    d, ps = G8.describe(kind, pk, seed, profile)

    def fresh(desc=d):
        return G8.build(kind, desc, G8.make_parent(ps), L)
    try:
        x = fresh()
        e1 = fn(x)
    except Exception as e:  # noqa
        return f"ok skip {type(e).__name__}"
    # (i) two exports of one object share no mutable container
    e2 = fn(x)
    c1, c2 = containers(e1), containers(e2)
    shared = sorted({c1[i] for i in c1 if i in c2})
    # (ii) editing an earlier export does not change a later one
    x = fresh()
    g_before = guid_tree(kind, x)
    e1 = fn(x)
    keep = copy.deepcopy(e1)
    deep_mutate(e1)
    try:
        e2 = fn(x)
    except Exception as e:  # noqa
        e2 = ["raised", type(e).__name__]
    try:
        g_after = guid_tree(kind, x)
    except Exception as e:  # noqa
        g_after = ["raised", type(e).__name__]
    twin = fresh()
    e_twin = fn(twin)
    g_twin = guid_tree(kind, twin)
    changed = sorted(diff_keys(keep, e2) | diff_keys(e_twin, e2))
    # (iii) a later export follows the object's current state (qualifiers are a public mutable attribute)
    if path == "guid":
        cur = expect = None
        stale = []
    else:
        x = fresh()
        fn(x)
        mutate_quals_object(kind, x)
        try:
            cur = blank_guids(fn(x))
        except Exception as e:  # noqa
            cur = ["raised", type(e).__name__]
        expect = blank_guids(fn(fresh(mutate_quals_description(kind, d))))
        stale = sorted(diff_keys(expect, cur))
    return " ".join(["ok", f"shared {len(shared)}"] + [enc_str(k) for k in shared]
                    + [f"changed {len(changed)}"] + [enc_str(k) for k in changed]
                    + [f"stale {len(stale)}"] + [enc_str(k) for k in stale]
                    + ["exports", digest_of(keep), digest_of(e2), digest_of(e_twin),
                       "guids", digest_of(g_before), digest_of(g_after), digest_of(g_twin),
                       "state", digest_of(cur), digest_of(expect)])


# ----------------------------------------------------------------------------------------------------------
# PYTHONHASHSEED sweep

def sweep_items(seed0, count, profile):
    return [(k, pk, s, profile) for k in G8.KINDS for pk in ("none", "chunk") for s in range(seed0, seed0 + count)]


def sweep_compute(items):
    """for every item: GUID tree of the object and of a re-ordered twin + the token stream of the top-level digest"""
    L = lib()
    out = []
    for kind, pk, seed, profile in items:
        d, ps = G8.describe(kind, pk, seed, profile)
        try:
            with Recorder(kind) as rec:
                x = G8.build(kind, d, G8.make_parent(ps), L)
            toks = tokens_of(*rec.calls[-1]) if rec.calls else []
            d2 = G8.permute_orders(kind, d, random.Random(f"sweep|{kind}|{pk}|{seed}|{profile}"))
            y = G8.build(kind, d2, G8.make_parent(ps), L)
            out.append([guid_tree(kind, x), guid_tree(kind, y), toks])
        except Exception as e:  # noqa
            out.append(["!" + type(e).__name__])
    return out


def op_sweep(t):
    seed0, count, profile, hashseeds = t.int(), t.int(), t.next(), t.next()
    items = sweep_items(seed0, count, profile)
    here = sweep_compute(items)
    viol = []
    for it, h in zip(items, here):
        if len(h) == 3 and h[0] != h[1]:
            viol.append("d:guid-depends-on-insertion-order:%s:%s:%d" % it[:3])
    base_env = dict(os.environ)
    base_env["PYTHONPATH"] = ROOT + os.pathsep + REPO

    def run_one(hs):
        env = dict(base_env)
        env["PYTHONHASHSEED"] = hs
        return hs, subprocess.run([sys.executable, "-m", "harness.impl_serial", "--sweep-worker"], cwd=ROOT, env=env,
                                  input=json.dumps(items), stdout=subprocess.PIPE, stderr=subprocess.PIPE, text=True,
                                  timeout=1800)
    from concurrent.futures import ThreadPoolExecutor
    with ThreadPoolExecutor(max_workers=8) as ex:
        results = list(ex.map(run_one, hashseeds.split(",")))
    for hs, p in results:
        if p.returncode != 0:
            return "err! SweepWorker " + enc_str(p.stderr[-300:])
        there = json.loads(p.stdout.strip().splitlines()[-1])
        for it, h, o in zip(items, here, there):
            if h != o:
                what = "tokens" if (len(h) == 3 and len(o) == 3 and h[:2] == o[:2]) else "guid"
                viol.append(f"d:{what}-depends-on-PYTHONHASHSEED={hs}:%s:%s:%d" % it[:3])
    if not viol:
        return "ok clean"
    return "ok viol " + ",".join(viol[:6]) + f" n={len(viol)}"


OPS = {"tokens": op_tokens, "tokeq": op_tokeq, "qexport": op_qexport, "vcollide": op_vcollide, "dictrt": op_dictrt,
       "digest": op_digest, "digest2": op_digest2, "schema": op_schema, "schemafields": op_schemafields, "obj": op_obj, "indep": op_indep, "sweep": op_sweep, "pickleleaf": op_pickleleaf, "dumpobj": op_dumpobj}


def impl_serial_op(line):
    toks = line.split()
    return guarded(lambda: OPS[toks[0]](Toks(toks[1:])))


if __name__ == "__main__":
    if "--sweep-worker" in sys.argv:
        items = [tuple(x) for x in json.loads(sys.stdin.read())]
        print(json.dumps(sweep_compute(items)))
    else:
        for ln in sys.stdin:
            ln = ln.strip()
            if ln:
                print(impl_serial_op(ln))
