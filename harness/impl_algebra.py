"""Implementation side of the C02 operations: tokens -> real BioCantor objects (with real Parent / Sequence
objects) -> canonical answer.  Protocol: see lean/BioCantor/Driver/Algebra.lean."""
from harness.common import guarded
from harness.impl_loc import Toks, parse_loc, show_loc, b2s, RSYM

import inscripta.biocantor  # noqa
from inscripta.biocantor import DistanceType
from inscripta.biocantor.location.location_impl import SingleInterval, CompoundInterval, EmptyLocation
from inscripta.biocantor.parent import Parent
from inscripta.biocantor.sequence import Sequence
from inscripta.biocantor.sequence.alphabet import Alphabet

DIST = {"inner": DistanceType.INNER, "outer": DistanceType.OUTER, "starts": DistanceType.STARTS,
        "ends": DistanceType.ENDS}


def _opt(tok):
    return None if tok == "_" else tok


def parse_parent(tk):
    """`P n (id type seq){n}` -> Parent chain (first = the parent itself) or None."""
    assert tk.next() == "P"
    n = tk.int()
    chain = [(_opt(tk.next()), _opt(tk.next()), _opt(tk.next())) for _ in range(n)]
    par = None
    for (pid, ty, seq) in reversed(chain):
        sequence = Sequence(seq, Alphabet.NT_STRICT) if seq is not None else None
        par = Parent(id=pid, sequence_type=ty, sequence=sequence, parent=par)
    return par


def show_parent(par):
    chain = []
    while par is not None:
        ty = par.sequence_type
        ty = getattr(ty, "value", ty)
        chain.append(f"{par.id if par.id is not None else '_'} {ty if ty is not None else '_'} "
                     f"{str(par.sequence) if par.sequence is not None else '_'}")
        par = par.parent
    return " ".join([f"P {len(chain)}"] + chain)


def parse_ploc(tk):
    par = parse_parent(tk)
    return parse_loc(tk, parent=par)


def show_ploc(loc):
    return show_loc(loc) + " " + show_parent(loc.parent)


def enc_parent(chain):
    """chain: list of (id, type, seq) with None for missing."""
    f = lambda x: "_" if x is None else x  # noqa
    return " ".join([f"P {len(chain)}"] + [f"{f(i)} {f(t)} {f(s)}" for i, t, s in chain])


RELAXED_MARK = " @x"


def _relaxed_first(a, b):
    """` @x` twins: before the line's own question the caller asks the RELAXED parent comparison of the same two
    operands (`strict_parent_compare=False`, both operand orders; answers and refusals discarded).  What a relaxed
    comparison let through must not be waved through a strict one afterwards."""
    for x, y in ((a, b), (b, a)):
        for q in ("has_overlap", "intersection"):
            try:
                getattr(x, q)(y, match_strand=False, strict_parent_compare=False)
            except Exception:  # noqa
                pass


def impl_algebra_op(line):
    relaxed = line.endswith(RELAXED_MARK)
    if relaxed:
        line = line[:-len(RELAXED_MARK)]
    tk = Toks(line.split())
    op = tk.next()

    def go():
        if op == "mk":
            return "ok " + show_ploc(parse_ploc(tk))
        if op in ("overlap", "isect", "contains"):
            a = parse_ploc(tk)
            b = parse_ploc(tk)
            if relaxed:
                _relaxed_first(a, b)
            ms, fs, st = tk.bool(), tk.bool(), tk.bool()
            if op == "overlap":
                return "ok " + b2s(a.has_overlap(b, match_strand=ms, full_span=fs, strict_parent_compare=st))
            if op == "contains":
                return "ok " + b2s(a.contains(b, match_strand=ms, full_span=fs, strict_parent_compare=st))
            return "ok " + show_ploc(a.intersection(b, match_strand=ms, full_span=fs, strict_parent_compare=st))
        if op == "union":
            a = parse_ploc(tk)
            b = parse_ploc(tk)
            if relaxed:
                _relaxed_first(a, b)
            return "ok " + show_ploc(a.union(b))
        if op == "unionpo":
            a = parse_ploc(tk)
            b = parse_ploc(tk)
            if relaxed:
                _relaxed_first(a, b)
            return "ok " + show_ploc(a.union_preserve_overlaps(b))
        if op == "minus":
            a = parse_ploc(tk)
            b = parse_ploc(tk)
            if relaxed:
                _relaxed_first(a, b)
            ms, st = tk.bool(), tk.bool()
            return "ok " + show_ploc(a.minus(b, match_strand=ms, strict_parent_compare=st))
        if op == "gaplist":
            a = parse_ploc(tk)
            gaps = a.gap_list()
            for g in gaps:
                if type(g) is not SingleInterval:
                    raise AssertionError("gap is not a SingleInterval")
            return " ".join([f"ok {len(gaps)}"] + [f"{RSYM[g.strand]} {g.start} {g.end}" for g in gaps])
        if op == "gaps":
            return "ok " + show_ploc(parse_ploc(tk).gaps_location())
        if op == "optimize":
            return "ok " + show_ploc(parse_ploc(tk).optimize_blocks())
        if op == "optcombine":
            a = parse_ploc(tk)
            if not hasattr(a, "optimize_and_combine_blocks"):
                return "err UnsupportedOperation"
            return "ok " + show_ploc(a.optimize_and_combine_blocks())
        if op == "mergeov":
            return "ok " + show_ploc(parse_ploc(tk).merge_overlapping())
        if op == "extabs":
            a = parse_ploc(tk)
            es, ee = tk.int(), tk.int()
            return "ok " + show_ploc(a.extend_absolute(es, ee))
        if op == "extrel":
            a = parse_ploc(tk)
            up, down = tk.int(), tk.int()
            return "ok " + show_ploc(a.extend_relative(up, down))
        if op == "dist":
            a = parse_ploc(tk)
            b = parse_ploc(tk)
            ty = DIST[tk.next()]
            return f"ok {a.distance_to(b, ty)}"
        if op == "eqhash":
            a = parse_ploc(tk)
            b = parse_ploc(tk)
            e = a == b
            if e != (b == a) or (a != b) == e:
                raise AssertionError("__eq__ not symmetric / __ne__ inconsistent")
            return f"ok {b2s(e)} {b2s((not e) or hash(a) == hash(b))}"
        if op == "reverse":
            return "ok " + show_ploc(parse_ploc(tk).reverse())
        if op == "revstrand":
            return "ok " + show_ploc(parse_ploc(tk).reverse_strand())
        if op == "resetstrand":
            a = parse_ploc(tk)
            return "ok " + show_ploc(a.reset_strand(tk.strand()))
        if op == "shift":
            a = parse_ploc(tk)
            return "ok " + show_ploc(a.shift_position(tk.int()))
        raise KeyError(op)

    return guarded(go)
