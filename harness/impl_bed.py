"""Implementation side of C14: tokens -> real TranscriptInterval / FeatureInterval -> str(to_bed12(...))."""
from harness import shims

shims.install()

from harness.common import guarded  # noqa: E402
from harness.impl_loc import Toks, SYM  # noqa: E402
from inscripta.biocantor.gene.transcript import TranscriptInterval  # noqa: E402
from inscripta.biocantor.gene.feature import FeatureInterval  # noqa: E402
from inscripta.biocantor.gene.cds_frame import CDSFrame  # noqa: E402
from inscripta.biocantor.io.bed import RGB  # noqa: E402
from inscripta.biocantor.io.parser import seq_chunk_to_parent, seq_to_parent  # noqa: E402

_GENOME_CACHE = {}


def genome(n):
    """deterministic pseudo-random ACGT of length n (sequence content is irrelevant to BED)"""
    g = _GENOME_CACHE.get(n)
    if g is None:
        x, out = 12345, []
        for _ in range(n):
            x = (x * 1103515245 + 12345) % (1 << 31)
            out.append("ACGT"[(x >> 16) & 3])
        g = _GENOME_CACHE[n] = "".join(out)
    return g


VIS_SPACE = "\u2420"      # a space inside a name travels through the space-separated line protocol as this symbol


def opt(tok):
    return None if tok == "~" else tok.replace(VIS_SPACE, " ")


def blocks(tk):
    k = tk.int()
    s, e = [], []
    for _ in range(k):
        s.append(tk.int())
        e.append(tk.int())
    return s, e


def make_parent(kind, tk, hi, seq_name):
    if kind == "N":
        return None
    if kind == "W":
        return seq_to_parent(genome(hi + 10), seq_id=seq_name)
    cs, ce = tk.int(), tk.int()
    return seq_chunk_to_parent(genome(max(hi, ce) + 10)[cs:ce], seq_name or "chrom", cs, ce)


def impl_bed_op(line):
    tk = Toks(line.split())
    op = tk.next()

    def go():
        if op != "bed12":
            raise KeyError(op)
        kind = tk.next()
        st = tk.strand()
        es, ee = blocks(tk)
        cs, ce = blocks(tk)
        seq_name, symbol, ident = opt(tk.next()), opt(tk.next()), opt(tk.next())
        sel = tk.next()
        score, r, g, b = tk.int(), tk.int(), tk.int(), tk.int()
        chrom_rel = tk.next() == "chrom"
        parent = make_parent(tk.next(), tk, max(ee + [0]), seq_name)
        def selector(default_sym, default_id):
            if sel.startswith("attr:"):
                return sel[5:]                 # the name of another attribute of the record (getattr resolves it)
            return {"sym": default_sym, "id": default_id}.get(sel, sel[4:].replace(VIS_SPACE, " "))

        if kind == "T":
            kw = {}
            if cs:
                # the frames are not part of BED12: any frame vector must give the same record (5'-partial CDSs included)
                f0 = (cs[0] + ce[-1]) % 3
                kw = dict(cds_starts=cs, cds_ends=ce, cds_frames=[CDSFrame((f0 + i) % 3) for i in range(len(cs))])
            iv = TranscriptInterval(es, ee, st, transcript_symbol=symbol, transcript_id=ident,
                                    sequence_name=seq_name, parent_or_seq_chunk_parent=parent, **kw)
            name = selector("transcript_symbol", "transcript_id")
        else:
            iv = FeatureInterval(es, ee, st, feature_name=symbol, feature_id=ident, sequence_name=seq_name,
                                 parent_or_seq_chunk_parent=parent)
            name = selector("feature_name", "feature_id")
        # call history: on every other line the SAME object is first exported in the other coordinate mode (and once
        # more in the requested one); the record must not depend on what was exported before
        import zlib
        if zlib.crc32(line.encode()) % 2 == 1:
            for pre in (not chrom_rel, chrom_rel):
                try:
                    iv.to_bed12(score=score, rgb=RGB(r, g, b), name=name, chromosome_relative_coordinates=pre)
                except Exception:  # noqa: the other mode may legitimately be refused (no chunk ancestor)
                    pass
        bed = iv.to_bed12(score=score, rgb=RGB(r, g, b), name=name, chromosome_relative_coordinates=chrom_rel)
        s = str(bed).replace(" ", VIS_SPACE)
        if " " in s or "\n" in s:
            raise AssertionError("answer not a single token")
        return "ok " + s

    return guarded(go)
