"""Generator of annotation collections as PLAIN DATA + builder of the real BioCantor objects.

Shared by the export/round-trip properties (C11 GFF3; intended for reuse by C12 GenBank, C17 feature table,
C08 serialised forms, C09 collection queries).

Plain data
----------
A collection is a `dict` in the library's own dictionary vocabulary (the keys of `AnnotationCollectionModel` /
`AnnotationCollection.to_dict()`), holding only str / int / list / dict / None:

    {"sequence_name": "chr1", "name": None,
     "genes": [ {"gene_id", "gene_symbol", "gene_type" (Biotype NAME or None), "locus_tag", "qualifiers"
                 ({key: [values]} or None), "sequence_name",
                 "transcripts": [ {"exon_starts", "exon_ends", "strand" ("PLUS"/"MINUS"),
                                   "cds_starts", "cds_ends", "cds_frames" (CDSFrame NAMES; all three None when
                                   non-coding), "qualifiers", "is_primary_tx", "transcript_id",
                                   "transcript_symbol", "transcript_type", "protein_id", "product",
                                   "sequence_name"} ]} ],
     "feature_collections": [ {"feature_collection_name", "feature_collection_id", "feature_collection_type",
                               "locus_tag", "qualifiers", "sequence_name",
                               "feature_intervals": [ {"interval_starts", "interval_ends", "strand",
                                                       "qualifiers", "feature_id", "feature_name",
                                                       "feature_types" (list), "sequence_name",
                                                       "is_primary_feature"} ]} ]}

Coordinates are 0-based half-open chromosome coordinates; block lists are ascending, non-empty blocks,
non-overlapping (0-bp gaps = adjacent blocks are generated on purpose).  CDS blocks are the exon blocks clipped to
a coding range; `cds_frames` are the frames implied by a start frame (0/1/2 = "frame offset"), optionally with one
programmed frameshift.

Everything is drawn from the `random.Random` instance handed in, so a collection is a function of (seed, params)
and a failing case replays from one op line (`collection_from_seed`).

Real objects
------------
`build(coll, parent=...)` returns the `AnnotationCollection` (constructed through the public constructors
`AnnotationCollection.from_dict`, no marshmallow involved); `make_parent(kind, ...)` builds the three parent
situations the library distinguishes: no parent, whole chromosome with sequence, sequence chunk `[cs, ce)`.
The caller must have run `harness.shims.install()` before importing this module's builder functions if it also
imports `inscripta.biocantor.io.*` (the builder itself only needs the `gene` package, but `io.parser` is imported
for `seq_to_parent` / `seq_chunk_to_parent`).
"""
import copy
import random

# ------------------------------------------------------------------------------------------------------
# vocabulary

#: the 14-letter adversarial alphabet of the GFF3/GenBank/TBL qualifier legs (DESIGN 2.5)
ADVERSARIAL_ALPHABET = [";", "=", "%", ",", "\t", "\n", "\r", " ", ">", "&", '"', "'", "é", "a"]
#: extra non-ASCII / mixed-case letters used in longer random strings (no cased non-ASCII letter: Python's
#: unicode lower-casing of keys is outside the Lean model, which lower-cases ASCII only)
EXTRA_LETTERS = ["b", "Z", "Q", "0", "7", "_", "-", ".", ":", "|", "中", "λ", "\U0001F600", "ß", "~", "+", "/"]

BIOTYPES_CODING = ["protein_coding"]
BIOTYPES_NONCODING = ["lncRNA", "ncRNA", "tRNA", "rRNA", "pseudogene", "miRNA", "snoRNA", "misc_RNA"]

FRAME_NAMES = ["ZERO", "ONE", "TWO"]


def adversarial_string(rng, max_len=6, alphabet=None, min_len=1, exclude=""):
    """A string over the adversarial alphabet (+ a few plain/non-ASCII letters), `exclude` letters removed."""
    letters = [c for c in (alphabet or (ADVERSARIAL_ALPHABET + EXTRA_LETTERS)) if c not in exclude]
    n = rng.randint(min_len, max_len)
    return "".join(rng.choice(letters) for _ in range(n))


def plain_string(rng, prefix="", max_len=5):
    return prefix + "".join(rng.choice("abcdXYZ019_") for _ in range(rng.randint(1, max_len)))


def gen_qualifiers(rng, style="plain", max_keys=3, exclude_values="", key_pool=None):
    """`{key: [values]}` or None.

    style  "none"    -> None
           "plain"   -> identifier-like keys and values
           "adv"     -> adversarial VALUES (keys plain, lower case)
           "advkey"  -> adversarial KEYS and values
    `exclude_values` removes letters from the value (and adversarial key) alphabet (the GFF3 re-parse leg
    excludes `,` and `"`).
    Keys never collide after ASCII lower-casing (GFF3 export lower-cases keys), never start with an upper-case
    letter unless taken from `key_pool`.
    """
    if style == "none":
        return None
    n = rng.randint(0, max_keys)
    out = {}
    seen = set()
    for _ in range(n):
        if key_pool and rng.random() < 0.3:
            k = rng.choice(key_pool)
        elif style == "advkey":
            k = adversarial_string(rng, 4, exclude=exclude_values)
        else:
            k = plain_string(rng, "q").lower()
        if k.lower() in seen:
            continue
        seen.add(k.lower())
        nv = rng.choice([1, 1, 1, 2, 3])
        vals = []
        for _ in range(nv):
            if style in ("adv", "advkey"):
                v = adversarial_string(rng, 5, exclude=exclude_values)
            else:
                v = plain_string(rng, "v")
            if v not in vals:
                vals.append(v)
        out[k] = vals
    return out or None


# ------------------------------------------------------------------------------------------------------
# layouts and reading frames

def gen_blocks(rng, lo, hi, max_blocks=4, p_adjacent=0.3):
    """Ascending non-empty non-overlapping blocks inside [lo, hi); adjacent blocks (0-bp gap) with prob."""
    k = rng.randint(1, max_blocks)
    span = hi - lo
    k = max(1, min(k, span // 2))
    # choose 2k cut points, then optionally close gaps
    pts = sorted(rng.sample(range(lo, hi + 1), 2 * k)) if span + 1 >= 2 * k else [lo, hi]
    blocks = [(pts[2 * i], pts[2 * i + 1]) for i in range(len(pts) // 2)]
    out = []
    for (s, e) in blocks:
        if out and rng.random() < p_adjacent:
            s = out[-1][1]          # 0-bp gap: starts where the previous block ends
        if s < e:
            out.append((s, e))
    return out or [(lo, hi)]


def clip_blocks(blocks, a, b):
    return [(max(s, a), min(e, b)) for s, e in blocks if max(s, a) < min(e, b)]


def frames_for(blocks, strand, start_frame=0, shift_at=None):
    """CDSFrame names per block (ascending block order, as the library stores them).

    Mirrors the convention of `CDSInterval.construct_frames_from_location`: the 5'-most block carries
    `start_frame` (that many bases precede the first complete codon); every later block (going 5'->3') carries
    (bases of the CDS before it - start_frame) mod 3.
    `shift_at` = index (in 5'->3' order, > 0) of a block whose frame is advanced by one (programmed frameshift)."""
    order = list(range(len(blocks)))
    if strand == "MINUS":
        order.reverse()
    frames = [None] * len(blocks)
    consumed = -start_frame
    for j, i in enumerate(order):
        if j == 0:
            frames[i] = FRAME_NAMES[start_frame]
        else:
            if shift_at is not None and j == shift_at:
                consumed += 1
            frames[i] = FRAME_NAMES[consumed % 3]
        consumed += blocks[i][1] - blocks[i][0]
    return frames


# ------------------------------------------------------------------------------------------------------
# genes, features, collections

def gen_transcript(rng, lo, hi, strand, seqname, p=None):
    p = p or {}
    exons = gen_blocks(rng, lo, hi, p.get("max_exons", 4), p.get("p_adjacent", 0.3))
    coding = rng.random() < p.get("p_coding", 0.6)
    tx = dict(exon_starts=[s for s, _ in exons], exon_ends=[e for _, e in exons], strand=strand,
              cds_starts=None, cds_ends=None, cds_frames=None, qualifiers=None, is_primary_tx=False,
              transcript_id=None, transcript_symbol=None, transcript_type=None, protein_id=None, product=None,
              sequence_name=seqname)
    if coding:
        a = rng.randint(exons[0][0], exons[-1][1] - 1)
        b = rng.randint(a + 1, exons[-1][1])
        if rng.random() < 0.3:
            a, b = exons[0][0], exons[-1][1]           # full-length CDS
        cds = clip_blocks(exons, a, b)
        if cds:
            sf = rng.choice([0, 0, 1, 2]) if p.get("frame_offsets", True) else 0
            shift = rng.randrange(len(cds)) if (len(cds) > 1 and rng.random() < p.get("p_frameshift", 0.1)) else None
            tx.update(cds_starts=[s for s, _ in cds], cds_ends=[e for _, e in cds],
                      cds_frames=frames_for(cds, strand, sf, shift))
    return tx


def gen_gene(rng, idx, lo, hi, seqname, p=None):
    """One gene: 1..max_tx isoforms on one strand, inside [lo, hi)."""
    p = p or {}
    strand = rng.choice(["PLUS", "MINUS"])
    ntx = rng.randint(1, p.get("max_tx", 3))
    qstyle = p.get("qualifiers", "plain")
    ex = p.get("exclude_values", "")
    txs = []
    for j in range(ntx):
        a = rng.randint(lo, max(lo, hi - 4))
        b = rng.randint(min(hi, a + 2), hi)
        tx = gen_transcript(rng, a, b, strand, seqname, p)
        coding = tx["cds_starts"] is not None
        ident = p.get("identifiers", "full")     # full | sparse | adv
        def idv(prefix):
            if ident == "sparse" and rng.random() < 0.5:
                return None
            if ident == "adv":
                return adversarial_string(rng, 4, exclude=ex)
            return f"{prefix}{idx}.{j}"
        tx["transcript_id"] = idv("tx")
        tx["transcript_symbol"] = idv("TS")
        if coding:
            tx["protein_id"] = idv("prot")
            tx["product"] = idv("product ") if ident != "adv" else adversarial_string(rng, 6, exclude=ex)
        tx["qualifiers"] = gen_qualifiers(rng, qstyle, 2, ex, p.get("key_pool"))
        txs.append(tx)
    # content-identical isoforms inside ONE gene are refused by the library (DuplicateTranscriptError): drop them
    seen, uniq = set(), []
    for t in txs:
        key = repr(sorted(t.items(), key=lambda kv: kv[0]))
        if key not in seen:
            seen.add(key)
            uniq.append(t)
    txs = uniq
    any_coding = any(t["cds_starts"] is not None for t in txs)
    gene_type = (BIOTYPES_CODING[0] if any_coding else rng.choice(BIOTYPES_NONCODING))
    bt = p.get("biotypes", "same")               # same | none | differ | mix (differ, some transcripts None)
    for t in txs:
        if bt == "same":
            t["transcript_type"] = gene_type
        elif bt == "none":
            t["transcript_type"] = None
        elif bt == "mix" and rng.random() < 0.4:
            t["transcript_type"] = None                 # falls back to the gene's biotype on re-parse
        else:
            t["transcript_type"] = (BIOTYPES_CODING[0] if t["cds_starts"] is not None
                                    else rng.choice(BIOTYPES_NONCODING))
    ident = p.get("identifiers", "full")

    def gid(prefix):
        if ident == "sparse" and rng.random() < 0.5:
            return None
        if ident == "adv":
            return adversarial_string(rng, 4, exclude=ex)
        return f"{prefix}{idx}"
    return dict(transcripts=txs, gene_id=gid("gene"), gene_symbol=gid("SYM"),
                gene_type=None if bt == "none" else gene_type, locus_tag=gid("LT_"),
                qualifiers=gen_qualifiers(rng, qstyle, 3, ex, p.get("key_pool")), sequence_name=seqname)


def gen_feature_collection(rng, idx, lo, hi, seqname, p=None):
    p = p or {}
    qstyle = p.get("qualifiers", "plain")
    ex = p.get("exclude_values", "")
    nf = rng.randint(1, p.get("max_features", 2))
    feats = []
    for j in range(nf):
        a = rng.randint(lo, max(lo, hi - 3))
        b = rng.randint(min(hi, a + 2), hi)
        blocks = gen_blocks(rng, a, b, 3, p.get("p_adjacent", 0.3))
        feats.append(dict(interval_starts=[s for s, _ in blocks], interval_ends=[e for _, e in blocks],
                          strand=rng.choice(["PLUS", "MINUS", "UNSTRANDED"]),
                          qualifiers=gen_qualifiers(rng, qstyle, 2, ex), feature_id=f"feat{idx}.{j}",
                          feature_name=rng.choice([None, f"FN{idx}.{j}"]),
                          feature_types=sorted(set(rng.sample(["promoter", "enhancer", "misc_feature", "repeat"],
                                                              rng.randint(0, 2)))),
                          sequence_name=seqname, is_primary_feature=False))
    return dict(feature_intervals=feats, feature_collection_name=rng.choice([None, f"FC{idx}"]),
                feature_collection_id=f"fc{idx}", feature_collection_type=rng.choice([None, "regulatory"]),
                locus_tag=rng.choice([None, f"FLT_{idx}"]), qualifiers=gen_qualifiers(rng, qstyle, 2, ex),
                sequence_name=seqname)


def gen_collection(rng, p=None):
    """A whole collection on one sequence.  Parameters (all optional), dict `p`:

      genome_len (120)  n_genes (1..3 when None)  n_feature_collections (0)  max_tx (3)  max_exons (4)
      p_coding (0.6)  p_adjacent (0.3)  frame_offsets (True)  p_frameshift (0.1)
      qualifiers  none|plain|adv|advkey      exclude_values  letters removed from generated values/identifiers
      identifiers full|sparse|adv            biotypes  same|none|differ|mix     key_pool  list of extra keys
      seqname ("chr1")  overlap_genes (True: gene ranges drawn independently, may overlap)
    """
    p = dict(p or {})
    L = p.get("genome_len", 120)
    seqname = p.get("seqname", "chr1")
    ng = p.get("n_genes")
    if ng is None:
        ng = rng.randint(1, 3)
    nfc = p.get("n_feature_collections", 0)
    genes, fcs = [], []
    for i in range(ng):
        a = rng.randint(0, L - 12)
        b = rng.randint(a + 6, min(L, a + 60))
        genes.append(gen_gene(rng, i, a, b, seqname, p))
    for i in range(nfc):
        a = rng.randint(0, L - 12)
        b = rng.randint(a + 6, min(L, a + 40))
        fcs.append(gen_feature_collection(rng, i, a, b, seqname, p))
    return dict(sequence_name=seqname, name=None, genes=genes, feature_collections=fcs, genome_len=L)


def collection_from_seed(seed, p=None):
    """The collection an op line `<op> <seed> ...` denotes."""
    return gen_collection(random.Random(int(seed)), p)


def span(coll):
    """(min start, max end) over everything in the collection, or None when empty."""
    los, his = [], []
    for g in coll["genes"]:
        for t in g["transcripts"]:
            los.append(t["exon_starts"][0])
            his.append(t["exon_ends"][-1])
    for fc in coll["feature_collections"]:
        for f in fc["feature_intervals"]:
            los.append(f["interval_starts"][0])
            his.append(f["interval_ends"][-1])
    return (min(los), max(his)) if los else None


def classify(coll):
    """Distribution tags for run.count()."""
    tags = []
    for g in coll["genes"]:
        tags.append(f"gene:isoforms={len(g['transcripts'])}")
        for t in g["transcripts"]:
            tags.append("tx:coding" if t["cds_starts"] else "tx:noncoding")
            tags.append("tx:" + t["strand"].lower())
            ex = list(zip(t["exon_starts"], t["exon_ends"]))
            if any(a[1] == b[0] for a, b in zip(ex, ex[1:])):
                tags.append("tx:0bp-gap-exons")
            if t["cds_starts"]:
                cd = list(zip(t["cds_starts"], t["cds_ends"]))
                if any(a[1] == b[0] for a, b in zip(cd, cd[1:])):
                    tags.append("cds:0bp-gap-blocks")
                first = t["cds_frames"][0] if t["strand"] == "PLUS" else t["cds_frames"][-1]
                tags.append("cds:start-frame=" + first)
                tags.append(f"cds:blocks={min(len(cd), 4)}")
    for fc in coll["feature_collections"]:
        tags.append(f"fc:features={len(fc['feature_intervals'])}")
    return tags


# ------------------------------------------------------------------------------------------------------
# real objects

_GENOME_CACHE = {}


def genome(n):
    """deterministic pseudo-random ACGT of length n"""
    g = _GENOME_CACHE.get(n)
    if g is None:
        x, out = 12345, []
        for _ in range(n):
            x = (x * 1103515245 + 12345) % (1 << 31)
            out.append("ACGT"[(x >> 16) & 3])
        g = _GENOME_CACHE[n] = "".join(out)
    return g


def make_parent(kind, seqname="chr1", genome_len=120, chunk=None):
    """kind: "none" -> None; "chrom" -> whole chromosome with sequence; "chunk" -> sequence chunk [cs, ce)."""
    from inscripta.biocantor.io.parser import seq_chunk_to_parent, seq_to_parent
    if kind == "none":
        return None
    if kind == "chrom":
        return seq_to_parent(genome(genome_len), seq_id=seqname)
    if kind == "chunk":
        cs, ce = chunk
        return seq_chunk_to_parent(genome(max(genome_len, ce))[cs:ce], seqname, cs, ce)
    raise ValueError(kind)


def to_library_dict(coll, guids=None):
    """The dict `AnnotationCollection.from_dict` expects (adds the GUID keys; `guids` optionally maps
    ("gene", i) / ("tx", i, j) / ("fc", i) / ("feat", i, j) to uuid.UUID objects)."""
    guids = guids or {}
    d = copy.deepcopy(coll)
    d.pop("genome_len", None)
    for i, g in enumerate(d["genes"]):
        g["gene_guid"] = guids.get(("gene", i))
        g["sequence_guid"] = None
        for j, t in enumerate(g["transcripts"]):
            t["transcript_interval_guid"] = guids.get(("tx", i, j))
            t["transcript_guid"] = None
            t["sequence_guid"] = None
    for i, fc in enumerate(d["feature_collections"]):
        fc["feature_collection_guid"] = guids.get(("fc", i))
        fc["sequence_guid"] = None
        for j, f in enumerate(fc["feature_intervals"]):
            f["feature_interval_guid"] = guids.get(("feat", i, j))
            f["feature_guid"] = None
            f["sequence_guid"] = None
    d.update(variant_collections=None, id=None, sequence_guid=None, sequence_path=None, qualifiers=None,
             start=None, end=None, completely_within=None)
    return d


def build(coll, parent=None, guids=None):
    """plain data -> real `AnnotationCollection` (through `AnnotationCollection.from_dict`)."""
    from inscripta.biocantor.gene.collections import AnnotationCollection
    return AnnotationCollection.from_dict(to_library_dict(coll, guids), parent_or_seq_chunk_parent=parent)
